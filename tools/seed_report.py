#!/usr/bin/env python3
"""Writes /verif/seeded/README.md and adds a `verif` block to every seeded/<ID>/meta.json."""
import json, os, re, glob
root = '/verif'
STRENGTHENED = {
 "C02": ("MISSED", "added format-independent serde routes: the custom address byte field is handed to the visitor as borrowed bytes, transient bytes, an owned buffer (visit_byte_buf) and a sequence through a minimal Deserializer; the owned-buffer route exposes the non-canonical 30-byte heap form"),
 "C04": ("MISSED", "added the StalledSend operation to the relay histories: the destination's socket stalls its flushes for 0.3x/0.7x/1.5x/2.5x of the (configured, 1 s) write timeout under virtual time; the retried write shows up as a duplicate delivery"),
 "C08": ("MISSED (by construction: only the admission->registration window was instrumented)", "added a second pause point right after the access decision (before the confirmation frame is written) and the DuringAdmission position"),
 "C25": ("MISSED", "added a third pause point between releasing the lock and the done signal, and the stale-done schedule (run 1 held there, request starts run 2, further request deferred, stale signal handled during run 2)"),
 "C36": ("MISSED", "added the forgery kind 'replayed-stored-signature': the signature of the packet currently stored for the key in front of a newer timestamp and other records"),
 "C42": ("MISSED", "added the additional-protocol-names dimension (connect_with_opts with additional ALPNs) next to an empty primary name"),
}
STRENGTHENED2 = {
 "C11-2": ("MISSED (the check tolerated list answers as 'ambiguous')", "a single header line listing several sub-protocols is not the name of one version: the client must reject it (C11:client-accepts-answer-list)"),
 "C18-2": ("MISSED", "added the recv_path part: batches of datagram sources pushed through the receive-path address translation of a live endpoint (new hook process_batch); each relay datagram must be shown under an address that translates back to exactly its (url, id)"),
 "C21-2": ("inconclusive (exit 2: the harness hung with the implementation)", "a call into the remote map that does not return within an hour of virtual time is now a violation (C21:caller-blocked-forever)"),
 "C06-2": ("MISSED", "added ConnectReordered: connection ids assigned in one order, registration in the other (overlapping handshakes)"),
 "C03-2": ("MISSED", "added the response HonestAsOther: a valid proof for identity j next to a header naming K"),
 "C42-2": ("MISSED", "added the accept_0rtt dimension: the acceptor takes the connection through Incoming::accept().into_0rtt().handshake_completed()"),
 "C38-2": ("MISSED", "added schedules for a key without any earlier packet (first publish overlapping a lookup) and a pause point after a store miss in ZoneStore::resolve"),
}
STILL_MISSED = {
 "C04-2": "reordering after a queue overflow needs byte-level back-pressure released one frame at a time while the sender keeps sending; the StalledBurst operation (receiver blocked by write credits, released one frame at a time while the sender keeps sending) overflows the queue but in the in-memory harness the parked packet is dropped rather than overtaken, so no reordering is observed",
}
first = {}
for l in open(f'{root}/notes/seed-results.txt'):
    m = re.match(r'^(\S+)/out/(C\d+) (C\d+) \[quick\] ([\w-]+)(?: :: (.*))?', l)
    if m:
        key = m.group(2) + ('-2' if '/sd-t' in m.group(1) else '')
        first[key] = (m.group(4), (m.group(5) or '')[:300])
ver = {}
for l in open(f'{root}/notes/seed-verify.jsonl'):
    r = json.loads(l)
    if r.get('error') and r['property'] in ver: continue
    ver[r['property']] = r
rows = []
for d in sorted(glob.glob(f'{root}/seeded/C*')):
    pid = os.path.basename(d)
    meta = json.load(open(f'{d}/meta.json'))
    res, detail = first.get(pid, ('?', ''))
    sig = re.search(r'signature=(\S+)', detail)
    v = ver.get(pid, {})
    def real(tests):  # ignore helper fns that are not tests
        return {k: x for k, x in (tests or {}).items() if x['passed'] + x['failed'] > 0 or not x['compiled']}
    wc, woc = real(v.get('with_change')), real(v.get('without_change'))
    fails = bool(wc) and any(x['failed'] > 0 for x in wc.values())
    passes = bool(woc) and all(x['failed'] == 0 and x['passed'] > 0 for x in woc.values())
    confirmed = {"demo_fails_with_change": fails if v else None, "demo_passes_without_change": passes if v else None,
                 "existing_tests_pass_with_change": v.get('existing_tests_ok'), "existing_tests": v.get('existing_tests_with_change')}
    st = STRENGTHENED.get(pid) or STRENGTHENED2.get(pid)
    missed_now = STILL_MISSED.get(pid)
    meta['verif'] = {
        "breaks_property": pid.split('-')[0],
        "needs_to_manifest": meta.get('needs'),
        "confirmed_by_integrator": confirmed,
        "what_was_run": ["tools/seedverify.py: scratch worktree; cargo test of the demo with patch+demo (must fail) and with the demo alone (must pass); cargo nextest of the touched crate with the patch alone",
                         f"tools/seedcheck.py / direct: git apply patch.diff; ./check {pid.split('-')[0]} --tier quick; git checkout -- ."],
        "check_result_as_first_built": st[0] if st else res,
        "check_strengthened": st[1] if st else None,
        "check_result_now": "MISSED: " + missed_now if missed_now else "CAUGHT",
        "caught_with_signature": sig.group(1) if sig else None,
    }
    json.dump(meta, open(f'{d}/meta.json', 'w'), indent=1)
    rows.append((pid, (meta.get('summary') or '')[:150].replace('|', '/'), (meta.get('needs') or '')[:150].replace('|', '/'), st[0] if st else res, ('yes: ' + st[1][:110] + '…') if st else ('NOT CAUGHT: ' + missed_now[:140] + '…' if missed_now else 'no'), sig.group(1) if sig else ('see meta' if st else '?'),
                 'ok' if (fails and passes and v.get('existing_tests_ok')) else ('not re-run by the integrator (seed author reports: demo fails with / passes without the change, existing tests pass)' if not v else f"demo fails w/ change: {fails}; passes w/o: {passes}; suite ok: {v.get('existing_tests_ok')}")))
out = ['# Seeded breaking changes', '',
 'Each directory holds a change to n0-computer/iroh written by a sub-agent that was given only the property text and its own worktree (nothing from /verif): `patch.diff` (the change), `demo.diff` + `demo.md` (a test that fails with the change and passes without it), `meta.json` (what it breaks, what it needs to manifest, what was run; the `verif` block is added by the integrator).',
 'None of these changes is committed to /repo. To re-run: `git -C /repo apply /verif/seeded/<ID>/patch.diff; ./check <ID>; git -C /repo checkout -- .`', '',
 f'Summary: {len(rows)} changes: two per property, written in two waves (`<ID>` and `<ID>-2`; the second wave was told the first change and asked for a different code site or clause). Caught by the check as first built: {sum(1 for r in rows if r[3]=="CAUGHT")}; missed or inconclusive at first and caught after strengthening the check: {sum(1 for r in rows if not r[3]=="CAUGHT" and not r[4].startswith("NOT CAUGHT"))}; still not caught: {sum(1 for r in rows if r[4].startswith("NOT CAUGHT"))} (listed with the reason).', '',
 '| property | change | needs | check as first built | strengthened? | signature that fires | integrator confirmation (demo fails with / passes without / existing tests pass) |', '|---|---|---|---|---|---|---|']
for r in rows: out.append('| ' + ' | '.join(r) + ' |')
out += ['', 'Notes:', '* `seeded/C07/patch.diff` was rebased by the integrator onto the current tree (a later hook commit added a pause point at the edited lines); the original is `patch.orig.diff`.',
 '* The C12 demonstration contains a helper function `request` next to the test; only the `#[test]` function counts.']
open(f'{root}/seeded/README.md', 'w').write('\n'.join(out) + '\n')
print('\n'.join('  '.join((r[0], r[3][:8], r[6][:60])) for r in rows))
