#!/usr/bin/env bash
# wave 2: evaluation loops over /tmp/sd-t*
for p in $(pgrep -f "seedloop.sh"); do kill $p 2>/dev/null; done
sleep 1
[ -d /tmp/ag-mut2 ] || /verif/tools/agent_env.sh mut2 > /dev/null
for n in mut mut2; do
  git -C /tmp/ag-$n/repo checkout -q -- . ; git -C /tmp/ag-$n/repo clean -fdq
  git -C /tmp/ag-$n/repo checkout -q --detach main 2>/dev/null; git -C /tmp/ag-$n/repo reset -q --hard main
  rsync -a --delete --exclude target --exclude .git --exclude scratch --exclude replays --exclude check --exclude harness/Cargo.toml --exclude evidence --exclude fuzzing --exclude notes /verif/ /tmp/ag-$n/verif/
  mkdir -p /tmp/ag-$n/verif/scratch /tmp/ag-$n/verif/replays /tmp/ag-$n/verif/evidence; rm -f /tmp/ag-$n/stop
  git -C /tmp/ag-$n/repo log --oneline | head -1
done
nohup /verif/tools/seedloop.sh mut /tmp/sd-t1 /tmp/sd-t2 /tmp/sd-t3 /tmp/sd-t4 /tmp/sd-t5 /tmp/sd-t10 > /tmp/ag-mut/seedloop.log 2>&1 &
nohup /verif/tools/seedloop.sh mut2 /tmp/sd-t6 /tmp/sd-t7 /tmp/sd-t8 /tmp/sd-t9 /tmp/sd-t11 > /tmp/ag-mut2/seedloop.log 2>&1 &
sleep 1
