#!/usr/bin/env bash
# tools/seed_env.sh <name> <ID>...: scratch worktree + property texts for an independent seeding sub-agent
set -eu
N=$1; shift
D=/tmp/sd-$N
rm -rf "$D"; mkdir -p "$D/out"
git -C /repo worktree prune
git -C /repo worktree add -q --detach "$D/repo" HEAD
: > "$D/properties.txt"
for id in "$@"; do
  jq -r --arg id "$id" 'select(.id==$id) | "## \(.id) — \(.title)\n\nStatement: \(.statement)\n\nQuantified over: \(.quantifier.text)\n\nWhy the existing tests cannot settle it: \(.why_tests_cant)\n\nCode anchors (files): \(.anchors.files | join(", "))\n"' /verif/properties.jsonl >> "$D/properties.txt"
done
echo "$D"
