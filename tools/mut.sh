#!/usr/bin/env bash
# tools/mut.sh <ID> <file-in-repo> <python-regex> <replacement>  : apply a one-line mutation, run the quick check, revert.
set -u
ID=$1; FILE=$2; PAT=$3; REP=$4
cd /repo
python3 - "$FILE" "$PAT" "$REP" <<'PY'
import re,sys
f,pat,rep=sys.argv[1:4]
s=open(f).read()
n=len(re.findall(pat,s,flags=re.S))
if n==0:
    print("MUTATION-PATTERN-NOT-FOUND"); sys.exit(3)
s=re.sub(pat,rep,s,count=1,flags=re.S)
open(f,'w').write(s)
print(f"mutated {f} ({n} matches, first replaced)")
PY
rc=$?
if [ $rc -ne 0 ]; then exit $rc; fi
git -C /repo diff --stat | tail -1
cd /verif
./check "$ID" --tier quick 2>&1 | tail -4
echo "exit=$?"
git -C /repo checkout -- .
