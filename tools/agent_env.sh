#!/usr/bin/env bash
# tools/agent_env.sh <name>: scratch environment for a builder sub-agent:
#   /tmp/ag-<name>/repo     git worktree of /repo (branch ag-<name>)
#   /tmp/ag-<name>/verif    copy of /verif (harness with path deps pointing at the worktree)
set -eu
N=$1
D=/tmp/ag-$N
rm -rf "$D"; mkdir -p "$D"
git -C /repo worktree prune
git -C /repo branch -D "ag-$N" 2>/dev/null || true
git -C /repo worktree add -q -b "ag-$N" "$D/repo" HEAD
mkdir -p "$D/verif"
rsync -a --exclude target --exclude .git --exclude scratch --exclude replays /verif/ "$D/verif/"
mkdir -p "$D/verif/scratch" "$D/verif/replays"
sed -i "s#/repo/#$D/repo/#g" "$D/verif/harness/Cargo.toml"
sed -i "s#/repo/Cargo.lock#$D/repo/Cargo.lock#g; s#cd \"\$(dirname \"\$0\")/harness\"#export VERIF_ROOT=$D/verif; cd $D/verif/harness#" "$D/verif/check"
cp -r /verif/harness/target "$D/verif/harness/target"
echo "$D ready"
