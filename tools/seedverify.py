#!/usr/bin/env python3
"""tools/seedverify.py <worker-name> <seed-out-dir>...
Confirms a seeded change in a scratch worktree /tmp/sv-<worker>/repo (own target dir):
 (a) patch + demo: the demo test FAILS; (b) demo alone: the demo test PASSES;
 (c) patch alone: the touched crate's existing tests pass (known offline failures excepted).
Appends one JSON line per seed to /verif/notes/seed-verify.jsonl."""
import subprocess, sys, os, re, json
w = sys.argv[1]
root = f"/tmp/sv-{w}"
repo = f"{root}/repo"
if not os.path.isdir(repo):
    os.makedirs(root, exist_ok=True)
    subprocess.run(["git", "-C", "/repo", "worktree", "prune"])
    subprocess.run(["git", "-C", "/repo", "worktree", "add", "-q", "--detach", repo, "HEAD"], check=True)
env = dict(os.environ, CARGO_TARGET_DIR=f"{root}/target", CARGO_NET_OFFLINE="true")
FEATURES = {"iroh-relay": ["--features", "server,test-utils"], "iroh-base": ["--features", "key"], "iroh": [], "iroh-dns": [], "iroh-dns-server": []}
KNOWN_FAIL = {"test_dns_lookup_ipv4_ipv6", "simple_endpoint_id_based_connection_transfer"}
def git(*a): return subprocess.run(["git", "-C", repo, *a], capture_output=True, text=True)
def reset(): git("checkout", "--", "."); git("clean", "-fdq")
def crates_of(diff):
    return sorted({m.group(1) for m in re.finditer(r"^\+\+\+ b/(iroh[a-z-]*)/", open(diff).read(), flags=re.M)})
def run_tests(crate, names):
    res = {}
    for n in names:
        r = subprocess.run(["cargo", "test", "-p", crate, *FEATURES[crate], "--offline", "--", n], cwd=repo, env=env, capture_output=True, text=True, timeout=5400)
        out = r.stdout + r.stderr
        ran = re.findall(r"test result: (\w+)\. (\d+) passed; (\d+) failed", out)
        passed = sum(int(p) for _, p, _ in ran); failed = sum(int(f) for _, _, f in ran)
        compiled = "error: could not compile" not in out and "error[E" not in out
        res[n] = {"passed": passed, "failed": failed, "compiled": compiled}
    return res
for d in sys.argv[2:]:
    d = d.rstrip("/")
    pid = os.path.basename(d)
    rec = {"seed": d, "property": pid}
    try:
        patch, demo = f"{d}/patch.diff", f"{d}/demo.diff"
        if not (os.path.exists(patch) and os.path.exists(demo)):
            rec["error"] = "no patch.diff/demo.diff"; raise StopIteration
        names = re.findall(r"^\+\s*(?:pub\s+)?(?:async\s+)?fn\s+(\w+)\s*\(", open(demo).read(), flags=re.M)
        tests = []
        lines = open(demo).read().splitlines()
        for i, l in enumerate(lines):
            m = re.match(r"^\+\s*(?:pub\s+)?(?:async\s+)?fn\s+(\w+)\s*\(", l)
            if m and any(re.match(r"^\+\s*#\[(tokio::)?test", x) for x in lines[max(0, i - 4):i]):
                tests.append(m.group(1))
        rec["demo_tests"] = tests
        dcr = crates_of(demo); pcr = crates_of(patch)
        crate = (dcr or pcr)[0]
        rec["crate"] = crate
        reset()
        if git("apply", "--whitespace=nowarn", patch).returncode or git("apply", "--whitespace=nowarn", demo).returncode:
            rec["error"] = "apply failed"; raise StopIteration
        a = run_tests(crate, tests)
        rec["with_change"] = a
        reset(); git("apply", "--whitespace=nowarn", demo)
        b = run_tests(crate, tests)
        rec["without_change"] = b
        rec["demo_fails_with_change"] = any(v["failed"] > 0 or not v["compiled"] for v in a.values()) and all(v["compiled"] for v in a.values())
        rec["demo_passes_without_change"] = all(v["failed"] == 0 and v["passed"] > 0 for v in b.values())
        # (c) existing tests with the patch alone
        reset(); git("apply", "--whitespace=nowarn", patch)
        ok = True; summ = {}
        for c in pcr:
            r = subprocess.run(["cargo", "nextest", "run", "-p", c, *FEATURES[c], "--offline", "--no-fail-fast", "--test-threads", "6"], cwd=repo, env=env, capture_output=True, text=True, timeout=7200)
            out = r.stdout + r.stderr
            m = re.search(r"Summary \[[^\]]*\]\s+(\d+) tests run: (\d+) passed", out)
            bad = sorted(set(re.findall(r"^\s+(?:FAIL|TIMEOUT|SIGABRT|SIGSEGV)\s+\[[^\]]*\]\s+(?:\([^)]*\)\s+)?(\S+\s+\S+)", out, flags=re.M)))
            unexpected = [b for b in bad if not any(k in b for k in KNOWN_FAIL)]
            summ[c] = {"run": int(m.group(1)) if m else None, "passed": int(m.group(2)) if m else None, "not_passed": bad}
            if not m or unexpected: ok = False
        rec["existing_tests_with_change"] = summ
        rec["existing_tests_ok"] = ok
    except StopIteration:
        pass
    except Exception as e:
        rec["error"] = repr(e)
    reset()
    open("/verif/notes/seed-verify.jsonl", "a").write(json.dumps(rec) + "\n")
    print(pid, {k: rec.get(k) for k in ("demo_fails_with_change", "demo_passes_without_change", "existing_tests_ok", "error")}, flush=True)
