#!/usr/bin/env bash
# usage: seedloop.sh <env> <sd-dir>...   evaluates every seeded patch under <sd-dir>/out/<ID>/ once, in env /tmp/ag-<env>
ENVN=$1; shift
RES=/verif/notes/seed-results.txt
touch $RES
while true; do
  for sd in "$@"; do
    for m in $sd/out/*/meta.json; do
      [ -f "$m" ] || continue
      d=$(dirname "$m"); id=$(basename "$d")
      [ -f "$d/patch.diff" ] || continue
      grep -q "^$d " $RES && continue
      out=$(/verif/tools/seedcheck.py $ENVN "$d/patch.diff" "$id" quick 2>&1 | tail -1)
      echo "$d $out" >> $RES
    done
  done
  [ -f /tmp/ag-$ENVN/stop ] && break
  sleep 60
done
