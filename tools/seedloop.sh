#!/usr/bin/env bash
# usage: seedloop.sh <env> "<glob of sd dirs>"
# evaluates every seeded patch found under /tmp/sd-*/out/<ID>/patch.diff once (needs meta.json present), in env ag-mut
ENVN=${1:-mut}; GLOB=${2:-/tmp/sd-*}
RES=/verif/notes/seed-results.txt
touch $RES
while true; do
  for m in $GLOB/out/*/meta.json; do
    [ -f "$m" ] || continue
    d=$(dirname "$m"); id=$(basename "$d"); key="$d"
    [ -f "$d/patch.diff" ] || continue
    grep -q "^$key " $RES && continue
    out=$(/verif/tools/seedcheck.py $ENVN "$d/patch.diff" "$id" quick 2>&1 | tail -1)
    echo "$key $out" >> $RES
  done
  [ -f /tmp/ag-$ENVN/stop ] && break
  sleep 60
done
