#!/usr/bin/env bash
# second-wave seeding env: like seed_env.sh but lists the already known change per property (to be avoided)
set -eu
N=$1; shift
D=/tmp/sd-$N
rm -rf "$D"; mkdir -p "$D/out"
git -C /repo worktree prune
git -C /repo worktree add -q --detach "$D/repo" HEAD
: > "$D/properties.txt"
for id in "$@"; do
  jq -r --arg id "$id" 'select(.id==$id) | "## \(.id) — \(.title)\n\nStatement: \(.statement)\n\nQuantified over: \(.quantifier.text)\n\nWhy the existing tests cannot settle it: \(.why_tests_cant)\n\nCode anchors (files): \(.anchors.files | join(", "))\n"' /verif/properties.jsonl >> "$D/properties.txt"
  echo "Already known change for $id (write a DIFFERENT one: another code site or another clause of the statement): $(jq -r '.summary' /verif/seeded/$id/meta.json | cut -c1-500)" >> "$D/properties.txt"
  echo >> "$D/properties.txt"
done
echo "$D"
