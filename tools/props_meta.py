# Per-property manifest metadata.  Only properties listed in CLAIMED are claimed in MANIFEST.json.
META = {
 "C02": dict(level="exploration", technique="property-based testing: round-trip + differential against independent codecs and curve check (proptest)",
   text="Generated keys/strings/addresses through every public encoding route; accept/reject decisions and values compared with independent hex/base32/z-base-32 decoders, curve25519-dalek decompression and a big-integer curve check; accessors and formatters of every accepted value are called. Sampling, not proof.",
   note="Trusts curve25519-dalek/ed25519-dalek and num-bigint as references; IPv6 flow info/scope id are outside the round-trip domain (serde's socket address encodings do not carry them).", ref="4/C02"),
 "C16": dict(level="exploration", technique="property-based testing against a reference partition (proptest)",
   text="Generated (contents, segment size, ecn, sequence of n>=1) cases; taken batches re-cut by their own segment size must concatenate to the reference list; flags and ecn checked after each take.",
   note="n == 0 and n > 2^32 are outside the domain.", ref="4/C16"),
}
