#!/usr/bin/env python3
"""tools/mutlist.py <envname> <listfile.py>
Runs one-line mutations in /tmp/ag-<envname> (made by tools/agent_env.sh).  listfile.py defines
MUTS = [(ID, repo_relative_file, python_regex, replacement), ...].  Results are appended to
/tmp/ag-<envname>/mut-results.txt (CAUGHT / SURVIVED / BUILD-FAILED / PATTERN-NOT-FOUND)."""
import re, subprocess, sys, os, runpy
env = f"/tmp/ag-{sys.argv[1]}"
muts = runpy.run_path(sys.argv[2])["MUTS"]
out = open(f"{env}/mut-results.txt", "a")
for (pid, f, pat, rep) in muts:
    path = f"{env}/repo/{f}"
    s = open(path).read()
    if not re.search(pat, s, flags=re.S):
        out.write(f"{pid} {f} /{pat}/ => PATTERN-NOT-FOUND\n"); out.flush(); continue
    open(path, "w").write(re.sub(pat, lambda m: rep, s, count=1, flags=re.S))
    r = subprocess.run([f"{env}/verif/check", pid, "--tier", "quick"], capture_output=True, text=True)
    allout = r.stdout + r.stderr
    if "BUILD-FAILED" in allout:
        err = " ".join(l for l in allout.splitlines() if l.startswith("error"))[:300]
        v = f"BUILD-FAILED {err}"
    elif r.returncode == 1 and "VIOLATION property=" in r.stdout:
        viol = [l for l in r.stdout.splitlines() if l.startswith("violation")]
        v = "CAUGHT :: " + (viol[0][:220] if viol else "")
    elif r.returncode == 0:
        v = "SURVIVED"
    else:
        v = f"EXIT-{r.returncode} " + allout[-300:].replace("\n", " ")
    out.write(f"{pid} {f} /{pat[:80]}/ -> {rep[:80]!r} => {v}\n"); out.flush()
    subprocess.run(["git", "-C", f"{env}/repo", "checkout", "--", "."])
out.write("ALL-DONE\n")
