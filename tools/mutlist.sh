#!/usr/bin/env bash
# tools/mutlist.sh <envname> <listfile>
# Runs one-line mutations in the scratch environment /tmp/ag-<envname> (made by agent_env.sh).
# listfile lines:  ID|repo-relative-file|python-regex|replacement   (lines starting with # are skipped)
set -u
ENV=/tmp/ag-$1; LIST=$2
OUT=$ENV/mut-results.txt
: > "$OUT"
while IFS='|' read -r ID FILE PAT REP; do
  case "$ID" in ''|\#*) continue;; esac
  cd "$ENV/repo" || exit 2
  python3 - "$FILE" "$PAT" "$REP" <<'PY'
import re,sys
f,pat,rep=sys.argv[1:4]
s=open(f).read()
n=len(re.findall(pat,s,flags=re.S))
if n==0:
    print("MUTATION-PATTERN-NOT-FOUND"); sys.exit(3)
s=re.sub(pat,lambda m: rep,s,count=1,flags=re.S)
open(f,'w').write(s)
PY
  rc=$?
  if [ $rc -ne 0 ]; then echo "$ID|$FILE|$PAT => PATTERN-NOT-FOUND" >> "$OUT"; continue; fi
  ALL=$("$ENV/verif/check" "$ID" --tier quick 2>&1); RC=$?
  RES=$(echo "$ALL" | tail -5)
  if echo "$ALL" | grep -q "BUILD-FAILED"; then V="BUILD-FAILED $(echo "$ALL" | grep -m1 -A6 '^error' | tr '\n' ' ' | cut -c1-300)"; elif [ $RC -eq 1 ] && echo "$RES" | grep -q "^VIOLATION"; then V=CAUGHT; elif [ $RC -eq 0 ]; then V=SURVIVED; else V="EXIT-$RC"; fi
  echo "$ID|$FILE|$PAT => $V :: $(echo "$RES" | grep -E '^violation' | head -1 | cut -c1-200)" >> "$OUT"
  git -C "$ENV/repo" checkout -- .
done < "$LIST"
echo ALL-DONE >> "$OUT"
