#!/usr/bin/env python3
"""tools/pull_meta.py <agent-name>: append props_meta entries found in the agent's notes."""
import sys, re, glob
name = sys.argv[1]
p = '/verif/tools/props_meta.py'
s = open(p).read().rstrip()
assert s.endswith('}')
s = s[:-1]
for f in sorted(glob.glob(f'/tmp/ag-{name}/deliver/notes-C*.md')):
    t = open(f).read()
    m = re.findall(r'```python\s*\n(.*?)```', t, flags=re.S)
    entry = [x for x in m if re.search(r'"C\d\d"\s*:\s*dict\(', x)]
    if not entry:
        print("NO META in", f); continue
    e = entry[-1].strip()
    pid = re.search(r'"(C\d\d)"', e).group(1)
    if f'"{pid}": dict(' in s:
        print("already has", pid); continue
    if not e.endswith(','): e += ','
    s += ' ' + e + '\n'
    print("added", pid)
s += '}\n'
open(p, 'w').write(s)
import runpy; runpy.run_path(p)
