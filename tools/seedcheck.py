#!/usr/bin/env python3
"""tools/seedcheck.py <envname> <patch.diff> <ID> [tier]: apply a seeded change in the scratch env, run the check, revert."""
import subprocess, sys
env=f"/tmp/ag-{sys.argv[1]}"; patch=sys.argv[2]; pid=sys.argv[3]; tier=sys.argv[4] if len(sys.argv)>4 else "quick"
r=subprocess.run(["git","-C",f"{env}/repo","apply","--whitespace=nowarn",patch],capture_output=True,text=True)
if r.returncode!=0:
    print(f"{pid} APPLY-FAILED {r.stderr[:300]}"); sys.exit(0)
r=subprocess.run([f"{env}/verif/check",pid,"--tier",tier],capture_output=True,text=True)
out=r.stdout+r.stderr
if "BUILD-FAILED" in out: v="BUILD-FAILED "+" ".join(l for l in out.splitlines() if l.startswith("error"))[:300]
elif r.returncode==1 and "VIOLATION property=" in r.stdout:
    v="CAUGHT :: "+"".join(l for l in r.stdout.splitlines() if l.startswith("violation"))[:400]
elif r.returncode==0: v="MISSED :: "+"".join(l for l in r.stdout.splitlines() if l.startswith("property="))
else: v=f"EXIT-{r.returncode} "+out[-300:].replace("\n"," ")
print(f"{pid} [{tier}] {v}")
subprocess.run(["git","-C",f"{env}/repo","checkout","--","."])
subprocess.run(["git","-C",f"{env}/repo","clean","-fdq"])
