#!/usr/bin/env python3
"""Regenerates /verif/MANIFEST.json from tools/props_meta.py and the vcheck registry."""
import json, subprocess, sys, os
sys.path.insert(0, os.path.dirname(__file__))
from props_meta import META
try:
    from props_meta import NOT_APPLICABLE
except ImportError:
    NOT_APPLICABLE = {}
root = os.path.dirname(os.path.dirname(os.path.abspath(__file__)))
props = [json.loads(l) for l in open(os.path.join(root, "properties.jsonl"))]
hooks = subprocess.run(["git", "-C", "/repo", "log", "--format=%H %s", "c19ddde..HEAD"], capture_output=True, text=True).stdout.strip().splitlines()
hook_commits = [l.split()[0] for l in hooks if l.split(" ", 1)[1].startswith("verif-hooks")]
checks = []
na = []
for p in props:
    pid = p["id"]
    if pid in META:
        m = META[pid]
        checks.append({
            "property_id": pid,
            "quick_cmd": f"./check {pid} --tier quick",
            "thorough_cmd": f"./check {pid} --tier thorough",
            "evidence_file": f"/verif/evidence/{pid}.json",
            "replay_cmd_template": f"./check {pid} --replay {{path}}",
            "engine": "vcheck",
            "level_claimed": {"category": m["level"], "text": m["text"], "design_ref": m.get("ref", "")},
            "level_note": m["note"],
            "technique": m["technique"],
        })
    else:
        na.append({"property_id": pid, "reason": NOT_APPLICABLE.get(pid, "check not built yet in this round (planned in DESIGN.md section 4); not claimed")})
manifest = {
    "version": 1,
    "setup_cmd": "./setup.sh",
    "hooks": {
        "guard": "cargo feature verif-hooks (iroh-base, iroh-dns, iroh-relay, iroh, iroh-dns-server)",
        "enable": "harness/Cargo.toml depends on the /repo crates by path with features = [\"verif-hooks\"]; ./check runs cargo build --offline before every check",
        "baseline_off_cmd": "cd /repo && cargo nextest run --workspace --no-fail-fast --test-threads 8 --offline",
        "source_commits": hook_commits,
        "add_only": True,
    },
    "engines": [
        {"name": "vcheck", "path": "harness/", "serves_properties": [c["property_id"] for c in checks],
         "kind_free_text": "Rust binary driving proptest TestRunner (fixed seed from VERIF_SEED, no persistence), model-based interpreters, exhaustive enumerators, schedule control through cfg-guarded pause points; writes evidence/<id>.json"},
    ],
    "checks": checks,
    "not_applicable": na,
    "notes": "Exit 0 held / 1 VIOLATION / 2 harness problem or watchdog (inconclusive). known_findings.json lists recorded and fixed defects. See DESIGN.md.",
}
json.dump(manifest, open(os.path.join(root, "MANIFEST.json"), "w"), indent=1)
print(f"claimed {len(checks)} not_applicable {len(na)} hook commits {len(hook_commits)}")
