#!/usr/bin/env python3
"""tools/integrate.py <agent-name>: merge an agent's harness files into /verif/harness."""
import sys, os, shutil, filecmp, re
name = sys.argv[1]
src = f"/tmp/ag-{name}/verif"
dst = "/verif"
for sub in ["harness/src/props", "harness/src/support"]:
    for f in sorted(os.listdir(f"{src}/{sub}")):
        a, b = f"{src}/{sub}/{f}", f"{dst}/{sub}/{f}"
        if f == "mod.rs": continue
        if not os.path.exists(b):
            shutil.copy(a, b); print("copied", sub, f)
        elif not filecmp.cmp(a, b, shallow=False):
            print("DIFFERS (manual):", sub, f)
def merge_lines(rel, pred):
    a = open(f"{src}/{rel}").read().splitlines()
    b = open(f"{dst}/{rel}").read()
    bl = b.splitlines()
    new = [l for l in a if pred(l) and l not in bl]
    return new
# props/mod.rs
rel = "harness/src/props/mod.rs"
mods = merge_lines(rel, lambda l: l.startswith("pub mod "))
regs = merge_lines(rel, lambda l: l.strip().startswith("Prop {"))
s = open(f"{dst}/{rel}").read()
if mods:
    s = s.replace("pub mod c02_encodings;", "\n".join(mods) + "\npub mod c02_encodings;", 1)
if regs:
    s = s.replace("];", "\n".join(regs) + "\n];", 1)
open(f"{dst}/{rel}", "w").write(s)
print("mods:", mods); print("registry:", [r.strip()[:24] for r in regs])
rel = "harness/src/support/mod.rs"
sm = merge_lines(rel, lambda l: l.startswith("pub mod "))
if sm:
    open(f"{dst}/{rel}", "a").write("\n".join(sm) + "\n")
print("support mods:", sm)
# regressions
if os.path.isdir(f"{src}/regressions"):
    for d in os.listdir(f"{src}/regressions"):
        if os.path.isdir(f"{src}/regressions/{d}") and not d.startswith("."):
            for f in os.listdir(f"{src}/regressions/{d}"):
                os.makedirs(f"{dst}/regressions/{d}", exist_ok=True)
                if not os.path.exists(f"{dst}/regressions/{d}/{f}"):
                    shutil.copy(f"{src}/regressions/{d}/{f}", f"{dst}/regressions/{d}/{f}"); print("regression", d, f)
# Cargo.toml deps
a = set(l for l in open(f"{src}/harness/Cargo.toml").read().splitlines() if "=" in l and "path" not in l)
b = set(l for l in open(f"{dst}/harness/Cargo.toml").read().splitlines() if "=" in l and "path" not in l)
print("Cargo.toml lines only in agent copy:", sorted(a - b))
# fuzz targets
if os.path.isdir(f"{src}/fuzz") or os.path.isdir(f"{src}/fuzzing"):
    print("NOTE: agent has fuzz dir")
