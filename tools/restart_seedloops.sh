#!/usr/bin/env bash
for p in $(pgrep -f "seedloop.sh"); do kill $p 2>/dev/null; done
for p in $(pgrep -f "seedcheck.py"); do kill $p 2>/dev/null; done
sleep 1
for n in mut mut2 mut3; do
  git -C /tmp/ag-$n/repo checkout -q -- . ; git -C /tmp/ag-$n/repo clean -fdq
  git -C /tmp/ag-$n/repo checkout -q --detach main 2>/dev/null; git -C /tmp/ag-$n/repo reset -q --hard main
  rsync -a --delete --exclude target --exclude .git --exclude scratch --exclude replays --exclude check --exclude harness/Cargo.toml --exclude evidence --exclude fuzzing --exclude notes /verif/ /tmp/ag-$n/verif/
  mkdir -p /tmp/ag-$n/verif/scratch /tmp/ag-$n/verif/replays /tmp/ag-$n/verif/evidence; rm -f /tmp/ag-$n/stop
  git -C /tmp/ag-$n/repo log --oneline | head -1
done
nohup /verif/tools/seedloop.sh mut "/tmp/sd-s[1-3]" > /tmp/ag-mut/seedloop.log 2>&1 &
nohup /verif/tools/seedloop.sh mut2 "/tmp/sd-s[4-5]" > /tmp/ag-mut2/seedloop.log 2>&1 &
nohup /verif/tools/seedloop.sh mut3 "/tmp/sd-s[6-7]" > /tmp/ag-mut3/seedloop.log 2>&1 &
sleep 1
