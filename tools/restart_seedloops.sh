#!/usr/bin/env bash
for p in $(pgrep -f "seedloop.sh"); do kill $p 2>/dev/null; done
for p in $(pgrep -f "seedcheck.py"); do kill $p 2>/dev/null; done
for n in mut mut2 mut3; do for p in $(pgrep -f "/tmp/ag-$n/verif/"); do kill $p 2>/dev/null; done; done
sleep 2
python3 - <<'PY'
p='/verif/notes/seed-results.txt'
import os
if os.path.exists(p):
    L=[l for l in open(p).read().splitlines() if (' CAUGHT' in l or ' MISSED' in l)]
    open(p,'w').write("\n".join(L)+("\n" if L else ""))
PY
for n in mut mut2 mut3; do
  git -C /tmp/ag-$n/repo checkout -q -- . ; git -C /tmp/ag-$n/repo clean -fdq
  git -C /tmp/ag-$n/repo checkout -q --detach main 2>/dev/null; git -C /tmp/ag-$n/repo reset -q --hard main
  rsync -a --delete --exclude target --exclude .git --exclude scratch --exclude replays --exclude check --exclude harness/Cargo.toml --exclude evidence --exclude fuzzing --exclude notes /verif/ /tmp/ag-$n/verif/
  mkdir -p /tmp/ag-$n/verif/scratch /tmp/ag-$n/verif/replays /tmp/ag-$n/verif/evidence; rm -f /tmp/ag-$n/stop
  git -C /tmp/ag-$n/repo log --oneline | head -1
done
nohup /verif/tools/seedloop.sh mut /tmp/sd-s1 /tmp/sd-s2 /tmp/sd-s3 /tmp/sd-s8 /tmp/sd-s9 > /tmp/ag-mut/seedloop.log 2>&1 &
nohup /verif/tools/seedloop.sh mut2 /tmp/sd-s4 /tmp/sd-s5 /tmp/sd-s10 /tmp/sd-s11 > /tmp/ag-mut2/seedloop.log 2>&1 &
nohup /verif/tools/seedloop.sh mut3 /tmp/sd-s6 /tmp/sd-s7 /tmp/sd-s12 > /tmp/ag-mut3/seedloop.log 2>&1 &
sleep 1
