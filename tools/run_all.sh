#!/usr/bin/env bash
# tools/run_all.sh [quick|thorough] [seed]: runs every claimed check once in /verif, prints a summary.
cd "$(dirname "$0")/.."
TIER=${1:-quick}; SEED=${2:-1}
for id in $(jq -r '.checks[].property_id' MANIFEST.json); do
  S=$(date +%s)
  OUT=$(./check "$id" --tier "$TIER" --seed "$SEED" 2>&1); RC=$?
  E=$(( $(date +%s) - S ))
  echo "$id rc=$RC ${E}s $(echo "$OUT" | grep -E '^property=' | tail -1 | cut -d' ' -f4-6) $(echo "$OUT" | grep -cE '^KNOWN-FINDING') known $(echo "$OUT" | grep -E '^VIOLATION' | head -1)"
done
python3-vt - <<'PY'
import json,jsonschema,glob
sch=json.load(open('/root/.vp/EVIDENCE.schema.json'))
m=json.load(open('/verif/MANIFEST.json'))
jsonschema.validate(m,json.load(open('/root/.vp/MANIFEST.schema.json')))
bad=0
for c in m['checks']:
    try: jsonschema.validate(json.load(open(c['evidence_file'])),sch)
    except Exception as e: bad+=1; print('EVIDENCE INVALID',c['property_id'],str(e)[:200])
print('evidence files invalid:',bad)
PY
