#!/usr/bin/env bash
# Run once after a fresh restore, offline: builds the harness against /repo (hooks on).
set -eu
cd "$(dirname "$0")"
export CARGO_NET_OFFLINE=true
mkdir -p scratch replays evidence
cp /repo/Cargo.lock harness/Cargo.lock
# the cargo-fuzz project (thorough tier) resolves offline from the same lock file
[ -f fuzzing/fuzz/Cargo.lock ] || cp /repo/Cargo.lock fuzzing/fuzz/Cargo.lock
cd harness
cargo build --offline --bin vcheck
