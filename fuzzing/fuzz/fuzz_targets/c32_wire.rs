#![no_main]
libfuzzer_sys::fuzz_target!(|data: &[u8]| {
    iroh_verif::props::fuzz_entry("c32_wire", data);
});
