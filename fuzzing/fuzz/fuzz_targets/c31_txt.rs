#![no_main]
libfuzzer_sys::fuzz_target!(|data: &[u8]| {
    iroh_verif::props::fuzz_entry("c31_txt", data);
});
