//! parent package required by cargo-fuzz
