//! Engine: drives proptest from the binary, counts coverage, writes evidence, handles
//! replay files, regressions and known findings.

use std::{
    collections::{BTreeMap, HashSet},
    hash::{Hash, Hasher},
    panic::{AssertUnwindSafe, catch_unwind},
    path::PathBuf,
    sync::{
        Arc, Mutex,
        atomic::{AtomicBool, AtomicU64, Ordering},
    },
    time::Instant,
};

use proptest::{
    strategy::Strategy,
    test_runner::{Config, RngAlgorithm, RngSeed, TestCaseError, TestError, TestRunner},
};
use serde::{Serialize, de::DeserializeOwned};
use serde_json::{Value, json};

/// Root directory for evidence/, replays/, regressions/, known_findings.json.
pub fn verif_root() -> PathBuf {
    PathBuf::from(std::env::var("VERIF_ROOT").unwrap_or_else(|_| "/verif".to_string()))
}

#[derive(Debug, Clone, Copy, PartialEq, Eq)]
pub enum Tier {
    Quick,
    Thorough,
}

impl Tier {
    pub fn name(self) -> &'static str {
        match self {
            Tier::Quick => "quick",
            Tier::Thorough => "thorough",
        }
    }
    /// `q` for quick, `t` for thorough.
    pub fn pick<T>(self, q: T, t: T) -> T {
        match self {
            Tier::Quick => q,
            Tier::Thorough => t,
        }
    }
}

/// Result of evaluating one case.
#[derive(Debug, Clone)]
pub enum Outcome {
    Pass {
        nontrivial: bool,
        classes: Vec<&'static str>,
    },
    Violation {
        /// Stable root-cause signature (`Cxx:short-name`), matched against known_findings.json.
        signature: String,
        detail: String,
    },
    /// The case is outside the property's domain (counted separately, never a pass).
    Excluded(&'static str),
}

impl Outcome {
    pub fn pass(nontrivial: bool) -> Self {
        Outcome::Pass {
            nontrivial,
            classes: vec![],
        }
    }
    pub fn pass_with(nontrivial: bool, classes: Vec<&'static str>) -> Self {
        Outcome::Pass {
            nontrivial,
            classes,
        }
    }
    pub fn violation(signature: impl Into<String>, detail: impl Into<String>) -> Self {
        Outcome::Violation {
            signature: signature.into(),
            detail: detail.into(),
        }
    }
}

/// Early-return helper for oracles: `check!(cond, "Cxx:sig", "fmt", args..)`.
#[macro_export]
macro_rules! check {
    ($cond:expr, $sig:expr, $($arg:tt)*) => {
        if !($cond) {
            return $crate::engine::Outcome::violation($sig, format!($($arg)*));
        }
    };
}

#[derive(Debug, Clone, serde::Deserialize)]
pub struct KnownFinding {
    pub property: String,
    pub signature: String,
    pub status: String,
    #[serde(default)]
    pub commit: Option<String>,
    pub what: String,
}

#[derive(Default)]
struct Stats {
    evaluations: u64,
    excluded: BTreeMap<&'static str, u64>,
    nontrivial_total: u64,
    distinct: HashSet<u64>,
    classes: BTreeMap<&'static str, u64>,
    samples: Vec<Value>,
    nontrivial_samples: Vec<Value>,
    parts: Vec<Value>,
    known_hits: BTreeMap<String, u64>,
    exhaustive_parts: Vec<String>,
}

pub struct Violation {
    pub part: String,
    pub signature: String,
    pub detail: String,
    pub case: Value,
}

pub struct Ctx {
    pub property: &'static str,
    pub tier: Tier,
    pub seed: u64,
    pub level: &'static str,
    replay: Option<(String, Value)>,
    /// a raw (non-JSON) replay file: a fuzzer artifact
    replay_raw: Option<Vec<u8>>,
    strict: bool,
    known: Vec<KnownFinding>,
    stats: Mutex<Stats>,
    violations: Mutex<Vec<Violation>>,
    rule: Mutex<Vec<String>>,
    assumptions: Mutex<Vec<String>>,
    extra: Mutex<BTreeMap<String, Value>>,
    start: Instant,
    printed_known: Mutex<HashSet<String>>,
}

fn fingerprint(v: &[u8]) -> u64 {
    let mut h = std::collections::hash_map::DefaultHasher::new();
    v.hash(&mut h);
    h.finish()
}

fn truncate_json(v: &Value, budget: usize) -> Value {
    let s = v.to_string();
    if s.len() <= budget {
        v.clone()
    } else {
        let mut cut = budget;
        while !s.is_char_boundary(cut) {
            cut -= 1;
        }
        json!({"truncated_json": &s[..cut], "full_len": s.len()})
    }
}

pub struct ExploreOpts {
    pub cases: u32,
    /// number of worker threads (each its own proptest runner and seed). 1 = serial.
    pub workers: u32,
    pub max_shrink_iters: u32,
}

impl ExploreOpts {
    pub fn new(cases: u32) -> Self {
        Self {
            cases,
            workers: 8,
            max_shrink_iters: 2000,
        }
    }
    pub fn serial(mut self) -> Self {
        self.workers = 1;
        self
    }
    pub fn workers(mut self, n: u32) -> Self {
        self.workers = n.max(1);
        self
    }
    pub fn shrink(mut self, n: u32) -> Self {
        self.max_shrink_iters = n;
        self
    }
}

impl Ctx {
    pub fn new(
        property: &'static str,
        level: &'static str,
        tier: Tier,
        seed: u64,
        replay: Option<PathBuf>,
        strict: bool,
    ) -> Self {
        let known: Vec<KnownFinding> =
            match std::fs::read(verif_root().join("known_findings.json")) {
                Ok(b) => {
                    let v: Value = serde_json::from_slice(&b).expect("known_findings.json parses");
                    serde_json::from_value(v["findings"].clone()).expect("findings list")
                }
                Err(_) => vec![],
            };
        let mut replay_raw = None;
        let replay = replay.map(|p| {
            let b = std::fs::read(&p).unwrap_or_else(|e| {
                eprintln!("cannot read replay file {}: {e}", p.display());
                std::process::exit(2)
            });
            match serde_json::from_slice::<Value>(&b) {
                Ok(v) if v.get("part").is_some() && v.get("case").is_some() => (
                    v["part"].as_str().unwrap_or("").to_string(),
                    v["case"].clone(),
                ),
                _ => {
                    // a fuzzer artifact: raw bytes for the property's fuzz targets
                    replay_raw = Some(b);
                    ("<raw>".to_string(), Value::Null)
                }
            }
        });
        Self {
            property,
            tier,
            seed,
            level,
            replay,
            replay_raw,
            strict,
            known,
            stats: Mutex::new(Stats::default()),
            violations: Mutex::new(vec![]),
            rule: Mutex::new(vec![]),
            assumptions: Mutex::new(vec![]),
            extra: Mutex::new(BTreeMap::new()),
            start: Instant::now(),
            printed_known: Mutex::new(HashSet::new()),
        }
    }

    pub fn is_replay(&self) -> bool {
        self.replay.is_some()
    }

    pub fn rule(&self, s: &str) {
        self.rule.lock().unwrap().push(s.to_string());
    }
    pub fn assume(&self, s: &str) {
        self.assumptions.lock().unwrap().push(s.to_string());
    }
    pub fn extra(&self, k: &str, v: Value) {
        self.extra.lock().unwrap().insert(k.to_string(), v);
    }

    fn is_known(&self, sig: &str) -> Option<&KnownFinding> {
        if self.strict {
            return None;
        }
        self.known
            .iter()
            .find(|k| k.property == self.property && k.signature == sig && k.status == "known")
    }

    /// Is this signature listed as a known (unrepaired) finding?  Oracles use this to keep
    /// exploring behind a known deviation.
    pub fn known(&self, sig: &str) -> bool {
        self.is_known(sig).is_some()
    }

    /// Records the known finding (prints the KNOWN-FINDING line once).
    pub fn note_known(&self, sig: &str) {
        if let Some(k) = self.is_known(sig) {
            let mut p = self.printed_known.lock().unwrap();
            if p.insert(sig.to_string()) {
                println!(
                    "KNOWN-FINDING: property={} {} [{}]",
                    self.property, k.what, k.signature
                );
            }
            *self
                .stats
                .lock()
                .unwrap()
                .known_hits
                .entry(sig.to_string())
                .or_default() += 1;
        }
    }

    /// Evaluates one case with panic capture and bookkeeping.  Returns Err(signature, detail)
    /// for a violation that is not a known finding.
    fn eval<C: Serialize>(
        &self,
        part: &str,
        case: &C,
        f: &dyn Fn(&C) -> Outcome,
        count: bool,
    ) -> Result<(), (String, String)> {
        let out = match catch_unwind(AssertUnwindSafe(|| f(case))) {
            Ok(o) => o,
            Err(p) => {
                let msg = if let Some(s) = p.downcast_ref::<&str>() {
                    s.to_string()
                } else if let Some(s) = p.downcast_ref::<String>() {
                    s.clone()
                } else {
                    "non-string panic".to_string()
                };
                let loc = LAST_PANIC_LOC.with(|l| l.borrow().clone());
                Outcome::Violation {
                    signature: format!("{}:panic", self.property),
                    detail: format!("panic: {msg} at {loc}"),
                }
            }
        };
        match out {
            Outcome::Pass {
                nontrivial,
                classes,
            } => {
                if count {
                    let bytes = serde_json::to_vec(case).unwrap_or_default();
                    let mut st = self.stats.lock().unwrap();
                    st.evaluations += 1;
                    for c in classes {
                        *st.classes.entry(c).or_default() += 1;
                    }
                    if st.samples.len() < 3 {
                        let v: Value = serde_json::from_slice(&bytes).unwrap_or(Value::Null);
                        st.samples
                            .push(json!({"part": part, "case": truncate_json(&v, 1500)}));
                    }
                    if nontrivial {
                        st.nontrivial_total += 1;
                        let mut key = part.as_bytes().to_vec();
                        key.extend_from_slice(&bytes);
                        if st.distinct.insert(fingerprint(&key)) && st.nontrivial_samples.len() < 4
                        {
                            let v: Value = serde_json::from_slice(&bytes).unwrap_or(Value::Null);
                            st.nontrivial_samples.push(
                                json!({"part": part, "nontrivial": true, "case": truncate_json(&v, 1500)}),
                            );
                        }
                    }
                }
                Ok(())
            }
            Outcome::Excluded(why) => {
                if count {
                    let mut st = self.stats.lock().unwrap();
                    *st.excluded.entry(why).or_default() += 1;
                }
                Ok(())
            }
            Outcome::Violation { signature, detail } => {
                if self.is_known(&signature).is_some() {
                    self.note_known(&signature);
                    if count {
                        // a case that reproduces a recorded finding is an explored, non-trivial case
                        let bytes = serde_json::to_vec(case).unwrap_or_default();
                        let mut key = part.as_bytes().to_vec();
                        key.extend_from_slice(&bytes);
                        let mut st = self.stats.lock().unwrap();
                        st.evaluations += 1;
                        st.nontrivial_total += 1;
                        *st.classes.entry("reproduces-known-finding").or_default() += 1;
                        st.distinct.insert(fingerprint(&key));
                    }
                    Ok(())
                } else {
                    Err((signature, detail))
                }
            }
        }
    }

    fn record_violation<C: Serialize>(&self, part: &str, sig: String, detail: String, case: &C) {
        let case = serde_json::to_value(case).unwrap_or(Value::Null);
        self.violations.lock().unwrap().push(Violation {
            part: part.to_string(),
            signature: sig,
            detail,
            case,
        });
    }

    fn has_violation(&self) -> bool {
        !self.violations.lock().unwrap().is_empty()
    }

    /// In replay mode: run the replayed case if it belongs to `part`.  Returns true if
    /// the caller should skip generation (always true in replay mode).
    fn replay_part<C: Serialize + DeserializeOwned>(
        &self,
        part: &str,
        f: &dyn Fn(&C) -> Outcome,
    ) -> bool {
        let Some((rpart, rcase)) = &self.replay else {
            return false;
        };
        if rpart == part {
            match serde_json::from_value::<C>(rcase.clone()) {
                Ok(case) => {
                    if let Err((sig, detail)) = self.eval(part, &case, f, true) {
                        self.record_violation(part, sig, detail, &case);
                    }
                }
                Err(e) => {
                    eprintln!("replay case does not deserialise for part {part}: {e}");
                    std::process::exit(2);
                }
            }
        }
        true
    }

    /// Replays committed regression cases for this part (quick and thorough tiers).
    fn run_regressions<C: Serialize + DeserializeOwned>(
        &self,
        part: &str,
        f: &dyn Fn(&C) -> Outcome,
    ) {
        let dir = verif_root()
            .join("regressions")
            .join(self.property);
        let Ok(rd) = std::fs::read_dir(&dir) else {
            return;
        };
        let mut files: Vec<_> = rd.filter_map(|e| e.ok()).map(|e| e.path()).collect();
        files.sort();
        let mut n = 0u64;
        for p in files {
            if p.extension().and_then(|e| e.to_str()) != Some("json") {
                continue;
            }
            let Ok(b) = std::fs::read(&p) else { continue };
            let Ok(v) = serde_json::from_slice::<Value>(&b) else {
                continue;
            };
            if v["part"].as_str() != Some(part) {
                continue;
            }
            let Ok(case) = serde_json::from_value::<C>(v["case"].clone()) else {
                eprintln!("regression {} no longer deserialises; skipped", p.display());
                continue;
            };
            n += 1;
            if let Err((sig, detail)) = self.eval(part, &case, f, true) {
                self.record_violation(
                    part,
                    sig,
                    format!("{detail} [regression {}]", p.display()),
                    &case,
                );
                return;
            }
        }
        if n > 0 {
            self.stats
                .lock()
                .unwrap()
                .parts
                .push(json!({"part": format!("{part}/regressions"), "cases": n}));
        }
    }

    /// Random exploration of `strategy` with oracle `f`.
    pub fn explore<S, M, F>(&self, part: &str, opts: ExploreOpts, make_strategy: M, f: F)
    where
        S: Strategy,
        M: Fn() -> S + Send + Sync,
        S::Value: Serialize + DeserializeOwned + Clone + Send,
        F: Fn(&S::Value) -> Outcome + Send + Sync,
    {
        if self.replay_part::<S::Value>(part, &f) {
            return;
        }
        if self.has_violation() {
            return;
        }
        self.run_regressions::<S::Value>(part, &f);
        if self.has_violation() {
            return;
        }
        let t0 = Instant::now();
        let before = self.stats.lock().unwrap().evaluations;
        let workers = opts.workers.max(1);
        let per = opts.cases.div_ceil(workers);
        let stop = AtomicBool::new(false);
        let results: Mutex<Vec<(u32, String, String, S::Value)>> = Mutex::new(vec![]);
        let part_hash = fingerprint(part.as_bytes());
        std::thread::scope(|scope| {
            for w in 0..workers {
                let make_strategy = &make_strategy;
                let f = &f;
                let stop = &stop;
                let results = &results;
                let this = &*self;
                let seed = self
                    .seed
                    .wrapping_mul(0x9E37_79B9_7F4A_7C15)
                    .wrapping_add(part_hash)
                    .wrapping_add(w as u64 * 0x1000_0001);
                std::thread::Builder::new()
                    .name(format!("explore-{w}"))
                    .stack_size(16 << 20)
                    .spawn_scoped(scope, move || {
                        let mut seed_bytes = [0u8; 32];
                        for (i, chunk) in seed_bytes.chunks_mut(8).enumerate() {
                            chunk.copy_from_slice(
                                &seed
                                    .wrapping_add(i as u64)
                                    .wrapping_mul(0xD6E8_FEB8_6659_FD93)
                                    .to_le_bytes(),
                            );
                        }
                        let config = Config {
                            cases: per,
                            failure_persistence: None,
                            max_shrink_iters: opts.max_shrink_iters,
                            rng_algorithm: RngAlgorithm::ChaCha,
                            rng_seed: RngSeed::Fixed(seed),
                            max_global_rejects: 1 << 30,
                            max_local_rejects: 1 << 30,
                            ..Config::default()
                        };
                        let _ = seed_bytes;
                        let strategy = make_strategy();
                        let mut runner = TestRunner::new(config);
                        let failed = AtomicBool::new(false);
                        let last_err: Mutex<Option<(String, String)>> = Mutex::new(None);
                        let res = runner.run(&strategy, |case| {
                            if stop.load(Ordering::Relaxed) && !failed.load(Ordering::Relaxed) {
                                // another worker failed: finish quickly
                                return Ok(());
                            }
                            let counting = !failed.load(Ordering::Relaxed);
                            match this.eval(part, &case, f, counting) {
                                Ok(()) => Ok(()),
                                Err((sig, detail)) => {
                                    failed.store(true, Ordering::Relaxed);
                                    stop.store(true, Ordering::Relaxed);
                                    let msg = format!("{sig}: {detail}");
                                    *last_err.lock().unwrap() = Some((sig, detail));
                                    Err(TestCaseError::fail(msg))
                                }
                            }
                        });
                        match res {
                            Ok(()) => {}
                            Err(TestError::Fail(_reason, value)) => {
                                // re-evaluate the shrunk value to get its own signature/detail
                                let (sig, detail) = match this.eval(part, &value, f, false) {
                                    Err(e) => e,
                                    Ok(()) => last_err.lock().unwrap().clone().unwrap_or((
                                        format!("{}:unknown", this.property),
                                        "shrunk case passed on re-evaluation (flaky oracle?)"
                                            .into(),
                                    )),
                                };
                                results.lock().unwrap().push((w, sig, detail, value));
                            }
                            Err(TestError::Abort(reason)) => {
                                eprintln!("proptest aborted in part {part}: {reason}");
                                std::process::exit(2);
                            }
                        }
                    })
                    .expect("spawn worker");
            }
        });
        let mut results = results.into_inner().unwrap();
        results.sort_by_key(|r| r.0);
        if let Some((_, sig, detail, value)) = results.into_iter().next() {
            self.record_violation(part, sig, detail, &value);
        }
        let after = self.stats.lock().unwrap().evaluations;
        self.stats.lock().unwrap().parts.push(json!({
            "part": part, "mode": "random", "cases": after - before,
            "workers": workers, "wall_s": t0.elapsed().as_secs_f64()
        }));
    }

    /// Exhaustive enumeration of a finite case list.
    pub fn enumerate<C, I, F>(&self, part: &str, cases: I, f: F)
    where
        C: Serialize + DeserializeOwned + Clone + Send,
        I: IntoIterator<Item = C>,
        F: Fn(&C) -> Outcome + Send + Sync,
    {
        if self.replay_part::<C>(part, &f) {
            return;
        }
        if self.has_violation() {
            return;
        }
        self.run_regressions::<C>(part, &f);
        if self.has_violation() {
            return;
        }
        let t0 = Instant::now();
        let mut n = 0u64;
        for case in cases {
            n += 1;
            if let Err((sig, detail)) = self.eval(part, &case, &f, true) {
                self.record_violation(part, sig, detail, &case);
                break;
            }
        }
        let mut st = self.stats.lock().unwrap();
        st.parts.push(json!({
            "part": part, "mode": "enumeration", "cases": n, "wall_s": t0.elapsed().as_secs_f64()
        }));
        st.exhaustive_parts.push(part.to_string());
    }

    /// Exhaustive enumeration in parallel over worker threads (order of evaluation is not
    /// deterministic; the reported violation is the one with the smallest index).
    pub fn enumerate_par<C, F>(&self, part: &str, cases: Vec<C>, workers: usize, f: F)
    where
        C: Serialize + DeserializeOwned + Clone + Send + Sync,
        F: Fn(&C) -> Outcome + Send + Sync,
    {
        if self.replay_part::<C>(part, &f) {
            return;
        }
        if self.has_violation() {
            return;
        }
        self.run_regressions::<C>(part, &f);
        if self.has_violation() {
            return;
        }
        let t0 = Instant::now();
        let next = AtomicU64::new(0);
        let first_fail: Mutex<Option<(u64, String, String)>> = Mutex::new(None);
        let stop = AtomicBool::new(false);
        std::thread::scope(|scope| {
            for _ in 0..workers.max(1) {
                scope.spawn(|| {
                    loop {
                        if stop.load(Ordering::Relaxed) {
                            break;
                        }
                        let i = next.fetch_add(1, Ordering::Relaxed);
                        if i as usize >= cases.len() {
                            break;
                        }
                        if let Err((sig, detail)) = self.eval(part, &cases[i as usize], &f, true) {
                            let mut ff = first_fail.lock().unwrap();
                            if ff.as_ref().map(|x| x.0 > i).unwrap_or(true) {
                                *ff = Some((i, sig, detail));
                            }
                            stop.store(true, Ordering::Relaxed);
                        }
                    }
                });
            }
        });
        if let Some((i, sig, detail)) = first_fail.into_inner().unwrap() {
            self.record_violation(part, sig, detail, &cases[i as usize]);
        }
        let mut st = self.stats.lock().unwrap();
        st.parts.push(json!({
            "part": part, "mode": "enumeration", "cases": cases.len(), "wall_s": t0.elapsed().as_secs_f64()
        }));
        st.exhaustive_parts.push(part.to_string());
    }

    /// Coverage-guided campaign (libFuzzer via cargo-fuzz) on fuzz target `target`, whose
    /// in-target oracle is `entry` (also used to replay raw artifacts in-process).  Runs only in
    /// the thorough tier; in replay mode with a raw artifact the artifact is evaluated.
    pub fn fuzz_campaign(
        &self,
        target: &str,
        runs: u64,
        max_len: usize,
        seeds: Vec<Vec<u8>>,
        entry: &dyn Fn(&[u8]) -> Outcome,
    ) {
        let part = format!("fuzz:{target}");
        if self.replay.is_some() {
            if let Some(raw) = &self.replay_raw {
                let case = raw.clone();
                if let Err((sig, detail)) = self.eval(&part, &case, &|c: &Vec<u8>| entry(c), true) {
                    self.record_violation(&part, sig, detail, &case);
                }
            }
            return;
        }
        if self.tier != Tier::Thorough || self.has_violation() {
            return;
        }
        let t0 = Instant::now();
        let root = verif_root();
        let corpus = root.join("scratch").join(format!("corpus-{target}-{}", std::process::id()));
        let _ = std::fs::remove_dir_all(&corpus);
        let _ = std::fs::create_dir_all(&corpus);
        let _ = std::fs::write(corpus.join("empty"), b"");
        for (i, s) in seeds.iter().enumerate() {
            let _ = std::fs::write(corpus.join(format!("seed{i}")), s);
        }
        let art = root.join("replays");
        let _ = std::fs::create_dir_all(&art);
        let art_prefix = format!("{}/{}-fuzz-{target}-", art.display(), self.property);
        let out = std::process::Command::new("cargo")
            .current_dir(root.join("fuzzing"))
            .env("CARGO_NET_OFFLINE", "true")
            .args(["+nightly", "fuzz", "run", "-s", "none", target])
            .arg(&corpus)
            .arg("--")
            .arg(format!("-runs={runs}"))
            .arg(format!("-seed={}", (self.seed % 0xffff_fffe) + 1))
            .arg("-len_control=0")
            .arg(format!("-max_len={max_len}"))
            .arg(format!("-artifact_prefix={art_prefix}"))
            .arg("-print_final_stats=1")
            .output();
        let _ = std::fs::remove_dir_all(&corpus);
        let out = match out {
            Ok(o) => o,
            Err(e) => {
                eprintln!("cannot run cargo fuzz: {e}");
                std::process::exit(2);
            }
        };
        let text = String::from_utf8_lossy(&out.stderr).to_string();
        let grab = |key: &str| -> Option<u64> {
            text.lines().rev().find_map(|l| {
                let l = l.trim();
                l.strip_prefix(key).and_then(|r| r.trim().parse().ok())
            })
        };
        let execs = grab("stat::number_of_executed_units:").unwrap_or(0);
        let cov = text.lines().rev().find_map(|l| {
            l.split_whitespace().collect::<Vec<_>>().windows(2).find(|w| w[0] == "cov:").and_then(|w| w[1].parse::<u64>().ok())
        });
        {
            let mut st = self.stats.lock().unwrap();
            st.evaluations += execs;
            st.parts.push(json!({"part": part, "mode": "libfuzzer", "executions": execs, "coverage_edges": cov,
                "corpus_seeds": seeds.len() + 1, "wall_s": t0.elapsed().as_secs_f64(), "exit": out.status.code()}));
        }
        if !out.status.success() {
            let artifact = text.lines().find_map(|l| l.split("Test unit written to ").nth(1)).map(|s| s.trim().to_string());
            match artifact {
                Some(path) => {
                    let bytes = std::fs::read(&path).unwrap_or_default();
                    // evaluate in-process to get the oracle's signature and detail
                    let (sig, detail) = match self.eval(&part, &bytes, &|c: &Vec<u8>| entry(c), false) {
                        Err(e) => e,
                        Ok(()) => (format!("{}:fuzz-crash", self.property), "libFuzzer reported a crash that does not reproduce in-process (sanitizer or abort?)".into()),
                    };
                    self.violations.lock().unwrap().push(Violation { part, signature: sig, detail: format!("{detail} [artifact {path}]"), case: json!({"artifact": path}) });
                }
                None => {
                    eprintln!("cargo fuzz failed without an artifact (build problem?):\n{}", text.lines().rev().take(30).collect::<Vec<_>>().into_iter().rev().collect::<Vec<_>>().join("\n"));
                    std::process::exit(2);
                }
            }
        }
    }

    /// Writes evidence, prints the verdict lines and returns the process exit code.
    pub fn finish(self) -> i32 {
        let st = self.stats.into_inner().unwrap();
        let violations = self.violations.into_inner().unwrap();
        let wall = self.start.elapsed().as_secs_f64();
        let mut samples = st.samples.clone();
        samples.extend(st.nontrivial_samples.iter().cloned());
        if samples.is_empty() {
            samples.push(json!("no case evaluated"));
        }
        let mut coverage = serde_json::Map::new();
        coverage.insert("evaluations".into(), json!(st.evaluations));
        coverage.insert("distinct_nontrivial".into(), json!(st.distinct.len()));
        coverage.insert("nontrivial_total".into(), json!(st.nontrivial_total));
        coverage.insert(
            "rule".into(),
            json!(self.rule.into_inner().unwrap().join(" | ")),
        );
        coverage.insert("samples".into(), json!(samples));
        coverage.insert("classes".into(), json!(st.classes));
        coverage.insert("excluded".into(), json!(st.excluded));
        coverage.insert("parts".into(), json!(st.parts));
        coverage.insert("known_finding_hits".into(), json!(st.known_hits));
        if !st.exhaustive_parts.is_empty() {
            coverage.insert("exhaustive_parts".into(), json!(st.exhaustive_parts));
        }
        for (k, v) in self.extra.into_inner().unwrap() {
            coverage.insert(k, v);
        }
        let evidence = json!({
            "property_id": self.property,
            "tier": self.tier.name(),
            "seed": self.seed,
            "level": self.level,
            "coverage": Value::Object(coverage),
            "assumptions": self.assumptions.into_inner().unwrap(),
            "wall_s": wall,
            "violations": violations.len(),
        });
        if self.replay.is_none() {
            let dir = verif_root().join("evidence");
            let _ = std::fs::create_dir_all(&dir);
            let path = dir.join(format!("{}.json", self.property));
            if let Err(e) = std::fs::write(&path, serde_json::to_vec_pretty(&evidence).unwrap()) {
                eprintln!("cannot write evidence {}: {e}", path.display());
                return 2;
            }
        }
        println!(
            "property={} tier={} seed={} evaluations={} distinct_nontrivial={} known_hits={} wall_s={:.1}",
            self.property,
            self.tier.name(),
            self.seed,
            st.evaluations,
            st.distinct.len(),
            st.known_hits.values().sum::<u64>(),
            wall
        );
        if violations.is_empty() {
            if self.replay.is_some() {
                println!("REPLAY-PASS property={}", self.property);
            }
            return 0;
        }
        for v in &violations {
            let body = json!({
                "property": self.property, "part": v.part, "signature": v.signature,
                "detail": v.detail, "case": v.case, "seed": self.seed, "tier": self.tier.name(),
            });
            let bytes = serde_json::to_vec_pretty(&body).unwrap();
            let path = if self.replay.is_some() {
                PathBuf::from("(replayed)")
            } else {
                let dir = verif_root().join("replays");
                let _ = std::fs::create_dir_all(&dir);
                let p = dir.join(format!(
                    "{}-{:016x}.json",
                    self.property,
                    fingerprint(&bytes)
                ));
                let _ = std::fs::write(&p, &bytes);
                p
            };
            let mut d = v.detail.clone();
            if d.len() > 1200 {
                let mut cut = 1200;
                while !d.is_char_boundary(cut) {
                    cut -= 1;
                }
                d.truncate(cut);
                d.push_str("…");
            }
            println!("violation part={} signature={} detail={}", v.part, v.signature, d);
            println!(
                "VIOLATION property={} replay={}",
                self.property,
                path.display()
            );
        }
        1
    }
}

thread_local! {
    static LAST_PANIC_LOC: std::cell::RefCell<String> = const { std::cell::RefCell::new(String::new()) };
}

/// Silences panic output (the engine reports panics as violations) but remembers the location.
pub fn install_quiet_panic_hook() {
    let verbose = std::env::var("VERIF_VERBOSE_PANICS").is_ok();
    let default = std::panic::take_hook();
    std::panic::set_hook(Box::new(move |info| {
        let loc = info
            .location()
            .map(|l| format!("{}:{}", l.file(), l.line()))
            .unwrap_or_default();
        LAST_PANIC_LOC.with(|l| *l.borrow_mut() = loc);
        if verbose {
            default(info);
        }
    }));
}

/// Exits with code 2 if the check runs longer than `secs`.
pub fn watchdog(secs: u64, property: &'static str) {
    std::thread::spawn(move || {
        std::thread::sleep(std::time::Duration::from_secs(secs));
        eprintln!("WATCHDOG property={property}: exceeded {secs}s; inconclusive");
        std::process::exit(2);
    });
}

/// Runs an async block on a fresh current-thread runtime with a paused clock.
pub fn paused_rt<F: Future>(f: F) -> F::Output {
    let rt = tokio::runtime::Builder::new_current_thread()
        .enable_all()
        .start_paused(true)
        .build()
        .expect("runtime");
    let out = rt.block_on(f);
    drop(rt);
    out
}

/// Runs an async block on a fresh current-thread runtime with the real clock.
pub fn real_rt<F: Future>(f: F) -> F::Output {
    let rt = tokio::runtime::Builder::new_current_thread()
        .enable_all()
        .build()
        .expect("runtime");
    let out = rt.block_on(f);
    rt.shutdown_timeout(std::time::Duration::from_millis(200));
    out
}

pub fn arc<T>(t: T) -> Arc<T> {
    Arc::new(t)
}
