//! C15 — relay dialing tries every resolved address and returns the first success.
//!
//! The real `dial_happy_eyeballs` (through the `verif-hooks` wrapper) runs under a paused
//! tokio clock against a scripted resolver (A and AAAA answers arrive at generated virtual
//! times, fail, or never answer) and an injected TCP connector that maps every address to a
//! generated behaviour (succeed / fail after a delay, or hang) and hands out pre-connected
//! loopback streams.  Resolver and connector write one event log; the oracle checks the
//! clauses of the statement on that log and on the returned value.  It does *not* predict
//! the schedule (that would re-implement the dialer).

use std::{
    net::{IpAddr, Ipv4Addr, Ipv6Addr, SocketAddr},
    sync::{Arc, Mutex},
    time::Duration,
};

use iroh_relay::verif::dial as hook;
use proptest::prelude::*;
use serde::{Deserialize, Serialize};

use crate::{
    check,
    engine::{self, Ctx, ExploreOpts, Outcome},
    support::dns_script::{LookupScript, ScriptedResolver},
};

/// "The resolution delay" of the statement (documented constant of the dialer): head start
/// granted to the preferred family.
const RESOLUTION_DELAY_MS: u64 = 50;
/// Attempt behaviours with a delay up to this bound are *prompt*: no dialer may give up on
/// them (the documented per-attempt cap is 1500 ms); behaviours with a delay of at least
/// `SLOW_MIN_MS`, and hangs, may legitimately be abandoned by the per-attempt cap.
const PROMPT_MAX_MS: u64 = 1400;
const SLOW_MIN_MS: u64 = 1600;
/// Lookup delays stay below the documented 3 s DNS timeout, or the lookup never answers.
const LOOKUP_MAX_MS: u64 = 2500;
/// "Eventually": virtual-time bound for the whole dial (legitimate worst case is about
/// 3 s DNS + 8 sequential attempts of 1.5 s = 15 s).
const EVENTUALLY: Duration = Duration::from_secs(120);
const PORT: u16 = 4433;

#[derive(Debug, Clone, Copy, PartialEq, Eq, Serialize, Deserialize)]
enum BehKind {
    Succeed,
    Fail,
    Hang,
}

#[derive(Debug, Clone, Copy, Serialize, Deserialize)]
struct Beh {
    kind: BehKind,
    delay_ms: u64,
}

#[derive(Debug, Clone, Copy, PartialEq, Eq, Serialize, Deserialize)]
enum LookupKind {
    Answer,
    Fail,
    Hang,
}

#[derive(Debug, Clone, Serialize, Deserialize)]
struct Lookup {
    kind: LookupKind,
    delay_ms: u64,
    /// behaviours of the addresses this lookup yields (Answer only), in answer order
    addrs: Vec<Beh>,
}

#[derive(Debug, Clone, Copy, PartialEq, Eq, Serialize, Deserialize)]
enum Host {
    Domain,
    LiteralV4,
    LiteralV6,
}

#[derive(Debug, Clone, Serialize, Deserialize)]
struct Case {
    prefer_v6: bool,
    host: Host,
    v4: Lookup,
    v6: Lookup,
}

fn delay_ms(max: u64) -> impl Strategy<Value = u64> {
    const SPECIAL: [u64; 12] = [0, 0, 1, 49, 50, 51, 249, 250, 251, 500, 1000, 1400];
    prop_oneof![
        5 => any::<u16>().prop_map(move |i| SPECIAL[crate::support::gens::pick(i, SPECIAL.len())].min(max)),
        2 => 0..=max,
        1 => 0u64..=120,
    ]
}

fn beh() -> impl Strategy<Value = Beh> {
    prop_oneof![
        4 => delay_ms(PROMPT_MAX_MS).prop_map(|d| Beh { kind: BehKind::Fail, delay_ms: d }),
        3 => delay_ms(PROMPT_MAX_MS).prop_map(|d| Beh { kind: BehKind::Succeed, delay_ms: d }),
        1 => Just(Beh { kind: BehKind::Hang, delay_ms: 0 }),
        1 => (any::<bool>(), prop_oneof![Just(SLOW_MIN_MS), Just(5_000u64), Just(11_000u64)]).prop_map(|(ok, d)| Beh { kind: if ok { BehKind::Succeed } else { BehKind::Fail }, delay_ms: d }),
    ]
}

fn lookup() -> impl Strategy<Value = Lookup> {
    prop_oneof![
        12 => (delay_ms(LOOKUP_MAX_MS), proptest::collection::vec(beh(), 0..=4)).prop_map(|(d, addrs)| Lookup { kind: LookupKind::Answer, delay_ms: d, addrs }),
        2 => delay_ms(LOOKUP_MAX_MS).prop_map(|d| Lookup { kind: LookupKind::Fail, delay_ms: d, addrs: vec![] }),
        1 => Just(Lookup { kind: LookupKind::Hang, delay_ms: 0, addrs: vec![] }),
    ]
}

/// Both families answer early with several, mostly failing, addresses: many attempts while
/// both families have untried addresses (head start of the preferred family, alternation).
fn busy_lookup() -> impl Strategy<Value = Lookup> {
    const EARLY: [u64; 10] = [0, 0, 0, 1, 10, 49, 50, 51, 100, 300];
    let beh = prop_oneof![
        7 => delay_ms(600).prop_map(|d| Beh { kind: BehKind::Fail, delay_ms: d }),
        2 => delay_ms(PROMPT_MAX_MS).prop_map(|d| Beh { kind: BehKind::Succeed, delay_ms: d }),
        1 => Just(Beh { kind: BehKind::Hang, delay_ms: 0 }),
    ];
    (any::<u16>(), proptest::collection::vec(beh, 1..=4)).prop_map(|(i, addrs)| Lookup { kind: LookupKind::Answer, delay_ms: EARLY[crate::support::gens::pick(i, EARLY.len())], addrs })
}

fn strategy() -> impl Strategy<Value = Case> {
    let host = prop_oneof![18 => Just(Host::Domain), 1 => Just(Host::LiteralV4), 1 => Just(Host::LiteralV6)];
    prop_oneof![
        3 => (any::<bool>(), host, lookup(), lookup()).prop_map(|(prefer_v6, host, v4, v6)| Case { prefer_v6, host, v4, v6 }),
        2 => (any::<bool>(), busy_lookup(), busy_lookup()).prop_map(|(prefer_v6, v4, v6)| Case { prefer_v6, host: Host::Domain, v4, v6 }),
    ]
}

fn v4_addr(i: usize) -> IpAddr {
    IpAddr::V4(Ipv4Addr::new(10, 0, 0, i as u8 + 1))
}
fn v6_addr(i: usize) -> IpAddr {
    IpAddr::V6(Ipv6Addr::new(0xfd00, 0, 0, 0, 0, 0, 0, i as u16 + 1))
}

#[derive(Debug, Clone)]
enum Ev {
    /// a lookup delivered its answer (or its failure) to the dialer
    LookupDone { v6: bool },
    /// the dialer asked the connector for a connection
    Attempt { addr: SocketAddr },
    /// the connector finished (`ok` = handed out a stream, identified by its local port)
    Done { addr: SocketAddr, ok: Option<u16> },
}

type Log = Arc<Mutex<Vec<(u64, Ev)>>>;

thread_local! {
    static LISTENER: std::net::TcpListener = std::net::TcpListener::bind((Ipv4Addr::LOCALHOST, 0)).expect("bind loopback listener");
}

/// A connected loopback pair made with blocking std calls (no async I/O, no timers).
fn connected_pair() -> (std::net::TcpStream, std::net::TcpStream) {
    LISTENER.with(|l| {
        let addr = l.local_addr().expect("addr");
        let c = std::net::TcpStream::connect(addr).expect("loopback connect");
        let (s, _) = l.accept().expect("loopback accept");
        (c, s)
    })
}

struct ConnectorGuard;
impl Drop for ConnectorGuard {
    fn drop(&mut self) {
        hook::set_connector(None);
    }
}

fn run_case(c: &Case) -> Outcome {
    let c = c.clone();
    engine::paused_rt(async move {
        // ---- scenario set-up (no timers pending, so the clock does not move) ----
        let log: Log = Arc::new(Mutex::new(Vec::new()));
        let t0 = tokio::time::Instant::now();
        let now_us = move || (tokio::time::Instant::now() - t0).as_micros() as u64;

        // address -> behaviour, plus for Succeed a pre-connected stream
        let mut table: Vec<(IpAddr, Beh)> = vec![];
        let (v4s, v6s): (Vec<Ipv4Addr>, Vec<Ipv6Addr>);
        match c.host {
            Host::Domain => {
                v4s = (0..c.v4.addrs.len()).map(|i| match v4_addr(i) { IpAddr::V4(a) => a, _ => unreachable!() }).collect();
                v6s = (0..c.v6.addrs.len()).map(|i| match v6_addr(i) { IpAddr::V6(a) => a, _ => unreachable!() }).collect();
                for (i, b) in c.v4.addrs.iter().enumerate() {
                    table.push((v4_addr(i), *b));
                }
                for (i, b) in c.v6.addrs.iter().enumerate() {
                    table.push((v6_addr(i), *b));
                }
            }
            Host::LiteralV4 => {
                v4s = vec![];
                v6s = vec![];
                table.push((v4_addr(0), c.v4.addrs.first().copied().unwrap_or(Beh { kind: BehKind::Fail, delay_ms: 0 })));
            }
            Host::LiteralV6 => {
                v4s = vec![];
                v6s = vec![];
                table.push((v6_addr(0), c.v6.addrs.first().copied().unwrap_or(Beh { kind: BehKind::Fail, delay_ms: 0 })));
            }
        }
        let mut peers = vec![]; // keep the far ends open until the case ends
        let mut streams: Vec<(IpAddr, Option<tokio::net::TcpStream>, u16)> = vec![];
        for (ip, b) in &table {
            if b.kind == BehKind::Succeed {
                let (cl, sv) = connected_pair();
                cl.set_nonblocking(true).expect("nonblocking");
                let port = cl.local_addr().expect("local addr").port();
                let s = tokio::net::TcpStream::from_std(cl).expect("from_std");
                streams.push((*ip, Some(s), port));
                peers.push(sv);
            }
        }
        let streams = Arc::new(Mutex::new(streams));

        let connector: hook::Connector = {
            let log = log.clone();
            let table = table.clone();
            let streams = streams.clone();
            Arc::new(move |addr: SocketAddr| {
                let log = log.clone();
                let beh = table.iter().find(|(ip, _)| *ip == addr.ip()).map(|(_, b)| *b);
                let streams = streams.clone();
                log.lock().unwrap().push((now_us(), Ev::Attempt { addr }));
                Box::pin(async move {
                    let Some(beh) = beh else {
                        // an address the resolver never yielded; the oracle flags the attempt
                        return Err(std::io::Error::other("unknown address"));
                    };
                    match beh.kind {
                        BehKind::Hang => std::future::pending().await,
                        BehKind::Fail => {
                            tokio::time::sleep(Duration::from_millis(beh.delay_ms)).await;
                            log.lock().unwrap().push((now_us(), Ev::Done { addr, ok: None }));
                            Err(std::io::Error::new(std::io::ErrorKind::ConnectionRefused, "scripted refusal"))
                        }
                        BehKind::Succeed => {
                            tokio::time::sleep(Duration::from_millis(beh.delay_ms)).await;
                            let mut g = streams.lock().unwrap();
                            let entry = g.iter_mut().find(|(ip, s, _)| *ip == addr.ip() && s.is_some());
                            match entry {
                                Some((_, s, port)) => {
                                    log.lock().unwrap().push((now_us(), Ev::Done { addr, ok: Some(*port) }));
                                    Ok(s.take().expect("stream"))
                                }
                                // second attempt on the same address: no stream left
                                None => Err(std::io::Error::other("address dialed twice")),
                            }
                        }
                    }
                }) as std::pin::Pin<Box<dyn Future<Output = std::io::Result<tokio::net::TcpStream>> + Send>>
            })
        };

        let script4 = match c.v4.kind {
            LookupKind::Answer => LookupScript::Answer { delay: Duration::from_millis(c.v4.delay_ms), addrs: v4s.clone() },
            LookupKind::Fail => LookupScript::Fail { delay: Duration::from_millis(c.v4.delay_ms) },
            LookupKind::Hang => LookupScript::Hang,
        };
        let script6 = match c.v6.kind {
            LookupKind::Answer => LookupScript::Answer { delay: Duration::from_millis(c.v6.delay_ms), addrs: v6s.clone() },
            LookupKind::Fail => LookupScript::Fail { delay: Duration::from_millis(c.v6.delay_ms) },
            LookupKind::Hang => LookupScript::Hang,
        };
        let resolver = ScriptedResolver {
            v4: script4,
            v6: script6,
            on_finish: Some({
                let log = log.clone();
                Arc::new(move |v6| log.lock().unwrap().push((now_us(), Ev::LookupDone { v6 })))
            }),
        }
        .into_dns_resolver();

        let url: url::Url = match c.host {
            Host::Domain => format!("https://relay.test:{PORT}"),
            Host::LiteralV4 => format!("https://{}:{PORT}", v4_addr(0)),
            Host::LiteralV6 => format!("https://[{}]:{PORT}", v6_addr(0)),
        }
        .parse()
        .expect("url");

        // ---- run the real dialer ----
        hook::set_connector(Some(connector));
        let _guard = ConnectorGuard;
        let result = tokio::time::timeout(EVENTUALLY, hook::dial_happy_eyeballs(&resolver, &url, c.prefer_v6)).await;
        let t_ret = now_us();
        drop(_guard);
        let log: Vec<(u64, Ev)> = log.lock().unwrap().clone();
        drop(peers);

        // ---- oracle ----
        let Ok(result) = result else {
            return Outcome::violation("C15:no-termination", format!("dial did not return within {EVENTUALLY:?} of virtual time; log {log:?}"));
        };
        let is_v6 = |a: &SocketAddr| a.ip().is_ipv6();
        let ms = |us: u64| us as f64 / 1000.0;

        // when did each family's addresses become available (Domain), or at 0 (literal)
        let mut available: Vec<(IpAddr, u64)> = vec![]; // (address, time it was yielded by resolution)
        let mut lookup_done: [Option<u64>; 2] = [None, None];
        match c.host {
            Host::Domain => {
                for (t, e) in &log {
                    if let Ev::LookupDone { v6 } = e {
                        lookup_done[*v6 as usize] = Some(*t);
                        let lk = if *v6 { &c.v6 } else { &c.v4 };
                        if lk.kind == LookupKind::Answer {
                            for i in 0..lk.addrs.len() {
                                available.push((if *v6 { v6_addr(i) } else { v4_addr(i) }, *t));
                            }
                        }
                    }
                }
            }
            Host::LiteralV4 => available.push((v4_addr(0), 0)),
            Host::LiteralV6 => available.push((v6_addr(0), 0)),
        }
        let attempts: Vec<(u64, SocketAddr)> = log.iter().filter_map(|(t, e)| if let Ev::Attempt { addr } = e { Some((*t, *addr)) } else { None }).collect();
        let dones: Vec<(u64, SocketAddr, Option<u16>)> = log.iter().filter_map(|(t, e)| if let Ev::Done { addr, ok } = e { Some((*t, *addr, *ok)) } else { None }).collect();

        // (A) sanity: attempts go to yielded addresses, on the URL's port, after they were yielded
        for (t, a) in &attempts {
            let av = available.iter().find(|(ip, _)| *ip == a.ip());
            check!(av.is_some_and(|(_, ty)| ty <= t), "C15:attempt-unresolved-address", "attempt on {a} at {} ms, but resolution had not yielded it; log {log:?}", ms(*t));
            check!(a.port() == PORT, "C15:attempt-wrong-port", "attempt on {a}, expected port {PORT}");
        }

        let successes: Vec<&(u64, SocketAddr, Option<u16>)> = dones.iter().filter(|d| d.2.is_some()).collect();
        let mut classes: Vec<&'static str> = vec![];

        match &result {
            Ok(stream) => {
                // (B) the returned stream is that of the first successful attempt
                check!(!successes.is_empty(), "C15:stream-from-nowhere", "Ok returned but no attempt succeeded; log {log:?}");
                let first_t = successes[0].0;
                let port = stream.local_addr().map(|a| a.port()).unwrap_or(0);
                let firsts: Vec<u16> = successes.iter().filter(|s| s.0 == first_t).filter_map(|s| s.2).collect();
                check!(firsts.contains(&port), "C15:not-first-success", "returned stream (local port {port}) is not the first success (ports {firsts:?} at {} ms); successes {successes:?}", ms(first_t));
                classes.push("ok");
            }
            Err(err) => {
                // (C0) a success that was reached must be returned
                check!(successes.is_empty(), "C15:success-dropped", "dial failed with {err:#} although {} succeeded at {} ms", successes[0].1, ms(successes[0].0));
                // (C1) resolution has finished: every lookup that answers within the DNS timeout was awaited
                if c.host == Host::Domain {
                    for (fam, lk) in [(0usize, &c.v4), (1, &c.v6)] {
                        if lk.kind != LookupKind::Hang {
                            check!(lookup_done[fam].is_some(), "C15:failed-before-resolution-finished", "dial failed at {} ms but the {} lookup (answers at {} ms) had not finished; log {log:?}", ms(t_ret), if fam == 1 { "AAAA" } else { "A" }, lk.delay_ms);
                        }
                    }
                }
                // (C2) every yielded address was attempted
                for (ip, ty) in &available {
                    check!(attempts.iter().any(|(_, a)| a.ip() == *ip), "C15:address-never-attempted", "dial failed at {} ms but {ip} (yielded at {} ms) was never attempted; attempts {attempts:?}", ms(t_ret), ms(*ty));
                }
                // (C3) every attempt has failed: prompt behaviours must have run to completion
                for (t, a) in &attempts {
                    let beh = table.iter().find(|(ip, _)| *ip == a.ip()).map(|(_, b)| *b);
                    if let Some(b) = beh {
                        if b.kind != BehKind::Hang && b.delay_ms <= PROMPT_MAX_MS {
                            check!(dones.iter().any(|d| d.1 == *a), "C15:failed-with-attempt-in-flight", "dial failed at {} ms while the attempt on {a} (started {} ms, completes after {} ms) was still in flight", ms(t_ret), ms(*t), b.delay_ms);
                        }
                    }
                }
                classes.push("err");
            }
        }

        // (E) first attempt: preferred family if one of its addresses was yielded no later
        // than RESOLUTION_DELAY after the first address of the other family (boundary excluded)
        let first_of = |v6: bool| available.iter().filter(|(ip, _)| ip.is_ipv6() == v6).map(|(_, t)| *t).min();
        let tp = first_of(c.prefer_v6);
        let tn = first_of(!c.prefer_v6);
        let mut waited_for_preferred = false;
        if let (Some((t_first, a_first)), Some(tp)) = (attempts.first(), tp) {
            let within = match tn {
                None => true,
                Some(tn) => tp <= tn || tp + 1000 <= tn + RESOLUTION_DELAY_MS * 1000,
            };
            if within {
                check!(is_v6(a_first) == c.prefer_v6, "C15:first-attempt-not-preferred", "prefer_v6={}: preferred family yielded at {} ms, other at {:?} ms, but the first attempt (at {} ms) went to {a_first}", c.prefer_v6, ms(tp), tn.map(ms), ms(*t_first));
                if tn.is_some_and(|tn| tn < tp) {
                    waited_for_preferred = true;
                    classes.push("first-attempt-waited-for-preferred");
                }
            } else if is_v6(a_first) != c.prefer_v6 {
                classes.push("first-attempt-other-family-after-delay");
            }
        }

        // (F) weak alternation: if both families had untried yielded addresses strictly before
        // attempt k and strictly before attempt k+1, those two attempts differ in family.
        let untried_both = |k: usize| -> bool {
            let t = attempts[k].0;
            let has = |v6: bool| available.iter().any(|(ip, ty)| ip.is_ipv6() == v6 && *ty < t && !attempts[..k].iter().any(|(_, a)| a.ip() == *ip));
            has(true) && has(false)
        };
        let mut alternations = 0;
        for k in 0..attempts.len().saturating_sub(1) {
            if untried_both(k) && untried_both(k + 1) {
                check!(is_v6(&attempts[k].1) != is_v6(&attempts[k + 1].1), "C15:no-alternation", "attempts {k} ({}) and {} ({}) are of the same family although both families had untried addresses before each; attempts {attempts:?}; yielded {available:?}", attempts[k].1, k + 1, attempts[k + 1].1);
                alternations += 1;
            }
        }
        if alternations > 0 {
            classes.push("alternation-checked");
        }

        // ---- classification ----
        let first_attempt_failed = attempts.first().is_some_and(|(_, a)| dones.iter().any(|d| d.1 == *a && d.2.is_none()));
        let late_family = attempts.first().is_some_and(|(t, _)| {
            [tp, tn].iter().flatten().any(|ty| ty > t)
        });
        if late_family {
            classes.push("family-yielded-after-first-attempt");
        }
        if first_attempt_failed {
            classes.push("first-attempt-failed");
        }
        if tp.is_some() && tn.is_some() {
            classes.push("both-families");
        }
        if attempts.len() >= 3 {
            classes.push("3+attempts");
        }
        if table.iter().any(|(ip, b)| b.kind == BehKind::Hang && attempts.iter().any(|(_, a)| a.ip() == *ip)) {
            classes.push("hanging-attempt");
        }
        if c.host == Host::Domain && (c.v4.kind == LookupKind::Hang || c.v6.kind == LookupKind::Hang) {
            classes.push("lookup-never-answers");
        }
        if c.host != Host::Domain {
            classes.push("literal-host");
        }
        if attempts.is_empty() {
            classes.push("nothing-to-dial");
        }
        let _ = waited_for_preferred;
        Outcome::pass_with(late_family && first_attempt_failed, classes)
    })
}

pub fn run(ctx: &Ctx) {
    ctx.rule("scenario = family preference, URL host (domain / literal), per family a lookup script {answer with 0..4 addresses after d, fail after d, never answer} with d from {0,1,49,50,51,249,250,251,500,1000,1400} or uniform 0..2500 ms, per address a connect behaviour {succeed / fail after d <= 1400 ms, hang, slow (>= 1600 ms)}; the real dial_happy_eyeballs runs under a paused clock with a scripted resolver and an injected connector that hands out pre-connected loopback streams; clauses checked on the event log: returned stream = first success; failure only after both lookups finished, every yielded address attempted and every prompt attempt run to completion; first attempt of the preferred family when it is yielded within the 50 ms resolution delay; weak alternation; termination within 120 s virtual; non-trivial = a family yielded after the first attempt started and that first attempt failed");
    ctx.assume("lookups answer within 2.5 s (below the documented 3 s DNS timeout) or never; connect behaviours up to 1400 ms must be awaited, behaviours of 1600 ms or more and hangs may be abandoned by the documented 1.5 s per-attempt cap; instants exactly on the 50 ms boundary are not judged; alternation is checked in the weak form (both families have untried addresses strictly before both of two consecutive attempts); pacing between attempts (250 ms, fail-fast) is not part of the statement and is not checked");
    let k = ctx.tier.pick(1, 10);
    ctx.explore("scenarios", ExploreOpts::new(200_000 * k).shrink(4000), strategy, run_case);
}
