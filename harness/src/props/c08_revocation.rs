//! C08 — a revoked relay connection does not stay connected.
//!
//! Real relay server over loopback TCP; the revoked connection can be held at the cfg-guarded
//! pause point between admission and registration, so the interleaving is a generated value.

use std::time::Duration;

use serde::{Deserialize, Serialize};

use super::c07_access_disconnect::{Ev, Recorder};
use crate::{
    engine::{Ctx, Outcome},
    support::{
        gens::Payload,
        hooks,
        memrelay::{self, Dgram, FromRelay},
        tcprelay::{AbortAt, RawClient, RawOutcome, TcpRelay, net_rt, raw_connect, raw_connect_opts},
    },
};

#[derive(Debug, Clone, Copy, Serialize, Deserialize, PartialEq, Eq)]
enum Position {
    /// request issued right after the policy admitted the connection (it knows the connection
    /// id from `on_connect`), before the confirmation frame is written
    DuringAdmission,
    /// request issued while the connection is admitted but not yet registered
    Window,
    AfterRegistration,
    AfterTraffic,
}

#[derive(Debug, Clone, Serialize, Deserialize)]
struct Case {
    position: Position,
    by_conn: bool,
    /// an older connection of the same endpoint exists
    older: bool,
    /// (only with `by_conn` and `older`, after registration) the revoked connection is the
    /// older, displaced one instead of the newest
    #[serde(default)]
    revoke_older: bool,
    rep: u8,
}

const TARGET: u8 = 0;
const BYSTANDER: u8 = 1;
const SENDER: u8 = 2;

/// Real-time bounds (detectors): a revoked connection's stream ends within milliseconds on an
/// idle machine; we wait this long before probing whether it is still served.
const END_WAIT: Duration = Duration::from_secs(3);
const PROBE_WAIT: Duration = Duration::from_secs(3);

fn probe(tag: u8) -> Dgram {
    Dgram { ecn: 0, seg: None, contents: Payload { len: 11, fill: tag } }
}

async fn must_connect(relay: &TcpRelay, key: u8) -> RawClient {
    match raw_connect(relay.addr, key, AbortAt::Never, false).await {
        RawOutcome::Connected(c) => c,
        _ => {
            eprintln!("C08 harness: bystander connect failed");
            std::process::exit(2)
        }
    }
}

/// Does `who` receive a datagram with the given tag from `from_key` within `wait`?
async fn receives(who: &mut RawClient, tag: u8, wait: Duration) -> Result<bool, ()> {
    let deadline = tokio::time::Instant::now() + wait;
    loop {
        let left = deadline.saturating_duration_since(tokio::time::Instant::now());
        if left.is_zero() { return Ok(false); }
        match who.recv(left).await {
            Ok(FromRelay::Datagrams { d, .. }) if d.contents[..] == probe(tag).contents.bytes()[..] => return Ok(true),
            Ok(_) => continue,
            Err(true) => return Err(()),
            Err(false) => return Ok(false),
        }
    }
}

fn run_case(c: &Case) -> Outcome {
    let c = c.clone();
    net_rt(async move {
        hooks::clear();
        hooks::install_async();
        let rec = Recorder::new();
        let mut relay = TcpRelay::spawn(rec.clone()).await;
        let clients = relay.clients();
        let mut bystander = must_connect(&relay, BYSTANDER).await;
        let mut sender = must_connect(&relay, SENDER).await;
        let mut older = if c.older { Some(must_connect(&relay, TARGET).await) } else { None };
        let target_id = memrelay::pool_key(TARGET).public();

        // connect the target (as a task), possibly holding it at one of the two pause points
        let held = matches!(c.position, Position::Window | Position::DuringAdmission);
        let armed = match c.position {
            Position::Window => Some(hooks::arm_async("relay:accept:after_admission")),
            Position::DuringAdmission => Some(hooks::arm_async("relay:handshake:after_on_connect")),
            _ => None,
        };
        let addr = relay.addr;
        let connect = tokio::spawn(async move { raw_connect_opts(addr, TARGET, AbortAt::Never, false, !held).await });
        let mut release = None;
        if let Some(a) = armed {
            match tokio::time::timeout(Duration::from_secs(30), a.reached).await {
                Ok(Ok(_detail)) => release = Some(a.release),
                _ => { eprintln!("C08 harness: pause point not reached"); std::process::exit(2) }
            }
        }
        let mut connect = Some(connect);
        let mut target_opt: Option<RawClient> = None;
        if c.position != Position::DuringAdmission {
            // the client is confirmed before (Window) or independently of the request
            match connect.take().unwrap().await {
                Ok(RawOutcome::Connected(t)) => target_opt = Some(t),
                _ => { eprintln!("C08 harness: target connect failed"); std::process::exit(2) }
            }
        }
        // the connection id the policy saw at admission
        let conn_id = rec.events.lock().unwrap().iter().rev().find_map(|e| match e { Ev::Connect { ep, conn, allow: true } if *ep == target_id => Some(*conn), _ => None });
        let Some(mut conn_id) = conn_id else { return Outcome::violation("C08:harness", "no on_connect for the target") };
        if c.revoke_older {
            // revoke the displaced sibling: its id is the first admitted one of this endpoint,
            // and from here on "target" denotes the revoked (older) connection
            let first = rec.events.lock().unwrap().iter().find_map(|e| match e { Ev::Connect { ep, conn, allow: true } if *ep == target_id => Some(*conn), _ => None });
            conn_id = first.unwrap_or(conn_id);
            let newer = std::mem::replace(target_opt.as_mut().expect("target"), older.take().expect("older sibling"));
            older = Some(newer);
        }
        if let Some(o) = older.as_mut() {
            // the older connection was displaced (or will be, in the window case): drain its notices
            let _ = o.recv(Duration::from_millis(50)).await;
        }
        if c.position == Position::AfterTraffic {
            sender.send(memrelay::encode_c2r_datagram(target_id.as_bytes(), &probe(1), None)).await;
            // traffic goes to the endpoint's newest connection (held in `older` after the swap)
            let active = if c.revoke_older { older.as_mut().expect("sibling") } else { target_opt.as_mut().expect("target") };
            match receives(active, 1, PROBE_WAIT).await {
                Ok(true) => {}
                _ => { eprintln!("C08 harness: pre-revocation traffic not delivered"); std::process::exit(2) }
            }
        }

        // the revocation request
        let found = clients.disconnect(target_id, if c.by_conn { Some(conn_id) } else { None });
        if let Some(r) = release.take() { let _ = r.send(()); }
        if let Some(task) = connect.take() {
            match task.await {
                Ok(RawOutcome::Connected(t)) => target_opt = Some(t),
                // the relay may also refuse or drop the connection instead of confirming it
                Ok(_) => {
                    drop(older); drop(bystander); drop(sender);
                    relay.shutdown().await; hooks::clear();
                    return Outcome::pass_with(true, vec!["never-confirmed"]);
                }
                Err(_) => { eprintln!("C08 harness: connect task failed"); std::process::exit(2) }
            }
        }
        let mut target = target_opt.take().expect("target client");

        // 1. the revoked connection's stream ends
        let ended = {
            let deadline = tokio::time::Instant::now() + END_WAIT;
            loop {
                let left = deadline.saturating_duration_since(tokio::time::Instant::now());
                if left.is_zero() { break false; }
                match target.recv(left).await { Err(true) => break true, Err(false) => break false, Ok(_) => continue }
            }
        };
        let sig = if held { "C08:disconnect-before-register" } else { "C08:revoked-still-served" };
        let mut verdict = None;
        if !ended {
            // 2. is it still served?  a datagram to its id must not arrive on it, and what it
            //    sends must not be forwarded.
            sender.send(memrelay::encode_c2r_datagram(target_id.as_bytes(), &probe(2), None)).await;
            let got_in = matches!(receives(&mut target, 2, PROBE_WAIT).await, Ok(true));
            target.send(memrelay::encode_c2r_datagram(memrelay::pool_key(BYSTANDER).public().as_bytes(), &probe(3), None)).await;
            let got_out = matches!(receives(&mut bystander, 3, PROBE_WAIT).await, Ok(true));
            if got_in || got_out {
                verdict = Some(Outcome::violation(sig, format!("connection {conn_id} of the target endpoint was revoked ({}; disconnect() returned {found}) with the request issued at position {:?}, yet {}s later its stream is open and it is still served (receives: {got_in}, its sends are forwarded: {got_out})", if c.by_conn { "by connection id" } else { "by endpoint id" }, c.position, END_WAIT.as_secs())));
            }
        }
        // 3. unrelated endpoints are unaffected
        if verdict.is_none() {
            sender.send(memrelay::encode_c2r_datagram(memrelay::pool_key(BYSTANDER).public().as_bytes(), &probe(4), None)).await;
            match receives(&mut bystander, 4, PROBE_WAIT).await {
                Ok(true) => {}
                Ok(false) => verdict = Some(Outcome::violation("C08:bystander-affected", "a datagram to an unrelated endpoint was not delivered after the revocation")),
                Err(()) => verdict = Some(Outcome::violation("C08:bystander-affected", "an unrelated endpoint's connection ended after the revocation")),
            }
        }
        // 4. with a per-connection revocation an older connection of the same endpoint resumes
        if verdict.is_none() && c.by_conn {
            if let Some(o) = older.as_mut() {
                sender.send(memrelay::encode_c2r_datagram(target_id.as_bytes(), &probe(5), None)).await;
                match receives(o, 5, PROBE_WAIT).await {
                    Ok(true) => {}
                    _ if !ended => {}
                    _ => verdict = Some(Outcome::violation("C08:sibling-affected", "after revoking one connection by id, the endpoint's other connection is not served")),
                }
            }
        }
        drop(target);
        drop(older);
        drop(bystander);
        drop(sender);
        relay.shutdown().await;
        hooks::clear();
        verdict.unwrap_or_else(|| Outcome::pass_with(held, vec![if ended { "stream-ended" } else { "not-ended-not-served" }]))
    })
}

pub fn run(ctx: &Ctx) {
    ctx.rule("schedule enumeration on the real relay server over loopback TCP: the disconnect request (by endpoint id / by the connection id reported at admission) is issued with the target connection {held at the pause point between admission and registration, registered, registered and having received traffic} x {no sibling, an older connection of the same endpoint} x repetitions; a bystander endpoint and a sender are connected throughout; oracle: the revoked connection's stream ends, or at least a probe to its id is not delivered on it and its own sends are not forwarded; bystander traffic still delivered; a sibling connection resumes after a by-id revocation; non-trivial = request inside the window");
    ctx.assume("real-time waits (3 s for the stream to end, 3 s per probe) are detectors: >100x the observed latency; exhaustive over the single instrumented window, other interleavings (e.g. during the handshake) are not controlled");
    let reps = ctx.tier.pick(2u8, 8);
    let mut cases = vec![];
    for rep in 0..reps {
        for position in [Position::DuringAdmission, Position::Window, Position::AfterRegistration, Position::AfterTraffic] {
            for by_conn in [false, true] {
                for older in [false, true] {
                    cases.push(Case { position, by_conn, older, revoke_older: false, rep });
                    if by_conn && older && !matches!(position, Position::Window | Position::DuringAdmission) {
                        cases.push(Case { position, by_conn, older, revoke_older: true, rep });
                    }
                }
            }
        }
    }
    ctx.enumerate("schedules", cases, run_case);
}
