//! One module per property.

use crate::engine::Ctx;

pub struct Prop {
    pub id: &'static str,
    pub level: &'static str,
    pub watchdog_quick_s: u64,
    pub watchdog_thorough_s: u64,
    pub run: fn(&Ctx),
}

pub mod c11_version_negotiation;
pub mod c13_captive_portal;
pub mod c15_dial_happy_eyeballs;
pub mod c21_remote_lifecycle;
pub mod c22_resolve;
pub mod c23_prune_paths;
pub mod c24_path_selection;
pub mod c17_relay_recv;
pub mod c18_mapped_addrs;
pub mod c19_send_dispatch;
pub mod c20_bind_order;
pub mod c31_endpoint_info;
pub mod c32_signed_packet;
pub mod c33_timestamps;
pub mod c34_stagger;
pub mod c35_resolve_host_all;
pub mod c36_zone_signer;
pub mod c37_newest_packet;
pub mod c38_stale_cache;
pub mod c39_store_crash;
pub mod c09_rate_limit;
pub mod c10_relay_frames;
pub mod c12_auth_token;
pub mod c14_ping_tracker;
pub mod c43_relay_map;
pub mod c26_home_relay;
pub mod c27_net_report_aggregation;
pub mod c28_preferred_relay;
pub mod c29_lookup_stream;
pub mod c30_lookup_publish;
pub mod c01_dial_authenticates;
pub mod c40_router_dispatch;
pub mod c42_hooks_gate;
pub mod c41_router_shutdown;
pub mod c02_encodings;
pub mod c03_handshake;
pub mod c04_forwarding;
pub mod c05_isolation;
pub mod c06_registry;
pub mod c07_access_disconnect;
pub mod c07_tcp;
pub mod c08_revocation;
pub mod c25_reprobe;
pub mod relay_history;
pub mod c16_take_segments;

pub const REGISTRY: &[Prop] = &[
    Prop { id: "C02", level: "exploration", watchdog_quick_s: 600, watchdog_thorough_s: 3600, run: c02_encodings::run },
    Prop { id: "C03", level: "exploration", watchdog_quick_s: 900, watchdog_thorough_s: 7200, run: c03_handshake::run },
    Prop { id: "C04", level: "exploration", watchdog_quick_s: 900, watchdog_thorough_s: 7200, run: c04_forwarding::run },
    Prop { id: "C05", level: "exploration", watchdog_quick_s: 900, watchdog_thorough_s: 7200, run: c05_isolation::run },
    Prop { id: "C06", level: "exploration", watchdog_quick_s: 900, watchdog_thorough_s: 7200, run: c06_registry::run },
    Prop { id: "C07", level: "fault_enumeration", watchdog_quick_s: 1200, watchdog_thorough_s: 7200, run: c07_access_disconnect::run },
    Prop { id: "C08", level: "exploration", watchdog_quick_s: 1500, watchdog_thorough_s: 7200, run: c08_revocation::run },
    Prop { id: "C16", level: "exploration", watchdog_quick_s: 600, watchdog_thorough_s: 3600, run: c16_take_segments::run },
    Prop { id: "C25", level: "exploration", watchdog_quick_s: 1800, watchdog_thorough_s: 7200, run: c25_reprobe::run },
    Prop { id: "C11", level: "exploration", watchdog_quick_s: 600, watchdog_thorough_s: 3600, run: c11_version_negotiation::run },
    Prop { id: "C13", level: "exploration", watchdog_quick_s: 600, watchdog_thorough_s: 3600, run: c13_captive_portal::run },
    Prop { id: "C15", level: "exploration", watchdog_quick_s: 600, watchdog_thorough_s: 3600, run: c15_dial_happy_eyeballs::run },
    Prop { id: "C21", level: "exploration", watchdog_quick_s: 900, watchdog_thorough_s: 5400, run: c21_remote_lifecycle::run },
    Prop { id: "C22", level: "exploration", watchdog_quick_s: 900, watchdog_thorough_s: 5400, run: c22_resolve::run },
    Prop { id: "C23", level: "exploration", watchdog_quick_s: 600, watchdog_thorough_s: 3600, run: c23_prune_paths::run },
    Prop { id: "C24", level: "exploration", watchdog_quick_s: 600, watchdog_thorough_s: 3600, run: c24_path_selection::run },
    Prop { id: "C17", level: "exploration", watchdog_quick_s: 900, watchdog_thorough_s: 7200, run: c17_relay_recv::run },
    Prop { id: "C18", level: "exploration", watchdog_quick_s: 900, watchdog_thorough_s: 7200, run: c18_mapped_addrs::run },
    Prop { id: "C19", level: "exploration", watchdog_quick_s: 900, watchdog_thorough_s: 7200, run: c19_send_dispatch::run },
    Prop { id: "C20", level: "exploration", watchdog_quick_s: 600, watchdog_thorough_s: 3600, run: c20_bind_order::run },
    Prop { id: "C31", level: "exploration", watchdog_quick_s: 600, watchdog_thorough_s: 3600, run: c31_endpoint_info::run },
    Prop { id: "C32", level: "exploration", watchdog_quick_s: 600, watchdog_thorough_s: 3600, run: c32_signed_packet::run },
    Prop { id: "C33", level: "exploration", watchdog_quick_s: 600, watchdog_thorough_s: 3600, run: c33_timestamps::run },
    Prop { id: "C34", level: "exploration", watchdog_quick_s: 600, watchdog_thorough_s: 3600, run: c34_stagger::run },
    Prop { id: "C35", level: "exploration", watchdog_quick_s: 600, watchdog_thorough_s: 3600, run: c35_resolve_host_all::run },
    Prop { id: "C36", level: "exploration", watchdog_quick_s: 1800, watchdog_thorough_s: 7200, run: c36_zone_signer::run },
    Prop { id: "C37", level: "exploration", watchdog_quick_s: 1800, watchdog_thorough_s: 7200, run: c37_newest_packet::run },
    Prop { id: "C38", level: "exploration", watchdog_quick_s: 1800, watchdog_thorough_s: 7200, run: c38_stale_cache::run },
    Prop { id: "C39", level: "fault_enumeration", watchdog_quick_s: 3600, watchdog_thorough_s: 14400, run: c39_store_crash::run },
    Prop { id: "C09", level: "exploration", watchdog_quick_s: 900, watchdog_thorough_s: 5400, run: c09_rate_limit::run },
    Prop { id: "C10", level: "exploration", watchdog_quick_s: 900, watchdog_thorough_s: 5400, run: c10_relay_frames::run },
    Prop { id: "C12", level: "exploration", watchdog_quick_s: 600, watchdog_thorough_s: 3600, run: c12_auth_token::run },
    Prop { id: "C14", level: "exploration", watchdog_quick_s: 600, watchdog_thorough_s: 3600, run: c14_ping_tracker::run },
    Prop { id: "C43", level: "exploration", watchdog_quick_s: 900, watchdog_thorough_s: 5400, run: c43_relay_map::run },
    Prop { id: "C26", level: "exploration", watchdog_quick_s: 900, watchdog_thorough_s: 3600, run: c26_home_relay::run },
    Prop { id: "C27", level: "exploration", watchdog_quick_s: 600, watchdog_thorough_s: 3600, run: c27_net_report_aggregation::run },
    Prop { id: "C28", level: "exploration", watchdog_quick_s: 600, watchdog_thorough_s: 3600, run: c28_preferred_relay::run },
    Prop { id: "C29", level: "exploration", watchdog_quick_s: 600, watchdog_thorough_s: 3600, run: c29_lookup_stream::run },
    Prop { id: "C30", level: "exploration", watchdog_quick_s: 900, watchdog_thorough_s: 3600, run: c30_lookup_publish::run },
    Prop { id: "C01", level: "exploration", watchdog_quick_s: 900, watchdog_thorough_s: 7200, run: c01_dial_authenticates::run },
    Prop { id: "C40", level: "exploration", watchdog_quick_s: 900, watchdog_thorough_s: 7200, run: c40_router_dispatch::run },
    Prop { id: "C42", level: "exploration", watchdog_quick_s: 900, watchdog_thorough_s: 7200, run: c42_hooks_gate::run },
    Prop { id: "C41", level: "exploration", watchdog_quick_s: 900, watchdog_thorough_s: 7200, run: c41_router_shutdown::run },
];

/// In-target oracles of the libFuzzer targets (see /verif/fuzzing/fuzz).  Panics on a violation.
pub fn fuzz_entry(target: &str, data: &[u8]) {
    let out = match target {
        "c02_bytes" => c02_encodings::fuzz_bytes(data),
        "c10_decode" => c10_relay_frames::fuzz_decode(data),
        "c12_request" => c12_auth_token::fuzz_request(data),
        "c31_txt" => c31_endpoint_info::fuzz_txt(data),
        "c32_wire" => c32_signed_packet::fuzz_wire(data),
        other => panic!("unknown fuzz target {other}"),
    };
    if let crate::engine::Outcome::Violation { signature, detail } = out {
        panic!("VIOLATION {signature}: {detail}");
    }
}
