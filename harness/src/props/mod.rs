//! One module per property.

use crate::engine::Ctx;

pub struct Prop {
    pub id: &'static str,
    pub level: &'static str,
    pub watchdog_quick_s: u64,
    pub watchdog_thorough_s: u64,
    pub run: fn(&Ctx),
}

pub mod c02_encodings;
pub mod c16_take_segments;

pub const REGISTRY: &[Prop] = &[
    Prop { id: "C02", level: "exploration", watchdog_quick_s: 600, watchdog_thorough_s: 3600, run: c02_encodings::run },
    Prop { id: "C16", level: "exploration", watchdog_quick_s: 600, watchdog_thorough_s: 3600, run: c16_take_segments::run },
];
