//! C42 — connection hooks and connect preconditions gate every connection.
//!
//! Per case: dialer A and acceptor B on loopback, each with a generated list of 0..3 hooks
//! (each hook: before_connect accept/reject, after_handshake accept/reject(code, reason) with
//! codes distinct per hook), a valid or empty ALPN, and the peer or A itself as target.
//! Every hook invocation is logged with (side, index, hook point).  The reference model
//! computes which hooks must run (installation order, stop at the first rejection), what
//! each side must obtain, and which close code the other side must see.

use std::sync::{Arc, Mutex};

use iroh::{
    EndpointAddr, EndpointId,
    endpoint::{
        AfterHandshakeOutcome, ApplicationClose, BeforeConnectOutcome, ConnectError, ConnectWithOptsError,
        ConnectingError, Connection, ConnectionError, EndpointHooks, VarInt,
    },
};
use proptest::prelude::*;
use serde::{Deserialize, Serialize};
use tokio::sync::mpsc;

use crate::{
    engine::{Ctx, ExploreOpts, Outcome},
    support::e2e,
};

const ALPN: &[u8] = b"/verif/c42/1";

#[derive(Debug, Clone, Copy, PartialEq, Eq, Serialize, Deserialize)]
struct HookSpec {
    before_reject: bool,
    /// Some(tag) = after_handshake rejects; code and reason derive from (side, index, tag)
    after_reject: Option<u8>,
}

#[derive(Debug, Clone, Serialize, Deserialize)]
struct Case {
    a_hooks: Vec<HookSpec>,
    b_hooks: Vec<HookSpec>,
    empty_alpn: bool,
    self_dial: bool,
    /// additional protocol names offered next to the primary one: 0 = none, 1 = [ALPN],
    /// 2 = ["", ALPN], 3 = [ALPN, ""]
    #[serde(default)]
    additional: u8,
    /// the acceptor takes the connection through `Incoming::accept().into_0rtt()` and
    /// `handshake_completed()` instead of awaiting the incoming connection
    #[serde(default)]
    accept_0rtt: bool,
}

fn hook() -> impl Strategy<Value = HookSpec> {
    (prop::bool::weighted(0.12), prop::option::weighted(0.3, 0u8..10))
        .prop_map(|(before_reject, after_reject)| HookSpec { before_reject, after_reject })
}

fn strategy() -> impl Strategy<Value = Case> {
    (
        proptest::collection::vec(hook(), 0..=3),
        proptest::collection::vec(hook(), 0..=3),
        prop::bool::weighted(0.12),
        prop::bool::weighted(0.12),
        prop_oneof![3 => Just(0u8), 1 => 1u8..4],
        prop::bool::weighted(0.3),
    )
        .prop_map(|(a_hooks, b_hooks, empty_alpn, self_dial, additional, accept_0rtt)| Case { a_hooks, b_hooks, empty_alpn, self_dial, additional, accept_0rtt })
}

fn code_of(side: u8, idx: usize, tag: u8) -> u32 {
    1000 * (side as u32 + 1) + 10 * idx as u32 + (tag % 10) as u32
}
fn reason_of(side: u8, idx: usize, tag: u8) -> Vec<u8> {
    format!("hook-{}{}-{}", if side == 0 { 'A' } else { 'B' }, idx, tag).into_bytes()
}

#[derive(Debug, Clone, PartialEq, Eq)]
enum Point {
    Before,
    After { remote: EndpointId, alpn: Vec<u8> },
}

#[derive(Debug, Clone)]
struct Call {
    side: u8,
    idx: usize,
    point: Point,
}

#[derive(Debug)]
struct Hook {
    side: u8,
    idx: usize,
    spec: HookSpec,
    log: Arc<Mutex<Vec<Call>>>,
}

impl EndpointHooks for Hook {
    async fn before_connect<'a>(&'a self, _remote: &'a EndpointAddr, _alpn: &'a [u8]) -> BeforeConnectOutcome {
        self.log.lock().unwrap().push(Call { side: self.side, idx: self.idx, point: Point::Before });
        if self.spec.before_reject { BeforeConnectOutcome::Reject } else { BeforeConnectOutcome::Accept }
    }

    async fn after_handshake<'a>(&'a self, conn: &'a Connection) -> AfterHandshakeOutcome {
        self.log.lock().unwrap().push(Call {
            side: self.side,
            idx: self.idx,
            point: Point::After { remote: conn.remote_id(), alpn: conn.alpn().to_vec() },
        });
        match self.spec.after_reject {
            None => AfterHandshakeOutcome::Accept,
            Some(tag) => AfterHandshakeOutcome::Reject {
                error_code: VarInt::from_u32(code_of(self.side, self.idx, tag)),
                reason: reason_of(self.side, self.idx, tag),
            },
        }
    }
}

/// What one side ended up with.
#[derive(Debug, Clone, PartialEq, Eq)]
enum View {
    /// the local hooks rejected (LocallyRejected)
    LocallyRejected,
    /// connection (attempt) ended with the peer's application close
    ClosedByPeer { code: u64, reason: Vec<u8> },
    /// usable connection: one stream round trip worked
    Usable,
    /// a precondition error of connect_with_opts (SelfConnect / InvalidAlpn)
    Precondition(&'static str),
    Other(String),
}

fn view_of_conn_err(e: &ConnectionError) -> View {
    match e {
        ConnectionError::ApplicationClosed(ApplicationClose { error_code, reason }) => {
            View::ClosedByPeer { code: error_code.into_inner(), reason: reason.to_vec() }
        }
        other => View::Other(format!("{other:?}")),
    }
}

fn view_of_connecting_err(e: &ConnectingError) -> View {
    match e {
        ConnectingError::LocallyRejected { .. } => View::LocallyRejected,
        ConnectingError::ConnectionError { source, .. } => view_of_conn_err(source),
        other => View::Other(format!("{other:?}")),
    }
}

fn run_case(c: &Case) -> Outcome {
    let c = c.clone();
    e2e::run(1, async move { run_async(&c).await })
}

fn first_before_reject(h: &[HookSpec]) -> Option<usize> {
    h.iter().position(|s| s.before_reject)
}
fn first_after_reject(h: &[HookSpec]) -> Option<(usize, u8)> {
    h.iter().enumerate().find_map(|(i, s)| s.after_reject.map(|t| (i, t)))
}

async fn run_async(c: &Case) -> Outcome {
    let log: Arc<Mutex<Vec<Call>>> = Arc::default();
    let mut ab = e2e::builder();
    for (i, s) in c.a_hooks.iter().enumerate() {
        ab = ab.hooks(Hook { side: 0, idx: i, spec: *s, log: log.clone() });
    }
    let mut bb = e2e::builder().alpns(vec![ALPN.to_vec()]);
    for (i, s) in c.b_hooks.iter().enumerate() {
        bb = bb.hooks(Hook { side: 1, idx: i, spec: *s, log: log.clone() });
    }
    let a = e2e::bind(ab).await;
    let b = e2e::bind(bb).await;

    // B's accept loop: reports one View per Incoming.
    let (tx, mut rx) = mpsc::unbounded_channel::<View>();
    let incomings = Arc::new(Mutex::new(0usize));
    let accept_task = tokio::spawn({
        let b = b.clone();
        let incomings = incomings.clone();
        let zero_rtt = c.accept_0rtt;
        async move {
            while let Some(inc) = b.accept().await {
                *incomings.lock().unwrap() += 1;
                let tx = tx.clone();
                tokio::spawn(async move {
                    let accepted: Result<_, View> = if zero_rtt {
                        match inc.accept() {
                            Err(e) => Err(view_of_conn_err(&e)),
                            Ok(acc) => acc.into_0rtt().handshake_completed().await.map_err(|e| view_of_connecting_err(&e)),
                        }
                    } else {
                        inc.await.map_err(|e| view_of_connecting_err(&e))
                    };
                    let view = match accepted {
                        Err(v) => v,
                        Ok(conn) => {
                            let echoed = async {
                                let (mut s, mut r) = conn.accept_bi().await.ok()?;
                                let m = r.read_to_end(64).await.ok()?;
                                s.write_all(&m).await.ok()?;
                                s.finish().ok()?;
                                Some(())
                            }
                            .await
                            .is_some();
                            let why = conn.closed().await;
                            if echoed { View::Usable } else { view_of_conn_err(&why) }
                        }
                    };
                    let _ = tx.send(view);
                });
            }
        }
    });

    let target: EndpointAddr = if c.self_dial { a.addr() } else { b.addr() };
    let alpn: &[u8] = if c.empty_alpn { b"" } else { ALPN };
    // an empty *additional* name next to a valid primary one is outside the domain (the statement
    // speaks of connecting "with an empty protocol name"; the primary name is the one checked)
    let additional = if c.empty_alpn { c.additional } else { c.additional.min(1) };
    let extra: Vec<Vec<u8>> = match additional {
        0 => vec![],
        1 => vec![ALPN.to_vec()],
        2 => vec![vec![], ALPN.to_vec()],
        _ => vec![ALPN.to_vec(), vec![]],
    };
    let dial = async {
        if additional == 0 {
            a.connect(target, alpn).await
        } else {
            let opts = iroh::endpoint::ConnectOptions::new().with_additional_alpns(extra);
            let connecting = a.connect_with_opts(target, alpn, opts).await?;
            Ok(connecting.await?)
        }
    };
    let res = e2e::within(60, "connect with hooks", dial).await;
    let a_view = match res {
        Err(ConnectError::Connect { source, .. }) => match source {
            ConnectWithOptsError::LocallyRejected { .. } => View::LocallyRejected,
            ConnectWithOptsError::SelfConnect { .. } => View::Precondition("self"),
            ConnectWithOptsError::InvalidAlpn { .. } => View::Precondition("alpn"),
            other => View::Other(format!("connect_with_opts: {other:?}")),
        },
        Err(ConnectError::Connecting { source, .. }) => view_of_connecting_err(&source),
        Err(ConnectError::Connection { source, .. }) => view_of_conn_err(&source),
        Err(other) => View::Other(format!("{other:?}")),
        Ok(conn) => {
            let rt = async {
                let (mut s, mut r) = conn.open_bi().await.ok()?;
                s.write_all(b"hello").await.ok()?;
                s.finish().ok()?;
                let m = r.read_to_end(64).await.ok()?;
                (m == b"hello").then_some(())
            };
            let ok = e2e::within(60, "round trip or connection error", rt).await.is_some();
            if ok {
                conn.close(7u32.into(), b"bye");
                View::Usable
            } else {
                let why = e2e::within(60, "close reason", conn.closed()).await;
                view_of_conn_err(&why)
            }
        }
    };

    // Reference model.
    let a_before = first_before_reject(&c.a_hooks);
    let handshake = a_before.is_none() && !c.self_dial && !c.empty_alpn;
    let a_after = first_after_reject(&c.a_hooks);
    let b_after = first_after_reject(&c.b_hooks);

    // B's view: only when a handshake was attempted must there be exactly one Incoming.
    let b_view = if handshake {
        Some(e2e::within(60, "acceptor's view of the connection", rx.recv()).await.expect("accept loop alive"))
    } else {
        // detector (can only miss): give a stray packet time to arrive
        tokio::time::sleep(std::time::Duration::from_millis(30)).await;
        rx.try_recv().ok()
    };
    let n_incoming = *incomings.lock().unwrap();
    e2e::within(60, "close A", a.close()).await;
    e2e::within(60, "close B", b.close()).await;
    accept_task.abort();

    let calls = log.lock().unwrap().clone();
    let ids = |side: u8, before: bool| -> Vec<usize> {
        calls
            .iter()
            .filter(|k| k.side == side && matches!(k.point, Point::Before) == before)
            .map(|k| k.idx)
            .collect()
    };
    let desc = format!(
        "A hooks {:?} B hooks {:?} empty_alpn={} self_dial={}; A view {a_view:?}; B view {b_view:?}; calls {:?}",
        c.a_hooks,
        c.b_hooks,
        c.empty_alpn,
        c.self_dial,
        calls.iter().map(|k| (k.side, k.idx, matches!(k.point, Point::Before))).collect::<Vec<_>>()
    );
    macro_rules! fail {
        ($sig:expr, $($a:tt)*) => { return Outcome::violation($sig, format!("{}: {desc}", format!($($a)*))) };
    }

    // before_connect: installation order, stop after the first rejection; B never dials.
    let want_a_before: Vec<usize> = (0..c.a_hooks.len()).take(a_before.map(|i| i + 1).unwrap_or(usize::MAX)).collect();
    if ids(0, true) != want_a_before {
        fail!("C42:before-connect-order", "before_connect hooks consulted {:?}, expected {want_a_before:?}", ids(0, true));
    }
    if !ids(1, true).is_empty() {
        fail!("C42:before-connect-on-acceptor", "acceptor's before_connect ran");
    }

    if !handshake {
        // Rejected before the handshake or failed precondition: nothing reaches the wire,
        // no after_handshake hook runs anywhere.
        let want = if a_before.is_some() {
            vec![View::LocallyRejected]
        } else {
            let mut w = vec![];
            if c.self_dial {
                w.push(View::Precondition("self"));
            }
            if c.empty_alpn {
                w.push(View::Precondition("alpn"));
            }
            w
        };
        if !want.contains(&a_view) {
            if matches!(a_view, View::Usable) {
                fail!("C42:connected-despite-precondition", "a connection was established");
            }
            fail!("C42:wrong-precondition-outcome", "expected one of {want:?}");
        }
        if !ids(0, false).is_empty() || !ids(1, false).is_empty() {
            fail!("C42:after-handshake-without-handshake", "after_handshake hooks ran although the attempt had to stop before the handshake");
        }
        if n_incoming != 0 || b_view.is_some() {
            fail!("C42:reached-the-wire", "the acceptor observed {n_incoming} incoming connection(s)");
        }
        let mut classes = vec![];
        if a_before.is_some() {
            classes.push("before-connect-reject");
        }
        if c.self_dial {
            classes.push("self-dial");
        }
        if c.empty_alpn {
            classes.push("empty-alpn");
        }
        if a_before.is_none() && !c.a_hooks.is_empty() {
            classes.push("precondition-behind-accepting-hooks");
        }
        return Outcome::pass_with(a_before.is_some_and(|i| i >= 1), classes);
    }

    let b_view = b_view.unwrap();
    if n_incoming != 1 {
        fail!("C42:incoming-count", "{n_incoming} incoming connections for one dial");
    }
    // after_handshake on A: always runs (A completes the handshake first), in order.
    let want_a_after: Vec<usize> = (0..c.a_hooks.len()).take(a_after.map(|(i, _)| i + 1).unwrap_or(usize::MAX)).collect();
    if ids(0, false) != want_a_after {
        fail!("C42:after-handshake-order", "dialer's after_handshake hooks consulted {:?}, expected {want_a_after:?}", ids(0, false));
    }
    // after_handshake on B: in order; if A rejected, B may have seen the close before its
    // handshake completed, in which case none of its hooks ran.
    let want_b_after: Vec<usize> = (0..c.b_hooks.len()).take(b_after.map(|(i, _)| i + 1).unwrap_or(usize::MAX)).collect();
    let b_ran = ids(1, false);
    let b_skipped = a_after.is_some() && b_ran.is_empty();
    if b_ran != want_b_after && !b_skipped {
        fail!("C42:after-handshake-order", "acceptor's after_handshake hooks consulted {b_ran:?}, expected {want_b_after:?}");
    }
    // what the hooks were shown
    for k in &calls {
        if let Point::After { remote, alpn } = &k.point {
            let want_remote = if k.side == 0 { b.id() } else { a.id() };
            if *remote != want_remote || alpn != ALPN {
                fail!("C42:hook-sees-wrong-connection", "hook {}/{} saw remote {remote} alpn {:?}", k.side, k.idx, String::from_utf8_lossy(alpn));
            }
        }
    }

    let a_close = a_after.map(|(i, t)| View::ClosedByPeer { code: code_of(0, i, t) as u64, reason: reason_of(0, i, t) });
    let b_close = b_after.map(|(i, t)| View::ClosedByPeer { code: code_of(1, i, t) as u64, reason: reason_of(1, i, t) });
    // Dialer's outcome.
    let want_a: Vec<View> = match (&a_close, &b_close) {
        (Some(_), _) => vec![View::LocallyRejected],
        (None, Some(bc)) => vec![bc.clone()],
        (None, None) => vec![View::Usable],
    };
    if !want_a.contains(&a_view) {
        let sig = match (&a_view, a_after.is_some() || b_after.is_some()) {
            (View::Usable, true) => "C42:usable-despite-rejection",
            (View::ClosedByPeer { .. }, _) => "C42:wrong-close-code",
            (_, false) => "C42:accepted-connection-unusable",
            _ => "C42:wrong-dialer-outcome",
        };
        fail!(sig, "dialer expected {want_a:?}");
    }
    // Acceptor's outcome.
    let want_b: Vec<View> = match (&a_close, &b_close) {
        (Some(ac), Some(_)) => {
            if b_skipped { vec![ac.clone()] } else { vec![View::LocallyRejected] }
        }
        (Some(ac), None) => vec![ac.clone()],
        (None, Some(_)) => vec![View::LocallyRejected],
        (None, None) => vec![View::Usable],
    };
    if !want_b.contains(&b_view) {
        let sig = match (&b_view, a_after.is_some() || b_after.is_some()) {
            (View::Usable, true) => "C42:usable-despite-rejection",
            (View::ClosedByPeer { .. }, _) => "C42:wrong-close-code",
            (_, false) => "C42:accepted-connection-unusable",
            _ => "C42:wrong-acceptor-outcome",
        };
        fail!(sig, "acceptor expected {want_b:?}");
    }

    let mut classes = vec![];
    match (a_after.is_some(), b_after.is_some()) {
        (false, false) => classes.push("all-accept"),
        (true, false) => classes.push("dialer-rejects-after-handshake"),
        (false, true) => classes.push("acceptor-rejects-after-handshake"),
        (true, true) => classes.push("both-reject-after-handshake"),
    }
    if b_skipped && !c.b_hooks.is_empty() {
        classes.push("acceptor-saw-close-before-hooks");
    }
    let late = a_after.is_some_and(|(i, _)| i >= 1) || b_after.is_some_and(|(i, _)| i >= 1);
    if late {
        classes.push("rejection-at-index>=1");
    }
    let both = a_after.is_some() && b_after.is_some();
    Outcome::pass_with(late || both, classes)
}

/// A close frame can be lost on loopback when the machine is heavily loaded (the peer then sees
/// a stateless reset or an idle timeout instead of the application close).  Such a transport
/// level loss is not a verdict on the hooks: the case is re-run, and only an outcome that
/// repeats three times in a row is reported (a real defect is deterministic).
fn run_case_retrying(c: &Case) -> Outcome {
    let mut last = run_case(c);
    for _ in 0..2 {
        let lossy = matches!(&last, Outcome::Violation { signature, detail }
            if (signature.ends_with("wrong-dialer-outcome") || signature.ends_with("wrong-acceptor-outcome"))
                && (detail.contains("Reset") || detail.contains("TimedOut")));
        if !lossy {
            break;
        }
        last = run_case(c);
    }
    last
}

pub fn run(ctx: &Ctx) {
    ctx.rule("dialer A and acceptor B on loopback with 0..3 hooks each (before_connect accept/reject, after_handshake accept/reject with a code and reason unique to the hook), ALPN valid or empty, target B or A itself; hooks log every call; non-trivial = a rejection by a hook at index >= 1 or after_handshake rejections on both sides");
    ctx.assume("when the dialer's after_handshake hook rejects, the acceptor may observe the close before its own handshake completes; then none of its hooks run and it sees the dialer's code (both orders accepted)");
    ctx.assume("'no incoming connection at the acceptor' is observed 30 ms after the failed connect returned (detector; can only miss)");
    let k = ctx.tier.pick(1, 10);
    ctx.explore("hooks", ExploreOpts::new(400 * k).shrink(100), strategy, run_case_retrying);
}
