//! C03 — relay handshake admits an identity only with proof of its secret key.
//!
//! The server side is the real `handshake::serverside` + `authorize_with` over an in-memory
//! stream; the client is harness code with its own frame encoder and signing-message
//! derivation, so the oracle shares no code with the implementation.

use std::sync::{Arc, Mutex};

use bytes::Bytes;
use ed25519_dalek::{Signer, SigningKey, VerifyingKey};
use http::HeaderValue;
use iroh_base::EndpointId;
use iroh_relay::{
    http::ProtocolVersion,
    protos::handshake::{self, Mechanism},
    server::{Access, AccessControl, ClientRequest, ConnectionId, DynAccessControl},
};
use proptest::prelude::*;
use serde::{Deserialize, Serialize};

use crate::{
    check,
    engine::{Ctx, ExploreOpts, Outcome, paused_rt},
    support::memrelay::{self, ClientEnd, FromRelay},
};

#[derive(Debug, Clone, Serialize, Deserialize, PartialEq)]
enum Header {
    None,
    /// what an honest client holding the claimed key sends
    Valid,
    /// claims K but signed by key `j`
    SignedByOther(u8),
    /// signature over material exported with another key as context
    WrongContext(u8),
    /// signature over material exported under another label
    WrongLabel,
    /// correct signature, altered suffix
    SuffixMismatch,
    /// valid header of an earlier TLS session (other session secret)
    Stale,
    /// the signature covers the whole 32 exported bytes instead of the first 16
    SignedWholeExport,
    Truncated(u8),
    Extended(Vec<u8>),
    NotBase64(String),
    RandomBytes(Vec<u8>),
    /// claims a key that is not a curve point
    NonPointKey,
}

#[derive(Debug, Clone, Copy, Serialize, Deserialize, PartialEq)]
enum Km {
    Same,
    Different,
    ClientNone,
    ServerNone,
}

#[derive(Debug, Clone, Serialize, Deserialize, PartialEq)]
enum Response {
    Honest,
    /// signs the raw 16 challenge bytes, without the key derivation step
    RawChallenge,
    /// signs the challenge of an earlier session
    Replay,
    /// claims K, signs with key `j`
    OtherKeyClaimingK(u8),
    BitFlip(u16),
    /// honest payload under another frame tag
    WrongTag(u8),
    EmptyFrame,
    TrailingBytes(Vec<u8>),
    Close,
    /// honest frame followed immediately by a second frame
    TwoFrames,
    /// a non-canonical signature: S replaced by S + L (accepted by lax verifiers only)
    NonCanonicalS,
    Garbage(Vec<u8>),
    /// a perfectly valid answer, but for another identity: claims key `j` and signs with `j`
    /// (combined with a header naming K this must authenticate j, never K)
    HonestAsOther(u8),
}

#[derive(Debug, Clone, Serialize, Deserialize, PartialEq)]
enum Decision {
    Allow,
    Deny(Option<String>),
}

#[derive(Debug, Clone, Serialize, Deserialize)]
struct Case {
    k: u8,
    header: Header,
    km: Km,
    response: Response,
    decision: Decision,
    session: [u8; 8],
}

fn strategy() -> impl Strategy<Value = Case> {
    let header = prop_oneof![
        3 => Just(Header::None),
        4 => Just(Header::Valid),
        1 => (0u8..4).prop_map(Header::SignedByOther),
        1 => (0u8..4).prop_map(Header::WrongContext),
        1 => Just(Header::WrongLabel),
        1 => Just(Header::SuffixMismatch),
        1 => Just(Header::Stale),
        1 => Just(Header::SignedWholeExport),
        1 => (0u8..120).prop_map(Header::Truncated),
        1 => proptest::collection::vec(any::<u8>(), 1..10).prop_map(Header::Extended),
        1 => "[ -~]{0,40}".prop_map(Header::NotBase64),
        1 => proptest::collection::vec(any::<u8>(), 0..140).prop_map(Header::RandomBytes),
        1 => Just(Header::NonPointKey),
    ];
    let km = prop_oneof![4 => Just(Km::Same), 2 => Just(Km::Different), 1 => Just(Km::ClientNone), 1 => Just(Km::ServerNone)];
    let response = prop_oneof![
        5 => Just(Response::Honest),
        1 => Just(Response::RawChallenge),
        1 => Just(Response::Replay),
        1 => (0u8..4).prop_map(Response::OtherKeyClaimingK),
        1 => (0u16..512).prop_map(Response::BitFlip),
        1 => (0u8..16).prop_map(Response::WrongTag),
        1 => Just(Response::EmptyFrame),
        1 => proptest::collection::vec(any::<u8>(), 1..10).prop_map(Response::TrailingBytes),
        1 => Just(Response::Close),
        1 => Just(Response::TwoFrames),
        1 => Just(Response::NonCanonicalS),
        1 => proptest::collection::vec(any::<u8>(), 0..120).prop_map(Response::Garbage),
        2 => (0u8..4).prop_map(Response::HonestAsOther),
    ];
    let decision = prop_oneof![3 => Just(Decision::Allow), 1 => Just(Decision::Deny(None)), 1 => "[a-z ]{0,20}".prop_map(|s| Decision::Deny(Some(s)))];
    (0u8..4, header, km, response, decision, any::<[u8; 8]>()).prop_map(|(k, header, km, response, decision, session)| Case { k, header, km, response, decision, session })
}

#[derive(Debug, Default)]
pub struct AccessLog {
    pub connects: Vec<(EndpointId, ConnectionId, bool)>,
    pub disconnects: Vec<(EndpointId, ConnectionId)>,
}

#[derive(Debug)]
pub struct RecordingAccess {
    pub decision: Access,
    pub log: Mutex<AccessLog>,
}

impl AccessControl for RecordingAccess {
    async fn on_connect(&self, request: &ClientRequest) -> Access {
        let allow = matches!(self.decision, Access::Allow);
        self.log.lock().unwrap().connects.push((request.endpoint_id(), request.connection_id(), allow));
        self.decision.clone()
    }
    fn on_disconnect(&self, endpoint_id: EndpointId, connection_id: ConnectionId) {
        self.log.lock().unwrap().disconnects.push((endpoint_id, connection_id));
    }
}

fn session_secret(tag: &[u8; 8], salt: u8) -> [u8; 32] {
    let mut s = [salt; 32];
    s[..8].copy_from_slice(tag);
    s
}

fn signing_key(i: u8) -> SigningKey {
    SigningKey::from_bytes(&memrelay::pool_key(i).to_bytes())
}

fn non_canonical(sig: [u8; 64]) -> [u8; 64] {
    // S' = S + L (mod 2^256); L = group order
    const L: [u8; 32] = [
        0xed, 0xd3, 0xf5, 0x5c, 0x1a, 0x63, 0x12, 0x58, 0xd6, 0x9c, 0xf7, 0xa2, 0xde, 0xf9, 0xde, 0x14,
        0, 0, 0, 0, 0, 0, 0, 0, 0, 0, 0, 0, 0, 0, 0, 0x10,
    ];
    let mut out = sig;
    let mut carry = 0u16;
    for i in 0..32 {
        let v = sig[32 + i] as u16 + L[i] as u16 + carry;
        out[32 + i] = v as u8;
        carry = v >> 8;
    }
    out
}

struct BuiltHeader {
    value: Option<HeaderValue>,
    /// (claimed key bytes, signature, suffix) when the header is structurally well formed
    fields: Option<([u8; 32], [u8; 64], [u8; 16])>,
}

fn build_header(c: &Case, client_secret: Option<[u8; 32]>, stale_secret: [u8; 32]) -> BuiltHeader {
    let k_pub = signing_key(c.k).verifying_key().to_bytes();
    let make = |signer: u8, claimed: [u8; 32], secret: [u8; 32], label: &[u8], context: [u8; 32], whole: bool| {
        let km = memrelay::export_km(&secret, label, Some(&context));
        let msg: &[u8] = if whole { &km[..] } else { &km[..16] };
        let sig = signing_key(signer).sign(msg).to_bytes();
        let suffix: [u8; 16] = km[16..].try_into().unwrap();
        (claimed, sig, suffix)
    };
    let label = memrelay::DOMAIN_SEP_TLS_EXPORT_LABEL;
    // a client without exporter can not build an honest header; adversarial kinds use a made-up secret
    let secret = client_secret.unwrap_or([0x77; 32]);
    let fields = match &c.header {
        Header::None => None,
        Header::Valid => {
            if client_secret.is_none() { None } else { Some(make(c.k, k_pub, secret, label, k_pub, false)) }
        }
        Header::SignedByOther(j) => Some(make(*j, k_pub, secret, label, k_pub, false)),
        Header::WrongContext(j) => Some(make(c.k, k_pub, secret, label, signing_key(*j).verifying_key().to_bytes(), false)),
        Header::WrongLabel => Some(make(c.k, k_pub, secret, b"iroh-relay handshake v2", k_pub, false)),
        Header::SuffixMismatch => {
            let (a, b, mut s) = make(c.k, k_pub, secret, label, k_pub, false);
            s[3] ^= 0x40;
            Some((a, b, s))
        }
        Header::Stale => Some(make(c.k, k_pub, stale_secret, label, k_pub, false)),
        Header::SignedWholeExport => Some(make(c.k, k_pub, secret, label, k_pub, true)),
        Header::NonPointKey => {
            let mut bad = [0u8; 32];
            bad[0] = 2; // y = 2 is not on the curve
            Some(make(c.k, bad, secret, label, bad, false))
        }
        Header::Truncated(_) | Header::Extended(_) => Some(make(c.k, k_pub, secret, label, k_pub, false)),
        Header::NotBase64(_) | Header::RandomBytes(_) => None,
    };
    let value = match &c.header {
        Header::None => None,
        Header::NotBase64(s) => HeaderValue::from_str(s).ok(),
        Header::RandomBytes(b) => HeaderValue::from_str(&data_encoding::BASE64URL_NOPAD.encode(b)).ok(),
        Header::Truncated(n) => fields.map(|(a, b, s)| {
            let full = memrelay::encode_km_header(&a, &b, &s);
            let raw = data_encoding::BASE64URL_NOPAD.decode(full.as_bytes()).unwrap();
            let cut = (*n as usize).min(raw.len().saturating_sub(1));
            HeaderValue::from_str(&data_encoding::BASE64URL_NOPAD.encode(&raw[..cut])).unwrap()
        }),
        Header::Extended(extra) => fields.map(|(a, b, s)| {
            let full = memrelay::encode_km_header(&a, &b, &s);
            let mut raw = data_encoding::BASE64URL_NOPAD.decode(full.as_bytes()).unwrap();
            raw.extend_from_slice(extra);
            HeaderValue::from_str(&data_encoding::BASE64URL_NOPAD.encode(&raw)).unwrap()
        }),
        _ => fields.map(|(a, b, s)| HeaderValue::from_str(&memrelay::encode_km_header(&a, &b, &s)).unwrap()),
    };
    // for truncated / random headers the fields are not what the server sees
    let fields = match &c.header {
        Header::Truncated(_) => None,
        _ => fields,
    };
    BuiltHeader { value, fields }
}

/// Independent verification: strict ed25519 under the claimed key bytes.
fn verifies(key: &[u8; 32], msg: &[u8], sig: &[u8; 64]) -> bool {
    match VerifyingKey::from_bytes(key) {
        Ok(vk) => vk.verify_strict(msg, &ed25519_dalek::Signature::from_bytes(sig)).is_ok(),
        Err(_) => false,
    }
}

struct ClientView {
    challenge: Option<[u8; 16]>,
    /// the ClientAuth (key, sig) the script sent, if it was a structurally valid frame
    sent_auth: Option<([u8; 32], [u8; 64])>,
    verdict: Option<FromRelay>,
    extra_frames: Vec<FromRelay>,
}

async fn client_script(mut end: ClientEnd, c: Case, prev_challenge: [u8; 16]) -> ClientView {
    let mut view = ClientView { challenge: None, sent_auth: None, verdict: None, extra_frames: vec![] };
    let k_pub = signing_key(c.k).verifying_key().to_bytes();
    let mut first = end.recv().await;
    if let Some(FromRelay::Challenge(ch)) = first {
        view.challenge = Some(ch);
        let honest_msg = memrelay::challenge_message(&ch);
        let honest_sig = signing_key(c.k).sign(&honest_msg).to_bytes();
        let send_auth = |end: &ClientEnd, key: [u8; 32], sig: [u8; 64], view: &mut ClientView| {
            view.sent_auth = Some((key, sig));
            end.send(memrelay::encode_client_auth(&key, &sig));
        };
        match &c.response {
            Response::Honest => send_auth(&end, k_pub, honest_sig, &mut view),
            Response::RawChallenge => send_auth(&end, k_pub, signing_key(c.k).sign(&ch).to_bytes(), &mut view),
            Response::Replay => send_auth(&end, k_pub, signing_key(c.k).sign(&memrelay::challenge_message(&prev_challenge)).to_bytes(), &mut view),
            Response::OtherKeyClaimingK(j) => send_auth(&end, k_pub, signing_key(*j).sign(&honest_msg).to_bytes(), &mut view),
            Response::BitFlip(bit) => {
                let mut s = honest_sig;
                s[(*bit / 8) as usize] ^= 1 << (bit % 8);
                send_auth(&end, k_pub, s, &mut view)
            }
            Response::NonCanonicalS => send_auth(&end, k_pub, non_canonical(honest_sig), &mut view),
            Response::WrongTag(t) => {
                let mut f = memrelay::encode_client_auth(&k_pub, &honest_sig).to_vec();
                if *t == memrelay::T_CLIENT_AUTH { f[0] = memrelay::T_PING } else { f[0] = *t }
                end.send(Bytes::from(f));
            }
            Response::EmptyFrame => { end.send(Bytes::new()); }
            Response::TrailingBytes(extra) => {
                let mut f = memrelay::encode_client_auth(&k_pub, &honest_sig).to_vec();
                f.extend_from_slice(extra);
                view.sent_auth = Some((k_pub, honest_sig));
                end.send(Bytes::from(f));
            }
            Response::Close => { end.close_write(); }
            Response::TwoFrames => {
                send_auth(&end, k_pub, honest_sig, &mut view);
                end.send(memrelay::encode_ping([7; 8]));
            }
            Response::HonestAsOther(j) => {
                let other = signing_key(*j);
                send_auth(&end, other.verifying_key().to_bytes(), other.sign(&honest_msg).to_bytes(), &mut view)
            }
            Response::Garbage(g) => {
                let mut f = vec![memrelay::T_CLIENT_AUTH];
                f.extend_from_slice(g);
                // if the garbage happens to be a structurally valid frame, record what it claims
                if g.len() >= 97 && g[32] == 64 {
                    view.sent_auth = Some((g[..32].try_into().unwrap(), g[33..97].try_into().unwrap()));
                }
                end.send(Bytes::from(f));
            }
        }
        first = end.recv().await;
    }
    view.verdict = first;
    end.close_write();
    while let Some(f) = end.recv().await {
        view.extra_frames.push(f);
    }
    view
}

fn run_case(c: &Case) -> Outcome {
    let c = c.clone();
    paused_rt(async move {
        let server_secret = session_secret(&c.session, 1);
        let stale_secret = session_secret(&c.session, 9);
        let (server_km, client_km) = match c.km {
            Km::Same => (Some(server_secret), Some(server_secret)),
            Km::Different => (Some(server_secret), Some(session_secret(&c.session, 2))),
            Km::ClientNone => (Some(server_secret), None),
            Km::ServerNone => (None, Some(server_secret)),
        };
        let hdr = build_header(&c, client_km, stale_secret);
        // an earlier session, to obtain a challenge that is not this session's
        let prev_challenge = {
            let (mut io, mut end) = memrelay::mem_pair(None, None);
            let t = tokio::spawn(async move { let _ = handshake::serverside(&mut io, None).await; });
            let ch = match end.recv().await { Some(FromRelay::Challenge(ch)) => ch, other => panic!("no challenge in warm-up session: {other:?}") };
            end.close_write();
            drop(end);
            let _ = t.await;
            ch
        };

        let (mut io, end) = memrelay::mem_pair(server_km, None);
        let access = Arc::new(RecordingAccess {
            decision: match &c.decision { Decision::Allow => Access::Allow, Decision::Deny(r) => Access::Deny { reason: r.clone() } },
            log: Mutex::new(AccessLog::default()),
        });
        let dyn_access: Arc<dyn DynAccessControl> = access.clone();
        let header_value = hdr.value.clone();
        let server = tokio::spawn(async move {
            let auth = handshake::serverside(&mut io, header_value).await;
            match auth {
                Err(e) => (Err(format!("{e:#}")), None),
                Ok(auth) => {
                    let key = auth.client_key;
                    let mech = auth.mechanism;
                    let parts = http::Request::builder().uri("/relay").body(()).unwrap().into_parts().0;
                    let request = ClientRequest::new(key, ProtocolVersion::V2, parts);
                    let res = auth.authorize_with(&request, &dyn_access, &mut io).await;
                    (Ok((key, mech, request.connection_id())), Some(res.map_err(|e| format!("{e:#}"))))
                }
            }
        });
        let client = tokio::spawn(client_script(end, c.clone(), prev_challenge));
        let view = client.await.expect("client script");
        let (auth, authz) = tokio::time::timeout(std::time::Duration::from_secs(600), server).await.expect("server side hangs").expect("server task");

        let k_pub = signing_key(c.k).verifying_key().to_bytes();
        // ---------- (a) soundness
        let proof_km = |key: &[u8; 32]| -> bool {
            let (Some(secret), Some((claimed, sig, suffix))) = (server_km, hdr.fields) else { return false };
            if &claimed != key { return false; }
            let km = memrelay::export_km(&secret, memrelay::DOMAIN_SEP_TLS_EXPORT_LABEL, Some(key));
            km[16..] == suffix && verifies(key, &km[..16], &sig)
        };
        let proof_challenge = |key: &[u8; 32]| -> bool {
            let (Some(ch), Some((claimed, sig))) = (view.challenge, view.sent_auth) else { return false };
            &claimed == key && verifies(key, &memrelay::challenge_message(&ch), &sig)
        };
        if let Ok((key, mech, _)) = &auth {
            let kb = key.as_bytes();
            match mech {
                Mechanism::SignedKeyMaterial => check!(proof_km(kb), "C03:unsound-key-material", "server authenticated {} by key material, but the header carries no valid signature by that key over this session's exported material bound to it (header {:?}, km {:?})", key.fmt_short(), c.header, c.km),
                Mechanism::SignedChallenge => check!(proof_challenge(kb), "C03:unsound-challenge", "server authenticated {} by challenge, but the client never sent a valid signature by that key over this session's challenge (response {:?})", key.fmt_short(), c.response),
                _ => return Outcome::violation("C03:unknown-mechanism", format!("{mech:?}")),
            }
        }
        // ---------- (b) completeness for the honest client
        let honest_header = matches!(c.header, Header::None | Header::Valid);
        let header_sent = hdr.value.is_some();
        let km_path = header_sent && c.header == Header::Valid && c.km == Km::Same;
        // every well-formed-but-failing header must fall back to the challenge; the client then answers per script
        let structurally_ok_header = matches!(c.header, Header::None | Header::Valid | Header::SignedByOther(_) | Header::WrongContext(_) | Header::WrongLabel | Header::SuffixMismatch | Header::Stale | Header::SignedWholeExport | Header::Extended(_));
        let honest_response = matches!(c.response, Response::Honest | Response::TwoFrames | Response::TrailingBytes(_));
        if honest_header && (km_path || c.response == Response::Honest) {
            match &auth {
                Ok((key, mech, _)) => {
                    check!(key.as_bytes() == &k_pub, "C03:wrong-identity", "honest client holding key {} authenticated as {}", c.k, key.fmt_short());
                    let want = if km_path { Mechanism::SignedKeyMaterial } else { Mechanism::SignedChallenge };
                    check!(*mech == want, "C03:wrong-mechanism", "honest client (header sent: {header_sent}, km {:?}) authenticated via {mech:?}, expected {want:?}", c.km);
                }
                Err(e) => return Outcome::violation("C03:honest-rejected", format!("honest client (header {:?}, km {:?}) was not authenticated: {e}", c.header, c.km)),
            }
        }
        if structurally_ok_header && !km_path && c.response == Response::Honest && !proof_km(&k_pub) {
            check!(matches!(&auth, Ok((key, Mechanism::SignedChallenge, _)) if key.as_bytes() == &k_pub), "C03:no-fallback", "a failing key-material header ({:?}, km {:?}) followed by an honest challenge response was not authenticated by challenge: {:?}", c.header, c.km, auth.as_ref().map(|a| a.1).map_err(|e| e.clone()));
        }
        // ---------- (c) authorization decision
        let log = access.log.lock().unwrap();
        match (&auth, &authz) {
            (Err(_), _) => {
                check!(log.connects.is_empty(), "C03:policy-consulted-unauthenticated", "access control consulted although authentication failed");
                check!(!matches!(view.verdict, Some(FromRelay::Confirms)), "C03:confirmed-unauthenticated", "client read a confirmation although the server did not authenticate it");
            }
            (Ok((key, _, conn_id)), Some(res)) => {
                check!(log.connects.len() == 1 && log.connects[0].0 == *key && log.connects[0].1 == *conn_id, "C03:policy-call", "on_connect calls: {:?}", log.connects);
                match &c.decision {
                    Decision::Allow => {
                        check!(res.is_ok(), "C03:allow-failed", "authorize_with failed on Allow: {res:?}");
                        check!(matches!(view.verdict, Some(FromRelay::Confirms)), "C03:allow-not-confirmed", "client read {:?} instead of a confirmation", view.verdict);
                    }
                    Decision::Deny(reason) => {
                        check!(res.is_err(), "C03:deny-admitted", "authorize_with returned a guard although access was denied");
                        let want = reason.clone().unwrap_or_else(|| "not authorized".to_string());
                        check!(matches!(&view.verdict, Some(FromRelay::Denies(r)) if *r == want), "C03:deny-not-reported", "client read {:?}, expected a denial with reason {want:?}", view.verdict);
                        check!(log.disconnects.is_empty(), "C03:deny-disconnect", "a denied connection produced a disconnect notification");
                    }
                }
            }
            (Ok(_), None) => unreachable!(),
        }
        drop(log);
        // dropping the guard of an admitted connection notifies exactly once
        if let (Ok((key, _, conn_id)), Some(Ok(guard))) = (&auth, authz) {
            drop(guard);
            let log = access.log.lock().unwrap();
            check!(log.disconnects == vec![(*key, *conn_id)], "C03:guard-notify", "disconnects after dropping the guard: {:?}", log.disconnects);
        }
        let adversarial = !(honest_header && honest_response);
        let mut classes = vec![];
        if auth.is_ok() { classes.push("authenticated"); } else { classes.push("rejected"); }
        if km_path { classes.push("key-material-path"); }
        if view.challenge.is_some() { classes.push("challenge-sent"); }
        Outcome::pass_with(adversarial, classes)
    })
}

pub fn run(ctx: &Ctx) {
    ctx.rule("sessions = (claimed key, auth header kind, keying-material agreement, challenge response script, allow/deny) run against the real serverside+authorize_with over an in-memory stream with a scripted exporter; adversarial client, frame encoder and signing-message derivation are harness code; oracle: Ok(K, mechanism) only if the script contained a strict-ed25519-valid signature by K over this session's exported material bound to K (suffix equal) resp. over the KDF of this session's challenge; honest client always authenticated as K via the expected mechanism; failing headers fall back to the challenge; deny is reported with its reason and yields no guard; non-trivial = any script other than the honest one");
    ctx.assume("the server's challenge comes from its own RNG; the oracle uses the challenge the client actually received. ed25519-dalek verify_strict called directly is the reference verifier");
    let k = ctx.tier.pick(1, 10);
    ctx.explore("session", ExploreOpts::new(24_000 * k).shrink(300), strategy, run_case);
}
