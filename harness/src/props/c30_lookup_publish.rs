//! C30 — every lookup service ends up with the latest published address data.
//!
//! Real code: `AddressLookupServices::{add, publish, set_addr_filter}` (`publish` through the
//! `iroh::verif_netreport::address_lookup_publish` forward) with the pause points
//! `addr_lookup:add:before_push` and `addr_lookup:publish:before_store`.
//! (a) controlled schedules: every interleaving of the atomic steps of 2..3 threads;
//! (b) stress: the same programs free-running from a barrier with seeded spins at the pause
//! points.  Oracle at quiescence, independent of the schedule: a probe service added last is
//! handed the stored data L; every registered service's most recent `publish` argument is L;
//! L is the (filtered) data of a publish that no later publish of the same thread follows.

use std::{
    net::{Ipv4Addr, SocketAddr},
    sync::{Arc, Barrier, Mutex},
};

use iroh::{
    address_lookup::{AddrFilter, AddressLookup, AddressLookupServices, EndpointData, UserData},
    verif_netreport::address_lookup_publish,
};
use iroh_base::{RelayUrl, TransportAddr};
use proptest::prelude::*;
use serde::{Deserialize, Serialize};

use crate::{
    check,
    engine::{Ctx, ExploreOpts, Outcome},
    support::sched::{self, Run, StepResult},
};

const P_ADD: &str = "addr_lookup:add:before_push";
const P_PUB: &str = "addr_lookup:publish:before_store";

#[derive(Debug, Clone, Copy, PartialEq, Eq, Serialize, Deserialize)]
enum Op {
    /// publish data number `i`
    Publish(u8),
    /// add a new recording service
    Add,
}

#[derive(Debug, Clone, Serialize, Deserialize)]
struct Program {
    /// the registry filters to relay addresses only
    filter: bool,
    /// services registered before the concurrent part
    pre_services: u8,
    /// data published before the concurrent part
    pre_publish: Option<u8>,
    /// the concurrent part: one operation list per thread
    threads: Vec<Vec<Op>>,
}

#[derive(Debug, Clone, Serialize, Deserialize)]
struct Case {
    program: Program,
    /// thread to release at each step; entries naming a thread that is not stopped are skipped
    schedule: Vec<u8>,
}

#[derive(Debug, Clone, Serialize, Deserialize)]
struct StressCase {
    program: Program,
    /// per thread: spin counts consumed at the pause points (u32::MAX = yield)
    delays: Vec<Vec<u32>>,
    repeats: u16,
}

fn relay_url() -> RelayUrl {
    "https://relay.verif.test".parse().expect("url")
}

fn data(i: u8) -> EndpointData {
    let ip = SocketAddr::new(Ipv4Addr::new(10, 0, 0, i).into(), 1000 + i as u16);
    EndpointData::from_iter([TransportAddr::Relay(relay_url()), TransportAddr::Ip(ip)])
        .with_user_data(UserData::try_from(format!("data-{i}")).expect("user data"))
}

/// What a service must be handed for `data(i)`, written independently of `apply_filter`.
fn expected(i: u8, filter: bool) -> EndpointData {
    if filter {
        EndpointData::from_iter([TransportAddr::Relay(relay_url())])
            .with_user_data(UserData::try_from(format!("data-{i}")).expect("user data"))
    } else {
        data(i)
    }
}

#[derive(Debug, Clone, Default)]
struct Recorder {
    log: Arc<Mutex<Vec<EndpointData>>>,
}

impl AddressLookup for Recorder {
    fn publish(&self, data: &EndpointData) {
        self.log.lock().unwrap().push(data.clone());
    }
}

struct World {
    services: AddressLookupServices,
    /// every recorder handed to `add`, with a label
    recorders: Mutex<Vec<(String, Recorder)>>,
}

fn setup(p: &Program) -> Arc<World> {
    let w = Arc::new(World { services: AddressLookupServices::default(), recorders: Mutex::new(vec![]) });
    if p.filter {
        w.services.set_addr_filter(AddrFilter::relay_only());
    }
    for i in 0..p.pre_services {
        let r = Recorder::default();
        w.recorders.lock().unwrap().push((format!("pre{i}"), r.clone()));
        w.services.add(r);
    }
    if let Some(d) = p.pre_publish {
        address_lookup_publish(&w.services, &data(d));
    }
    w
}

fn exec(w: &World, t: usize, k: usize, op: Op) {
    match op {
        Op::Publish(i) => address_lookup_publish(&w.services, &data(i)),
        Op::Add => {
            let r = Recorder::default();
            w.recorders.lock().unwrap().push((format!("t{t}op{k}"), r.clone()));
            w.services.add(r);
        }
    }
}

fn judge(p: &Program, w: &World) -> Result<(), Outcome> {
    // candidates for "the latest published data": per thread its last publish; if no thread
    // publishes, the data published before the concurrent part
    let mut candidates: Vec<u8> = p
        .threads
        .iter()
        .filter_map(|ops| ops.iter().rev().find_map(|o| if let Op::Publish(i) = o { Some(*i) } else { None }))
        .collect();
    if candidates.is_empty() {
        candidates.extend(p.pre_publish);
    }
    let probe = Recorder::default();
    w.services.add(probe.clone());
    let probe_log = probe.log.lock().unwrap().clone();
    let recs = w.recorders.lock().unwrap().clone();
    let n_adds = p.threads.iter().flatten().filter(|o| **o == Op::Add).count();
    if w.services.len() != p.pre_services as usize + n_adds + 1 {
        return Err(Outcome::violation("C30:service-not-registered", format!("{} services registered, expected {}", w.services.len(), p.pre_services as usize + n_adds + 1)));
    }
    if candidates.is_empty() {
        if !probe_log.is_empty() || recs.iter().any(|(_, r)| !r.log.lock().unwrap().is_empty()) {
            return Err(Outcome::violation("C30:data-from-nowhere", "nothing was published but a service was handed data".to_string()));
        }
        return Ok(());
    }
    let show = |d: &EndpointData| d.user_data().map(|u| u.to_string()).unwrap_or_else(|| "?".into());
    if probe_log.len() != 1 {
        return Err(Outcome::violation("C30:newcomer-not-served", format!("a service added at quiescence was handed {} data sets (data was published before)", probe_log.len())));
    }
    let latest = probe_log[0].clone();
    let Some(li) = candidates.iter().copied().find(|i| expected(*i, p.filter) == latest) else {
        let sig = if (0..8).any(|i| expected(i, !p.filter) == latest) { "C30:filter-not-applied" } else { "C30:stored-data-not-latest" };
        return Err(Outcome::violation(sig, format!("the stored data is {} ({:?}); the latest publish can only be one of {:?}", show(&latest), latest, candidates)));
    };
    for (label, r) in &recs {
        let log = r.log.lock().unwrap().clone();
        for e in &log {
            if !(0..8).any(|i| expected(i, p.filter) == *e) {
                return Err(Outcome::violation("C30:filter-not-applied", format!("service {label} was handed {:?}, which is no published data with the filter applied", e)));
            }
        }
        match log.last() {
            Some(last) if *last == latest => {}
            Some(last) => {
                return Err(Outcome::violation("C30:service-has-stale-data", format!("service {label} was most recently handed {} but the latest published (stored) data is data-{li}; its log: {:?}", show(last), log.iter().map(show).collect::<Vec<_>>())));
            }
            None => {
                return Err(Outcome::violation("C30:service-has-no-data", format!("service {label} was never handed anything but the latest published (stored) data is data-{li}")));
            }
        }
    }
    Ok(())
}

fn actors_of(p: &Program, w: &Arc<World>) -> Vec<sched::ActorFn> {
    p.threads
        .iter()
        .enumerate()
        .map(|(t, ops)| {
            let (w, ops) = (w.clone(), ops.clone());
            Box::new(move || {
                for (k, op) in ops.iter().enumerate() {
                    if k > 0 {
                        sched::harness_point("between-ops");
                    }
                    exec(&w, t, k, *op);
                }
            }) as sched::ActorFn
        })
        .collect()
}

fn run_controlled(c: &Case) -> Outcome {
    let p = &c.program;
    let w = setup(p);
    let run = Run::start(actors_of(p, &w), &[P_ADD, P_PUB]);
    let mut overlap = false; // a step was taken while an `add` and a `publish` were both in progress
    let mut blocked = false;
    let mid = |run: &Run| -> (bool, bool) {
        let mut add = false;
        let mut publ = false;
        for i in 0..run.len() {
            match run.status(i) {
                sched::Status::Stopped(n) if n == P_ADD => add = true,
                sched::Status::Stopped(n) if n == P_PUB => publ = true,
                sched::Status::Running => {
                    // blocked inside an operation
                    add = true;
                    publ = true;
                }
                _ => {}
            }
        }
        (add, publ)
    };
    let mut step = |a: usize, run: &Run| {
        let (add_mid, pub_mid) = mid(run);
        let what_next = match run.status(a) {
            sched::Status::Stopped(n) => Some(n),
            _ => None,
        };
        let r = run.step(a);
        if r == StepResult::Blocked {
            blocked = true;
        }
        if r != StepResult::NotEnabled {
            // this thread begins or continues an operation while another one is in the middle of its own
            if let Some(n) = what_next {
                let begins = n == "start" || n == "between-ops";
                if begins && (add_mid || pub_mid) {
                    overlap = true;
                }
            }
        }
    };
    for a in &c.schedule {
        let a = *a as usize;
        if a < run.len() {
            step(a, &run);
        }
    }
    loop {
        let en = run.enabled();
        let Some(a) = en.first() else { break };
        step(*a, &run);
    }
    let panics = run.finish();
    check!(panics.is_empty(), "C30:panic", "a thread panicked: {:?}", panics);
    if let Err(o) = judge(p, &w) {
        return o;
    }
    let has_add = p.threads.iter().flatten().any(|o| *o == Op::Add);
    let has_pub = p.threads.iter().flatten().any(|o| matches!(o, Op::Publish(_)));
    let mut classes = vec![];
    if overlap { classes.push("operations-overlap"); }
    if blocked { classes.push("a-thread-blocked-on-a-lock"); }
    if p.filter { classes.push("filtered"); }
    Outcome::pass_with(overlap && has_add && has_pub, classes)
}

fn run_stress(c: &StressCase) -> Outcome {
    let p = &c.program;
    for rep in 0..c.repeats.max(1) {
        let w = setup(p);
        let barrier = Arc::new(Barrier::new(p.threads.len()));
        let mut handles = vec![];
        for (t, ops) in p.threads.iter().enumerate() {
            let (w, ops, barrier) = (w.clone(), ops.clone(), barrier.clone());
            let delays = c.delays.get(t).cloned().unwrap_or_default();
            handles.push(
                std::thread::Builder::new()
                    .name(format!("stress-{t}"))
                    .spawn(move || {
                        sched::set_free_delays(Some(delays));
                        barrier.wait();
                        for (k, op) in ops.iter().enumerate() {
                            exec(&w, t, k, *op);
                        }
                        sched::set_free_delays(None);
                    })
                    .expect("spawn"),
            );
        }
        for h in handles {
            if h.join().is_err() {
                return Outcome::violation("C30:panic", "a stress thread panicked");
            }
        }
        if let Err(Outcome::Violation { signature, detail }) = judge(p, &w) {
            return Outcome::violation(signature, format!("[free-running, repetition {rep}] {detail}"));
        }
    }
    Outcome::pass_with(true, vec!["stress"])
}

fn programs(max_steps: usize) -> Vec<Program> {
    use Op::*;
    let shapes: Vec<Vec<Vec<Op>>> = vec![
        vec![vec![Publish(1)], vec![Add]],
        vec![vec![Publish(1), Publish(2)], vec![Add]],
        vec![vec![Publish(1)], vec![Add, Add]],
        vec![vec![Publish(1)], vec![Publish(2)]],
        vec![vec![Publish(1)], vec![Publish(2)], vec![Add]],
        vec![vec![Publish(1)], vec![Add], vec![Add]],
        vec![vec![Publish(1), Add], vec![Publish(2)]],
        vec![vec![Add, Publish(1)], vec![Publish(2)]],
        vec![vec![Publish(1), Publish(2)], vec![Publish(3)]],
        vec![vec![Publish(1), Publish(2)], vec![Add, Add]],
        vec![vec![Add], vec![Add]],
        vec![vec![Publish(1), Publish(2)], vec![Publish(3)], vec![Add]],
        vec![vec![Publish(1), Add], vec![Publish(2), Add]],
        vec![vec![Add, Publish(1)], vec![Add, Publish(2)]],
        vec![vec![Publish(1), Publish(2)], vec![Add, Add], vec![Publish(3)]],
        vec![vec![Publish(1)], vec![Publish(2)], vec![Add], vec![Add]],
    ];
    let mut out = vec![];
    for threads in shapes {
        let steps: usize = threads.iter().map(|t| 2 * t.len()).sum();
        // the four-thread shape (2 520 schedules per initial state) is left to the thorough tier
        if steps > max_steps || (threads.len() >= 4 && max_steps < 10) {
            continue;
        }
        for (pre_services, pre_publish, filter) in [(0u8, None, false), (1, Some(0u8), false), (1, None, true), (0, Some(0), true)] {
            out.push(Program { filter, pre_services, pre_publish, threads: threads.clone() });
        }
    }
    out
}

fn controlled_cases(max_steps: usize) -> Vec<Case> {
    let mut out = vec![];
    for p in programs(max_steps) {
        let counts: Vec<usize> = p.threads.iter().map(|t| 2 * t.len()).collect();
        for schedule in sched::interleavings(&counts) {
            out.push(Case { program: p.clone(), schedule });
        }
    }
    out
}

fn stress_strategy() -> impl Strategy<Value = StressCase> {
    let progs = programs(8);
    let n = progs.len();
    let spin = prop_oneof![3 => Just(0u32), 3 => 1u32..200, 2 => 200u32..20_000, 1 => Just(u32::MAX)];
    (0..n, proptest::collection::vec(proptest::collection::vec(spin, 0..4), 4))
        .prop_map(move |(i, delays)| StressCase { program: progs[i].clone(), delays, repeats: 3 })
}

pub fn run(ctx: &Ctx) {
    ctx.rule("controlled: 16 thread shapes (publish/publish, publish/add, two-op threads, three and four threads) x 4 initial states (with/without registered services, earlier data, relay-only filter); every operation is split at its pause point and all interleavings of the atomic steps are enumerated (quick <= 8 steps and <= 3 threads, thorough <= 10 steps); stress: the same programs free-running from a barrier with generated spins/yields at the pause points, 3 repetitions per case; non-trivial (controlled) = an operation begins while another thread is in the middle of an add or publish, with both kinds present");
    ctx.assume("'latest published data' of concurrent publishes = the data of a publish that is not followed by another publish of the same thread (any of them); services' publish() does not call back into the registry");
    let max_steps = ctx.tier.pick(8, 10);
    // development switch (sensitivity runs of one part only); not set by ./check
    let only = std::env::var("VERIF_C30_PART").ok();
    if only.as_deref() != Some("stress") {
        ctx.enumerate_par("controlled", controlled_cases(max_steps), 8, run_controlled);
    }
    let k = ctx.tier.pick(1, 10);
    if only.as_deref() != Some("controlled") {
        ctx.explore("stress", ExploreOpts::new(600 * k).workers(4).shrink(200), stress_strategy, run_stress);
    }
}
