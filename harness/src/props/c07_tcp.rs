//! C07 part (b): disconnection causes on the real relay server over loopback TCP.

use std::time::{Duration, Instant};

use proptest::prelude::*;
use serde::{Deserialize, Serialize};

use super::c07_access_disconnect::{Ev, Recorder, check_events};
use crate::{
    engine::{Ctx, ExploreOpts, Outcome},
    support::{
        gens,
        memrelay,
        tcprelay::{ABORTS, AbortAt, RawClient, RawOutcome, TcpRelay, net_rt, raw_connect},
    },
};

#[derive(Debug, Clone, Serialize, Deserialize)]
enum Step {
    /// raw client for key `key` (key 3 is denied by policy), aborting at `abort`
    Raw { key: u8, abort: u8, rst: bool },
    /// real `ClientBuilder` client
    Real { key: u8 },
    /// drop a live client chosen by index
    Drop { which: u16 },
    /// `Clients::disconnect(key, None)`
    AdminEndpoint { key: u8 },
    /// `Clients::disconnect(key, Some(conn))` for an admitted connection chosen by index
    AdminConn { which: u16 },
}

#[derive(Debug, Clone, Serialize, Deserialize)]
struct TcpCase {
    steps: Vec<Step>,
    shutdown_first: bool,
}

fn strategy() -> impl Strategy<Value = TcpCase> {
    let step = prop_oneof![
        5 => (0u8..4, 0u8..ABORTS.len() as u8, any::<bool>()).prop_map(|(key, abort, rst)| Step::Raw { key, abort, rst }),
        2 => (0u8..4).prop_map(|key| Step::Real { key }),
        2 => any::<u16>().prop_map(|which| Step::Drop { which }),
        1 => (0u8..3).prop_map(|key| Step::AdminEndpoint { key }),
        1 => any::<u16>().prop_map(|which| Step::AdminConn { which }),
    ];
    (proptest::collection::vec(step, 2..9), any::<bool>()).prop_map(|(steps, shutdown_first)| TcpCase { steps, shutdown_first })
}

#[allow(dead_code)]
enum Live {
    Raw(RawClient),
    Real(iroh_relay::client::Client),
}

const DENIED_KEY: u8 = 3;

fn run_case(c: &TcpCase) -> Outcome {
    let c = c.clone();
    net_rt(async move {
        let rec = Recorder::new();
        rec.deny.lock().unwrap().insert(memrelay::pool_key(DENIED_KEY).public());
        let mut relay = TcpRelay::spawn(rec.clone()).await;
        let clients = relay.clients();
        let mut live: Vec<Live> = vec![];
        let mut aborted_after_admission = false;
        let mut displaced = false;
        for s in &c.steps {
            match s {
                Step::Raw { key, abort, rst } => {
                    let at = ABORTS[*abort as usize % ABORTS.len()];
                    match raw_connect(relay.addr, *key, at, *rst).await {
                        RawOutcome::Connected(cl) => live.push(Live::Raw(cl)),
                        RawOutcome::Aborted => {
                            if matches!(at, AbortAt::AfterConfirm | AbortAt::AfterPing | AbortAt::AfterAuthSent) && *key != DENIED_KEY { aborted_after_admission = true; }
                        }
                        RawOutcome::Denied(_) => {
                            if *key != DENIED_KEY {
                                return Outcome::violation("C07:harness", "allowed key was denied");
                            }
                        }
                        RawOutcome::Failed(_) => {}
                    }
                }
                Step::Real { key } => {
                    if let Ok(cl) = relay.connect_real(&memrelay::pool_key(*key)).await {
                        live.push(Live::Real(cl));
                    }
                }
                Step::Drop { which } => {
                    if !live.is_empty() {
                        let i = gens::pick(*which, live.len());
                        drop(live.remove(i));
                    }
                }
                Step::AdminEndpoint { key } => { clients.disconnect(memrelay::pool_key(*key).public(), None); }
                Step::AdminConn { which } => {
                    let admitted: Vec<_> = rec.events.lock().unwrap().iter().filter_map(|e| match e { Ev::Connect { ep, conn, allow: true } => Some((*ep, *conn)), _ => None }).collect();
                    if !admitted.is_empty() {
                        let (ep, conn) = admitted[gens::pick(*which, admitted.len())];
                        clients.disconnect(ep, Some(conn));
                    }
                }
            }
            let ev = rec.events.lock().unwrap();
            let mut per_key = std::collections::HashMap::new();
            for e in ev.iter() { if let Ev::Connect { ep, allow: true, .. } = e { *per_key.entry(*ep).or_insert(0) += 1; } }
            if per_key.values().any(|n| *n >= 2) { displaced = true; }
        }
        // quiescence: all handles dropped and the server shut down (in either order)
        if c.shutdown_first {
            relay.shutdown().await;
            drop(live);
        } else {
            drop(live);
            relay.shutdown().await;
        }
        // the last callbacks may still be in flight on the runtime: wait (detector bound, only
        // costs time when a notification is really missing)
        let deadline = Instant::now() + Duration::from_secs(30);
        loop {
            let events = rec.events.lock().unwrap().clone();
            match check_events_peek(&events) {
                Ok(_) => break,
                Err(sig) if sig.ends_with("missing-disconnect") && Instant::now() < deadline => {
                    tokio::time::sleep(Duration::from_millis(20)).await;
                }
                Err(_) => break,
            }
        }
        let events = rec.events.lock().unwrap().clone();
        match check_events(&events, "C07") {
            Err((sig, detail)) => Outcome::violation(sig, format!("{detail} [tcp history {c:?}]")),
            Ok((admitted, denied)) => {
                let mut classes = vec![];
                if admitted > 0 { classes.push("tcp-admitted"); }
                if denied > 0 { classes.push("tcp-denied"); }
                if displaced { classes.push("tcp-same-id-twice"); }
                if aborted_after_admission { classes.push("tcp-abort-after-admission"); }
                Outcome::pass_with(aborted_after_admission || displaced, classes)
            }
        }
    })
}

/// Like `check_events` but without touching the process-wide id set.
fn check_events_peek(events: &[Ev]) -> Result<(), String> {
    for (i, e) in events.iter().enumerate() {
        if let Ev::Connect { ep, conn, allow: true } = e {
            let n = events.iter().enumerate().filter(|(j, d)| matches!(d, Ev::Disconnect { ep: e2, conn: c2 } if c2 == conn && e2 == ep) && *j > i).count();
            if n == 0 { return Err("C07:missing-disconnect".into()); }
        }
    }
    Ok(())
}

pub fn run_tcp(ctx: &Ctx) {
    let k = ctx.tier.pick(1, 8);
    ctx.explore("tcp", ExploreOpts::new(48 * k).workers(4).shrink(40), strategy, run_case);
}
