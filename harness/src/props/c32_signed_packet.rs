//! C32 — signed packets are accepted only if authentic and are safe to inspect.
//!
//! The harness signs its own packets: DNS payloads come from an independent DNS writer
//! (`support::dns_wire`), the BEP44 `signable` is written here from the spec, signatures are made
//! and verified with ed25519-dalek directly.  Every constructor result is compared with that
//! reference, and every accepted value is inspected through all accessors under `catch_unwind`.

use std::panic::{AssertUnwindSafe, catch_unwind};

use curve25519_dalek::edwards::CompressedEdwardsY;
use ed25519_dalek::{Signer, SigningKey, VerifyingKey};
use iroh_base::{PublicKey, SecretKey};
use iroh_dns::{
    endpoint_info::EndpointInfo,
    pkarr::{SignedPacket, Timestamp},
};
use proptest::prelude::*;
use serde::{Deserialize, Serialize};

use crate::{
    check,
    engine::{Ctx, ExploreOpts, Outcome},
    support::{
        dns_wire::{self, DnsSpec},
        gens,
    },
};

const HEADER: usize = 104;
const MAX_DNS: usize = 1000;

/// BEP44 signable for a mutable item without salt: `3:seqi<seq>e1:v<len>:<value>`.
fn signable(seq: u64, v: &[u8]) -> Vec<u8> {
    let mut out = Vec::with_capacity(v.len() + 40);
    out.extend_from_slice(b"3:seqi");
    out.extend_from_slice(seq.to_string().as_bytes());
    out.extend_from_slice(b"e1:v");
    out.extend_from_slice(v.len().to_string().as_bytes());
    out.push(b':');
    out.extend_from_slice(v);
    out
}

fn sign_packet(sk: &[u8; 32], ts: u64, dns: &[u8]) -> Vec<u8> {
    let key = SigningKey::from_bytes(sk);
    let sig = key.sign(&signable(ts, dns));
    let mut out = Vec::with_capacity(HEADER + dns.len());
    out.extend_from_slice(key.verifying_key().as_bytes());
    out.extend_from_slice(&sig.to_bytes());
    out.extend_from_slice(&ts.to_be_bytes());
    out.extend_from_slice(dns);
    out
}

fn is_point(b: &[u8]) -> bool {
    b.len() == 32 && CompressedEdwardsY(b.try_into().unwrap()).decompress().is_some()
}

fn dns_parses(dns: &[u8]) -> bool {
    simple_dns::Packet::parse(dns).is_ok()
}

/// The acceptance rule of the statement, evaluated without iroh-dns.
fn reference_accepts(wire: &[u8]) -> bool {
    if wire.len() < HEADER || wire.len() > HEADER + MAX_DNS {
        return false;
    }
    let Ok(vk) = VerifyingKey::from_bytes(wire[..32].try_into().unwrap()) else {
        return false;
    };
    let sig = ed25519_dalek::Signature::from_bytes(wire[32..96].try_into().unwrap());
    let ts = u64::from_be_bytes(wire[96..104].try_into().unwrap());
    vk.verify_strict(&signable(ts, &wire[HEADER..]), &sig).is_ok() && dns_parses(&wire[HEADER..])
}

/// Calls every accessor; returns the name of the first one that panics.
fn inspect(p: &SignedPacket, other: &SignedPacket, names: &[String]) -> Result<(), String> {
    macro_rules! probe {
        ($name:expr, $e:expr) => {
            if let Err(panic) = catch_unwind(AssertUnwindSafe(|| {
                let _ = $e;
            })) {
                let msg = panic.downcast_ref::<&str>().map(|s| s.to_string()).or_else(|| panic.downcast_ref::<String>().cloned()).unwrap_or_default();
                return Err(format!("{} panicked: {msg}", $name));
            }
        };
    }
    probe!("as_bytes", p.as_bytes().len());
    probe!("to_relay_payload", p.to_relay_payload());
    probe!("signature", p.signature());
    probe!("timestamp", p.timestamp().as_micros());
    probe!("encoded_packet", p.encoded_packet().len());
    probe!("more_recent_than", (p.more_recent_than(other), other.more_recent_than(p), p.more_recent_than(p)));
    probe!("clone/eq", p.clone() == *p);
    probe!("public_key", p.public_key());
    for n in names {
        probe!(format!("txt_records({n:?})"), p.txt_records(n));
    }
    probe!("all_txt_records", p.all_txt_records());
    probe!("Display", p.to_string());
    probe!("Debug", format!("{p:?} {p:#?}"));
    probe!("EndpointInfo::from_pkarr_signed_packet", EndpointInfo::from_pkarr_signed_packet(p).map(|i| format!("{i:?}")));
    Ok(())
}

#[derive(Debug, Clone, Serialize, Deserialize)]
enum Edit {
    /// flip bits at (position, bit)
    Flip(Vec<(u16, u8)>),
    Truncate(u16),
    Extend(Vec<u8>),
    /// replace the key by another valid key
    SwapKey,
    /// keep the key, take the signature another key makes over the same content
    SigFromOtherKey,
    TimestampPlus(i8),
    /// header of this packet, DNS payload of another packet signed by the same key
    TransplantPayload,
    /// header (key, signature, timestamp) replaced by that of another packet of the same key
    TransplantHeader,
    /// replace the key bytes by a 32-byte candidate (often not a curve point)
    KeyBytes([u8; 32]),
}

#[derive(Debug, Clone, Serialize, Deserialize)]
struct Case {
    sk: [u8; 32],
    other_sk: [u8; 32],
    ts: u64,
    dns: DnsSpec,
    /// byte edits of the DNS payload before signing: (position, kind, byte)
    dns_edits: Vec<(u16, u8, u8)>,
    edit: Edit,
    /// from_parts_unchecked slice lengths: (key slice length, signature slice length)
    parts: (u8, u8),
}

fn edit_strategy() -> impl Strategy<Value = Edit> + Clone {
    prop_oneof![
        5 => proptest::collection::vec((any::<u16>(), 0u8..8), 1..=3).prop_map(Edit::Flip),
        1 => any::<u16>().prop_map(Edit::Truncate),
        1 => proptest::collection::vec(any::<u8>(), 1..6).prop_map(Edit::Extend),
        1 => Just(Edit::SwapKey),
        1 => Just(Edit::SigFromOtherKey),
        1 => prop_oneof![Just(1i8), Just(-1), any::<i8>()].prop_map(Edit::TimestampPlus),
        1 => Just(Edit::TransplantPayload),
        1 => Just(Edit::TransplantHeader),
        4 => gens::key_candidate().prop_map(Edit::KeyBytes),
    ]
}

fn case_strategy() -> impl Strategy<Value = Case> + Clone {
    let dns = prop_oneof![3 => dns_wire::dns_spec(false), 2 => dns_wire::dns_spec(true)];
    let ts = prop_oneof![any::<u64>(), Just(0u64), Just(u64::MAX), 1_600_000_000_000_000u64..1_900_000_000_000_000];
    let dns_edits = prop_oneof![3 => Just(vec![]), 1 => proptest::collection::vec((any::<u16>(), 0u8..4, any::<u8>()), 1..4)];
    let parts = prop_oneof![3 => Just((32u8, 64u8)), 2 => (0u8..=96).prop_map(|c| (c, 96 - c)), 1 => (0u8..48, 0u8..80)];
    (gens::secret_bytes(), gens::secret_bytes(), ts, dns, dns_edits, edit_strategy(), parts)
        .prop_map(|(sk, other_sk, ts, dns, dns_edits, edit, parts)| Case { sk, other_sk, ts, dns, dns_edits, edit, parts })
}

fn z32(b: &[u8]) -> String {
    gens::b32_encode(gens::ZBASE32, b)
}

fn apply_edit(c: &Case, wire: &[u8], dns: &[u8]) -> Vec<u8> {
    let mut w = wire.to_vec();
    match &c.edit {
        Edit::Flip(bits) => {
            for (pos, bit) in bits {
                let i = gens::pick(*pos, w.len());
                w[i] ^= 1 << bit;
            }
        }
        Edit::Truncate(pos) => w.truncate(gens::pick(*pos, w.len())),
        Edit::Extend(extra) => w.extend_from_slice(extra),
        Edit::SwapKey => w[..32].copy_from_slice(SigningKey::from_bytes(&c.other_sk).verifying_key().as_bytes()),
        Edit::SigFromOtherKey => {
            let other = sign_packet(&c.other_sk, c.ts, dns);
            w[32..96].copy_from_slice(&other[32..96]);
        }
        Edit::TimestampPlus(d) => {
            let ts = c.ts.wrapping_add(*d as i64 as u64);
            w[96..104].copy_from_slice(&ts.to_be_bytes());
        }
        Edit::TransplantPayload | Edit::TransplantHeader => {
            // a second honest packet of the same key: one more TXT record, later timestamp
            let mut dns2 = dns.to_vec();
            if dns2.len() >= 12 {
                dns2[1] ^= 1; // another message id: still parses whenever `dns` does
            }
            let other = sign_packet(&c.sk, c.ts.wrapping_add(1), &dns2);
            if matches!(c.edit, Edit::TransplantPayload) {
                w.truncate(HEADER);
                w.extend_from_slice(&other[HEADER..]);
            } else {
                w[..HEADER].copy_from_slice(&other[..HEADER]);
            }
        }
        Edit::KeyBytes(k) => w[..32].copy_from_slice(k),
    }
    w
}

fn oracle(c: &Case) -> Outcome {
    let vk = SigningKey::from_bytes(&c.sk).verifying_key();
    let other_vk = SigningKey::from_bytes(&c.other_sk).verifying_key();
    let zone = z32(vk.as_bytes());
    let other_zone = z32(other_vk.as_bytes());
    let mut dns = dns_wire::encode(&c.dns, &zone, &other_zone);
    for (pos, kind, byte) in &c.dns_edits {
        if dns.is_empty() {
            break;
        }
        let i = gens::pick(*pos, dns.len());
        match kind {
            0 => dns[i] ^= byte | 1,
            1 => dns.truncate(i),
            2 => dns.insert(i, *byte),
            _ => dns.push(*byte),
        }
    }
    let parses = dns_parses(&dns);
    let wellformed_rejected = c.dns.is_well_formed_by_construction() && c.dns_edits.is_empty() && !parses;
    let wire = sign_packet(&c.sk, c.ts, &dns);
    let honest_ok = dns.len() <= MAX_DNS && parses;
    check!(reference_accepts(&wire) == honest_ok, "C32:harness-reference", "reference verifier disagrees with itself on an honest packet");
    let names: Vec<String> = vec!["_iroh".into(), "@".into(), "".into(), ".".into(), "foo".into(), "_iroh.".into(), zone.clone(), format!("_iroh.{zone}"), format!("foo._iroh.{zone}."), other_zone.clone()];
    let helper = SignedPacket::from_txt_strings(&SecretKey::from_bytes(&c.other_sk), "_iroh", ["k=v"], 30).expect("tiny packet builds");
    let mut classes: Vec<&'static str> = vec![];
    if wellformed_rejected {
        // names over 255 bytes and the like: the writer's notion of well-formed is wider than the parser's
        classes.push("wellformed-by-construction-but-rejected-by-parser");
    }
    let mut inspected = 0u32;

    let pk = match PublicKey::from_bytes(vk.as_bytes()) {
        Ok(k) => k,
        Err(e) => return Outcome::violation("C32:valid-key-rejected", format!("{e:?}")),
    };
    let other_pk = PublicKey::from_bytes(other_vk.as_bytes()).expect("valid key");

    // inspects an accepted packet; classifies a panic by its root cause
    macro_rules! inspect_ok {
        ($ctor:expr, $p:expr) => {{
            inspected += 1;
            let p: &SignedPacket = $p;
            if let Err(what) = inspect(p, &helper, &names) {
                let key_ok = is_point(&p.as_bytes()[..32]);
                let sig = if key_ok { "C32:accessor-panics-on-accepted-packet" } else { "C32:unchecked-constructor-accepts-non-point-key" };
                return Outcome::violation(sig, format!("{} returned Ok for a packet with key {} (curve point: {key_ok}); then {what}", $ctor, gens::hex_lower(&p.as_bytes()[..32])));
            }
        }};
    }

    // ---- the honest packet, every constructor ----
    let got = SignedPacket::from_bytes(&wire);
    match (&got, honest_ok) {
        (Ok(p), true) => {
            check!(p.as_bytes() == &wire[..], "C32:accessor-values", "as_bytes differs from the accepted bytes");
            check!(p.public_key().as_bytes() == vk.as_bytes(), "C32:accessor-values", "public_key");
            check!(p.timestamp().as_micros() == c.ts && p.timestamp() == Timestamp::from_micros(c.ts), "C32:accessor-values", "timestamp {:?} != {}", p.timestamp(), c.ts);
            check!(p.encoded_packet() == &dns[..], "C32:accessor-values", "encoded_packet");
            check!(p.signature().to_bytes()[..] == wire[32..96], "C32:accessor-values", "signature");
            check!(p.to_relay_payload() == wire[32..], "C32:accessor-values", "to_relay_payload");
            inspect_ok!("from_bytes", p);
            classes.push("honest-accepted");
        }
        (Err(e), false) => {
            let _ = format!("{e} {e:?}");
            classes.push(if parses { "honest-too-large" } else { "honest-dns-unparseable" });
        }
        (Ok(_), false) => return Outcome::violation("C32:accepts-unparseable-or-oversize", format!("from_bytes accepted a packet whose DNS payload ({} bytes, parses: {parses}) is not acceptable", dns.len())),
        (Err(e), true) => return Outcome::violation("C32:rejects-authentic", format!("from_bytes rejected an authentic packet (ts {}, {} DNS bytes): {e:?}", c.ts, dns.len())),
    }
    let via_relay = SignedPacket::from_relay_payload(&pk, &wire[32..]);
    check!(via_relay.is_ok() == honest_ok, "C32:relay-payload-differs", "from_relay_payload(own key) ok={} but authentic={honest_ok}", via_relay.is_ok());
    if let (Ok(a), Ok(b)) = (&via_relay, &got) {
        check!(a == b, "C32:relay-payload-differs", "from_relay_payload yields a different packet");
    }
    if c.other_sk != c.sk {
        let r = SignedPacket::from_relay_payload(&other_pk, &wire[32..]);
        check!(r.is_err(), "C32:accepts-unauthentic", "relay payload signed by {zone} accepted for key {other_zone}");
    }
    let unchecked = SignedPacket::from_bytes_unchecked(&wire);
    if honest_ok {
        check!(unchecked.is_ok(), "C32:unchecked-rejects-authentic", "from_bytes_unchecked rejected an authentic packet: {:?}", unchecked.as_ref().err());
    }
    if let Ok(p) = &unchecked {
        inspect_ok!("from_bytes_unchecked", p);
    }
    let parts = SignedPacket::from_parts_unchecked(vk.as_bytes(), &wire[32..96], Timestamp::from_micros(c.ts), &dns);
    check!(parts.is_ok() == unchecked.is_ok(), "C32:parts-differs", "from_parts_unchecked ok={} but from_bytes_unchecked ok={}", parts.is_ok(), unchecked.is_ok());
    if let (Ok(a), Ok(b)) = (&parts, &unchecked) {
        check!(a == b, "C32:parts-differs", "from_parts_unchecked yields a different packet");
    }
    // arbitrary slice lengths
    let (kl, sl) = (c.parts.0 as usize, c.parts.1 as usize);
    let key_slice: Vec<u8> = wire[..96].iter().copied().cycle().take(kl).collect();
    let sig_slice: Vec<u8> = wire[kl.min(96)..96].iter().copied().chain(std::iter::repeat(0xa5)).take(sl).collect();
    if let Ok(p) = SignedPacket::from_parts_unchecked(&key_slice, &sig_slice, Timestamp::from_micros(c.ts), &dns) {
        inspect_ok!(format!("from_parts_unchecked(key slice of {kl}, signature slice of {sl} bytes)"), &p);
        if (kl, sl) != (32, 64) {
            classes.push("odd-part-lengths-accepted");
        }
    }

    // ---- the modified packet ----
    let edited = apply_edit(c, &wire, &dns);
    if edited != wire {
        let want = reference_accepts(&edited);
        let got = SignedPacket::from_bytes(&edited);
        match (&got, want) {
            (Ok(_), false) => {
                return Outcome::violation("C32:accepts-unauthentic", format!("from_bytes accepted a modified packet ({:?}); the reference verifier rejects it", c.edit));
            }
            (Err(e), true) => return Outcome::violation("C32:rejects-authentic", format!("from_bytes rejected what the reference accepts: {e:?}")),
            (Ok(p), true) => inspect_ok!("from_bytes(edited)", p),
            (Err(e), false) => {
                let _ = format!("{e} {e:?}");
            }
        }
        if honest_ok {
            check!(!want, "C32:harness-reference", "a modification of an authentic packet verifies under the reference: {:?}", c.edit);
        }
        if edited.len() >= 32 {
            let key = PublicKey::from_bytes(edited[..32].try_into().unwrap());
            check!(key.is_ok() == is_point(&edited[..32]), "C32:key-validation", "PublicKey::from_bytes disagrees with point decompression");
            if let Ok(key) = key {
                let r = SignedPacket::from_relay_payload(&key, &edited[32..]);
                check!(r.is_ok() == want, "C32:relay-payload-differs", "from_relay_payload on the modified packet ok={}, reference {want}", r.is_ok());
            }
            let r = SignedPacket::from_relay_payload(&pk, &edited[32..]);
            let mut own = vk.as_bytes().to_vec();
            own.extend_from_slice(&edited[32..]);
            check!(r.is_ok() == reference_accepts(&own), "C32:accepts-unauthentic", "from_relay_payload(own key, modified payload) ok={}", r.is_ok());
        }
        if let Ok(p) = SignedPacket::from_bytes_unchecked(&edited) {
            inspect_ok!("from_bytes_unchecked(edited)", &p);
            if edited.len() >= 32 && !is_point(&edited[..32]) {
                classes.push("unchecked-accepted-non-point-key");
            }
        }
        if edited.len() >= HEADER {
            let ts = Timestamp::from_be_bytes(edited[96..104].try_into().unwrap());
            if let Ok(p) = SignedPacket::from_parts_unchecked(&edited[..32], &edited[32..96], ts, &edited[HEADER..]) {
                inspect_ok!("from_parts_unchecked(edited)", &p);
            }
        }
        if edited.len() >= 32 && !is_point(&edited[..32]) {
            classes.push("non-point-key-offered");
        }
        classes.push(match &c.edit {
            Edit::Flip(_) => "edit-flip",
            Edit::Truncate(_) => "edit-truncate",
            Edit::Extend(_) => "edit-extend",
            Edit::SwapKey | Edit::SigFromOtherKey => "edit-other-key",
            Edit::TimestampPlus(_) => "edit-timestamp",
            Edit::TransplantPayload | Edit::TransplantHeader => "edit-transplant",
            Edit::KeyBytes(_) => "edit-key-bytes",
        });
        if edited.len() >= HEADER && edited.len() <= HEADER + MAX_DNS && dns_parses(&edited[HEADER..]) {
            classes.push("edited-payload-still-parses");
        }
    } else {
        classes.push("edit-was-a-no-op");
    }
    if !c.dns.is_well_formed_by_construction() || !c.dns_edits.is_empty() {
        classes.push(if parses { "hostile-dns-parses" } else { "hostile-dns-rejected" });
    }
    let nontrivial = classes.contains(&"edited-payload-still-parses") || classes.contains(&"non-point-key-offered") || classes.contains(&"hostile-dns-parses");
    let _ = inspected;
    Outcome::pass_with(nontrivial, classes)
}

// ---------------- packets built by the crate itself ----------------

#[derive(Debug, Clone, Serialize, Deserialize)]
struct BuildCase {
    sk: [u8; 32],
    name: String,
    values: Vec<String>,
    ttl: u32,
}

fn build_strategy() -> impl Strategy<Value = BuildCase> + Clone {
    let name = prop_oneof![
        3 => Just("_iroh".to_string()),
        1 => prop::sample::select(vec!["@", "", ".", "_iroh.", "a.b", "foo._iroh", "*", "a..b", "xn--nxasmq6b"]).prop_map(String::from),
        2 => "[a-z0-9_.@-]{0,20}",
        1 => "[ -~]{0,70}",
        1 => any::<String>().prop_map(|s| s.chars().take(12).collect()),
    ];
    let value = prop_oneof![
        4 => "[a-z-]{1,9}=[ -~]{0,40}",
        1 => "[ -~]{0,20}",
        1 => any::<String>().prop_map(|s| s.chars().take(60).collect()),
        1 => (250usize..=260).prop_map(|n| "x".repeat(n)),
    ];
    (gens::secret_bytes(), name, proptest::collection::vec(value, 0..8), any::<u32>()).prop_map(|(sk, name, values, ttl)| BuildCase { sk, name, values, ttl })
}

fn build_oracle(c: &BuildCase) -> Outcome {
    let sk = SecretKey::from_bytes(&c.sk);
    let vk = SigningKey::from_bytes(&c.sk).verifying_key();
    let built = match catch_unwind(AssertUnwindSafe(|| SignedPacket::from_txt_strings(&sk, &c.name, c.values.iter(), c.ttl))) {
        Ok(b) => b,
        Err(_) => return Outcome::violation("C32:from-txt-strings-panics", format!("from_txt_strings panicked for name {:?}", c.name)),
    };
    let p = match built {
        Ok(p) => p,
        Err(e) => {
            let _ = format!("{e} {e:?}");
            return Outcome::pass_with(false, vec!["build-refused"]);
        }
    };
    // what the crate signs must be authentic under the independent verifier
    check!(p.as_bytes()[..32] == vk.as_bytes()[..], "C32:built-packet-key", "built packet carries another key");
    // the signature must verify under the independent BEP44 signable, whatever the payload
    let sig_ok = VerifyingKey::from_bytes(vk.as_bytes())
        .map(|k| k.verify_strict(&signable(p.timestamp().as_micros(), p.encoded_packet()), &ed25519_dalek::Signature::from_bytes(&p.signature().to_bytes())).is_ok())
        .unwrap_or(false);
    check!(sig_ok, "C32:built-packet-not-authentic", "the signature of a packet built by from_txt_strings does not verify under the BEP44 signable (ts {}, {} DNS bytes)", p.timestamp().as_micros(), p.encoded_packet().len());
    // a name the DNS encoder takes unchecked (label over 63 bytes, ...) can yield a payload that
    // does not parse back; such a packet must then be refused from the wire like any other
    let parses = dns_parses(p.encoded_packet());
    match SignedPacket::from_bytes(p.as_bytes()) {
        Ok(q) => {
            check!(parses, "C32:accepts-unparseable-or-oversize", "from_bytes accepted a built packet whose payload does not parse");
            check!(q == p, "C32:rejects-authentic", "from_bytes alters a packet the crate just built");
        }
        Err(e) => check!(!parses, "C32:rejects-authentic", "from_bytes rejects a packet the crate just built: {e:?}"),
    }
    let helper = p.clone();
    let zone = z32(vk.as_bytes());
    let names = vec![c.name.clone(), "_iroh".into(), "@".into(), "".into(), zone.clone(), format!("{}.{zone}", c.name)];
    if let Err(what) = inspect(&p, &helper, &names) {
        return Outcome::violation("C32:accessor-panics-on-accepted-packet", format!("packet built by from_txt_strings(name {:?}): {what}", c.name));
    }
    Outcome::pass_with(true, vec![if parses { "built" } else { "built-payload-does-not-parse-back" }])
}

/// Fuzz entry: raw bytes to every byte-level constructor.  `from_bytes` must agree with the
/// independent acceptance rule; every accepted value (also from the unchecked constructors)
/// must be inspectable without panicking.
pub fn fuzz_wire(data: &[u8]) -> Outcome {
    let helper = SignedPacket::from_txt_strings(&SecretKey::from_bytes(&[3u8; 32]), "_iroh", ["k=v"], 30).expect("tiny packet builds");
    let names: Vec<String> = vec!["_iroh".into(), "@".into(), "".into(), ".".into(), "foo".into()];
    let expect = reference_accepts(data);
    let got = SignedPacket::from_bytes(data);
    check!(got.is_ok() == expect, "C32:acceptance", "from_bytes accepted={} but the independent rule says {} for {} bytes", got.is_ok(), expect, data.len());
    let mut any = false;
    let mut candidates: Vec<(&'static str, SignedPacket)> = vec![];
    if let Ok(p) = got { candidates.push(("from_bytes", p)); }
    if let Ok(p) = SignedPacket::from_bytes_unchecked(data) { candidates.push(("from_bytes_unchecked", p)); }
    if data.len() >= 32 {
        if let Ok(k) = PublicKey::try_from(&data[..32]) {
            let r = SignedPacket::from_relay_payload(&k, &bytes::Bytes::copy_from_slice(&data[32..]));
            check!(r.is_ok() == expect, "C32:acceptance", "from_relay_payload accepted={} but the independent rule says {}", r.is_ok(), expect);
            if let Ok(p) = r { candidates.push(("from_relay_payload", p)); }
        }
    }
    for (ctor, p) in &candidates {
        any = true;
        if let Err(what) = inspect(p, &helper, &names) {
            let key_ok = is_point(&p.as_bytes()[..32]);
            let sig = if key_ok { "C32:accessor-panics-on-accepted-packet" } else { "C32:unchecked-constructor-accepts-non-point-key" };
            return Outcome::violation(sig, format!("{ctor} returned Ok (key is a curve point: {key_ok}); then {what}"));
        }
    }
    Outcome::pass(any)
}

pub fn fuzz_wire_seeds() -> Vec<Vec<u8>> {
    let p = SignedPacket::from_txt_strings(&SecretKey::from_bytes(&[5u8; 32]), "_iroh", ["relay=https://r.example/", "addr=1.2.3.4:5"], 30).expect("builds");
    let mut bad_key = p.as_bytes().to_vec();
    bad_key[..32].copy_from_slice(&{ let mut b = [0u8; 32]; b[0] = 2; b });
    vec![p.as_bytes().to_vec(), bad_key, sign_packet(&[6u8; 32], 77, &[])]
}

pub fn run(ctx: &Ctx) {
    ctx.rule("cases: a packet signed by the harness (ed25519-dalek, own BEP44 signable) over a DNS payload from an independent writer (well-formed replies with TXT/A/AAAA/CNAME records under _iroh/zone/other names, and hostile ones: compression pointers anywhere, wrong section counts, label and rdata lengths, raw rdata, byte edits), any timestamp; one modification (1-3 bit flips anywhere, truncation, extension, key swapped for another valid key, signature by another key, timestamp +-1, payload or header transplanted from another packet of the same key, key bytes replaced by a 32-byte candidate that is often not a curve point); from_parts_unchecked with arbitrary slice lengths; second part: packets built by from_txt_strings from arbitrary names and values; non-trivial = the modified packet's DNS payload still parses, or a non-point key is offered to the constructors, or a hostile DNS payload parses (and is therefore accepted and inspected)");
    ctx.assume("'the payload parses' is decided by simple_dns::Packet::parse, the parser the statement refers to; a forged signature verifying by chance is not considered");
    let k = ctx.tier.pick(1, 10);
    ctx.explore("packets", ExploreOpts::new(48_000 * k), case_strategy, oracle);
    ctx.explore("built", ExploreOpts::new(12_000 * k), build_strategy, build_oracle);
    ctx.fuzz_campaign("c32_wire", ctx.tier.pick(0, 1_500_000), 1200, fuzz_wire_seeds(), &fuzz_wire);
}
