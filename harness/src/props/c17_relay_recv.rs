//! C17 — the relay receive path delivers datagrams in order and never wedges.
//!
//! The harness plays both neighbours of `RelayTransport::poll_recv`: the relay actor
//! (pushing batches into the receive queue) and QUIC (polling with a counting waker and
//! obeying the `AsyncUdpSocket` contract: after `Pending`, poll again only when woken).

use std::{
    io::IoSliceMut,
    num::NonZeroU16,
    sync::{
        Arc,
        atomic::{AtomicUsize, Ordering},
    },
    task::{Context, Poll, Wake, Waker},
};

use bytes::Bytes;
use iroh::verif::socket::VerifRelayTransport;
use iroh_base::{EndpointId, RelayUrl, SecretKey};
use iroh_relay::protos::relay::Datagrams;
use noq::udp::RecvMeta;
use proptest::prelude::*;
use serde::{Deserialize, Serialize};

use crate::{
    engine::{Ctx, ExploreOpts, Outcome},
    support::gens::{self, Payload},
};

#[derive(Debug, Clone, Serialize, Deserialize)]
struct Batch {
    src: u8,
    url: u8,
    contents: Payload,
    segment_size: Option<u16>,
    ecn: u8,
}

#[derive(Debug, Clone, Serialize, Deserialize)]
enum Step {
    Push(Batch),
    Poll { nbufs: u8 },
}

#[derive(Debug, Clone, Serialize, Deserialize)]
struct Case {
    buf_len: usize,
    steps: Vec<Step>,
    /// number of buffers offered per poll in the drain phase
    drain_nbufs: u8,
}

fn buf_len_strategy() -> impl Strategy<Value = usize> {
    prop_oneof![
        4 => 64usize..=2048,
        2 => prop::sample::select(vec![64usize, 100, 1200, 1280, 1472, 1500, 2048]),
        1 => Just(65535usize),
    ]
}

/// Raw batch parameters; resolved against the case's buffer length by `resolve`.
#[derive(Debug, Clone)]
struct RawBatch {
    src: u8,
    url: u8,
    fill: u8,
    ecn: u8,
    len_kind: u8,
    len_raw: u16,
    seg_kind: u8,
    seg_raw: u16,
}

fn raw_batch() -> impl Strategy<Value = RawBatch> {
    (0u8..3, 0u8..2, any::<u8>(), 0u8..4, 0u8..10, any::<u16>(), 0u8..14, any::<u16>()).prop_map(
        |(src, url, fill, ecn, len_kind, len_raw, seg_kind, seg_raw)| RawBatch { src, url, fill, ecn, len_kind, len_raw, seg_kind, seg_raw },
    )
}

fn resolve(r: &RawBatch, buf: usize) -> Batch {
    let b = buf.min(6000);
    // contents length 1..=6000, dense around the buffer length and its multiples
    let len = match r.len_kind {
        0 => 1 + (r.len_raw as usize % 64),
        1 => b,
        2 => b + 1,
        3 => b.saturating_sub(1).max(1),
        4 => (2 * b).min(6000),
        5 => (3 * b + r.len_raw as usize % 7).min(6000),
        6 => 1 + r.len_raw as usize % b.max(1),
        _ => 1 + r.len_raw as usize % 6000,
    }
    .clamp(1, 6000);
    let b16 = buf.min(65535) as u32;
    let seg: Option<u32> = match r.seg_kind {
        0 | 1 => None,
        2 => Some(1 + r.seg_raw as u32 % 16),
        3 => Some(b16),
        4 => Some(b16 + 1),
        5 => Some(b16.saturating_sub(1)),
        6 => Some(b16 / 2),
        7 => Some(b16 / 3 + 1),
        // larger than the buffer, but smaller than the contents where possible
        8 => Some(b16 + 1 + r.seg_raw as u32 % 64),
        9 => Some((len as u32 / 2).max(b16 + 1)),
        10 => Some(len as u32),
        11 => Some(len as u32 + 1),
        12 => Some(65535),
        _ => Some(1 + r.seg_raw as u32),
    };
    let segment_size = seg.map(|s| s.clamp(1, 65535) as u16);
    Batch { src: r.src, url: r.url, contents: Payload { len, fill: r.fill }, segment_size, ecn: r.ecn }
}

fn strategy() -> impl Strategy<Value = Case> {
    #[derive(Debug, Clone)]
    enum RawStep {
        Push(RawBatch),
        Poll(u8),
    }
    let step = prop_oneof![
        3 => raw_batch().prop_map(RawStep::Push),
        2 => (1u8..=8).prop_map(RawStep::Poll),
    ];
    (buf_len_strategy(), proptest::collection::vec(step, 1..24), 1u8..=8).prop_map(|(buf_len, raw, drain_nbufs)| Case {
        buf_len,
        steps: raw
            .iter()
            .map(|s| match s {
                RawStep::Push(r) => Step::Push(resolve(r, buf_len)),
                RawStep::Poll(n) => Step::Poll { nbufs: *n },
            })
            .collect(),
        drain_nbufs,
    })
}

struct CountingWaker(AtomicUsize);

impl Wake for CountingWaker {
    fn wake(self: Arc<Self>) {
        self.0.fetch_add(1, Ordering::SeqCst);
    }
    fn wake_by_ref(self: &Arc<Self>) {
        self.0.fetch_add(1, Ordering::SeqCst);
    }
}

fn src_id(i: u8) -> EndpointId {
    let mut b = [0x17u8; 32];
    b[0] = i;
    SecretKey::from_bytes(&b).public()
}

fn url(i: u8) -> RelayUrl {
    ["https://relay-one.example./", "https://relay-two.example./"][i as usize % 2].parse().expect("url")
}

/// One datagram as QUIC sees it.
#[derive(Debug, Clone, PartialEq, Eq)]
struct Dgram {
    src: u8,
    url: u8,
    bytes: Vec<u8>,
}

fn short(d: &Dgram) -> String {
    format!("(src{} url{} len {} head {})", d.src, d.url, d.bytes.len(), gens::hex_lower(&d.bytes[..d.bytes.len().min(4)]))
}

/// Reference: the datagrams of a batch, cut every `segment_size` bytes.
fn cut(b: &Batch) -> Vec<Dgram> {
    let bytes = b.contents.bytes();
    let pieces: Vec<Vec<u8>> = match b.segment_size {
        None => vec![bytes],
        Some(s) => bytes.chunks(s as usize).map(|c| c.to_vec()).collect(),
    };
    pieces.into_iter().map(|bytes| Dgram { src: b.src, url: b.url, bytes }).collect()
}

const QUEUE_CAPACITY: usize = 512;

fn run_case(c: &Case) -> Outcome {
    if c.buf_len == 0 || c.steps.is_empty() {
        return Outcome::Excluded("degenerate case");
    }
    for s in &c.steps {
        if let Step::Push(b) = s {
            if b.contents.len == 0 || b.segment_size == Some(0) {
                return Outcome::Excluded("empty batch / zero segment size (outside the domain)");
            }
        }
    }
    let rt = tokio::runtime::Builder::new_current_thread().build().expect("runtime");
    let guard = rt.enter();
    let mut transport = VerifRelayTransport::new(QUEUE_CAPACITY, 16);
    drop(guard);

    let ids: Vec<EndpointId> = (0..3).map(src_id).collect();
    let urls: Vec<RelayUrl> = (0..2).map(url).collect();
    let wake_count = Arc::new(CountingWaker(AtomicUsize::new(0)));
    let waker = Waker::from(wake_count.clone());
    let mut cx = Context::from_waker(&waker);

    let max_bufs = 8usize;
    let mut storage: Vec<Vec<u8>> = (0..max_bufs).map(|_| vec![0u8; c.buf_len]).collect();

    let mut expected: Vec<Dgram> = vec![]; // every datagram that fits, in arrival order
    let mut dropped_expected = 0usize; // datagrams that do not fit
    let mut delivered: Vec<Dgram> = vec![];
    // contract state
    let mut blocked = false; // last poll returned Pending ...
    let mut wakes_at_pending = 0usize; // ... when the wake counter had this value
    let mut polls = 0usize;
    let mut ready_polls = 0usize;
    let mut skipped_polls = 0usize;
    let mut pending_polls = 0usize;
    let mut pending_with_queued_input = 0usize;
    let mut queued_batches = 0usize; // pushed and not yet known to be consumed (upper bound)

    // one poll; Err = violation
    let mut do_poll = |transport: &mut VerifRelayTransport,
                       nbufs: usize,
                       delivered: &mut Vec<Dgram>,
                       expected: &Vec<Dgram>,
                       cx: &mut Context|
     -> Result<Poll<usize>, (String, String)> {
        let mut metas = vec![RecvMeta::default(); nbufs];
        for s in storage.iter_mut().take(nbufs) {
            s.fill(0xEE);
        }
        let res = {
            let mut bufs: Vec<IoSliceMut<'_>> = storage.iter_mut().take(nbufs).map(|s| IoSliceMut::new(&mut s[..])).collect();
            transport.poll_recv(cx, &mut bufs, &mut metas)
        };
        match res {
            Poll::Pending => Ok(Poll::Pending),
            Poll::Ready(Err(e)) => Err(("C17:unexpected-error".into(), format!("poll_recv returned an error while the queue is open: {e}"))),
            Poll::Ready(Ok(sources)) => {
                let n = sources.len();
                if n == 0 || n > nbufs {
                    return Err(("C17:bad-count".into(), format!("poll_recv returned Ready({n}) for {nbufs} buffers")));
                }
                for i in 0..n {
                    let meta = &metas[i];
                    let Some((u, id)) = &sources[i] else {
                        return Err(("C17:wrong-source".into(), format!("slot {i}: receive info is not a relay address")));
                    };
                    let src = ids.iter().position(|x| x == id);
                    let ur = urls.iter().position(|x| x == u);
                    let (Some(src), Some(ur)) = (src, ur) else {
                        return Err(("C17:wrong-source".into(), format!("slot {i}: unknown source {u} {}", id.fmt_short())));
                    };
                    if meta.len > c.buf_len {
                        return Err(("C17:overflow".into(), format!("slot {i}: meta.len {} exceeds the buffer length {}", meta.len, c.buf_len)));
                    }
                    let data = &storage[i][..meta.len];
                    let pieces: Vec<&[u8]> = if meta.len == 0 {
                        vec![&data[..0]] // QUIC is handed one zero-length datagram
                    } else if meta.stride == 0 {
                        return Err(("C17:bad-stride".into(), format!("slot {i}: stride 0 with len {}", meta.len)));
                    } else {
                        data.chunks(meta.stride).collect()
                    };
                    for p in pieces {
                        let d = Dgram { src: src as u8, url: ur as u8, bytes: p.to_vec() };
                        let idx = delivered.len();
                        match expected.get(idx) {
                            Some(e) if *e == d => delivered.push(d),
                            other => {
                                let sig = if d.bytes.is_empty() { "C17:zero-segments-wedge" } else { "C17:delivery-mismatch" };
                                return Err((
                                    sig.into(),
                                    format!(
                                        "datagram #{idx} handed to QUIC is {} (slot {i}, meta.len {}, stride {}), expected {}",
                                        short(&d),
                                        meta.len,
                                        meta.stride,
                                        other.map(short).unwrap_or_else(|| "nothing (all fitting datagrams already delivered)".into())
                                    ),
                                ));
                            }
                        }
                    }
                }
                Ok(Poll::Ready(n))
            }
        }
    };

    let mut nontrivial_seg_gt_buf = false;
    let mut nontrivial_oversize_then_fit = false;
    let mut last_was_oversize = false;
    let mut classes: Vec<&'static str> = vec![];
    let class = |c: &'static str, classes: &mut Vec<&'static str>| {
        if !classes.contains(&c) {
            classes.push(c);
        }
    };

    for step in &c.steps {
        match step {
            Step::Push(b) => {
                let seg = b.segment_size.and_then(NonZeroU16::new);
                let d = Datagrams { ecn: noq::EcnCodepoint::from_bits(b.ecn), segment_size: seg, contents: Bytes::from(b.contents.bytes()) };
                if !transport.push(urls[b.url as usize % 2].clone(), ids[b.src as usize % 3], d) {
                    class("queue-full-push-dropped", &mut classes);
                    continue; // the actor drops it too
                }
                queued_batches += 1;
                for dg in cut(b) {
                    if dg.bytes.len() <= c.buf_len {
                        if last_was_oversize {
                            nontrivial_oversize_then_fit = true;
                        }
                        last_was_oversize = false;
                        expected.push(dg);
                    } else {
                        dropped_expected += 1;
                        last_was_oversize = true;
                    }
                }
                if let Some(s) = b.segment_size {
                    if s as usize > c.buf_len {
                        nontrivial_seg_gt_buf = true;
                        class("segment>buffer", &mut classes);
                        if b.contents.len > s as usize {
                            class("segment>buffer,contents>segment", &mut classes);
                        }
                    } else if b.contents.len > c.buf_len {
                        class("segment<=buffer<contents", &mut classes);
                    }
                } else if b.contents.len > c.buf_len {
                    class("single-oversize", &mut classes);
                }
            }
            Step::Poll { nbufs } => {
                let nbufs = (*nbufs as usize).clamp(1, max_bufs);
                if blocked {
                    if wake_count.0.load(Ordering::SeqCst) == wakes_at_pending {
                        skipped_polls += 1;
                        continue; // not woken: QUIC does not poll
                    }
                    blocked = false;
                }
                polls += 1;
                // wakes that happen during the poll itself (self-wake) count as wake-ups
                let wakes_before = wake_count.0.load(Ordering::SeqCst);
                match do_poll(&mut transport, nbufs, &mut delivered, &expected, &mut cx) {
                    Err((sig, detail)) => return Outcome::violation(sig, detail),
                    Ok(Poll::Pending) => {
                        pending_polls += 1;
                        if delivered.len() < expected.len() {
                            pending_with_queued_input += 1;
                        }
                        blocked = true;
                        wakes_at_pending = wakes_before;
                    }
                    Ok(Poll::Ready(_)) => ready_polls += 1,
                }
            }
        }
    }

    // ---- drain: QUIC keeps polling while it is allowed to ----
    let bound = expected.len() + dropped_expected + queued_batches + c.steps.len() + 16;
    let mut drain_polls = 0usize;
    let drain_nbufs = (c.drain_nbufs as usize).clamp(1, max_bufs);
    loop {
        if blocked {
            if wake_count.0.load(Ordering::SeqCst) == wakes_at_pending {
                break;
            }
            blocked = false;
        }
        drain_polls += 1;
        if drain_polls > bound {
            return Outcome::violation(
                "C17:no-progress",
                format!(
                    "{drain_polls} polls in the drain phase without reaching a quiescent state ({} of {} datagrams delivered)",
                    delivered.len(),
                    expected.len()
                ),
            );
        }
        let wakes_before = wake_count.0.load(Ordering::SeqCst);
        match do_poll(&mut transport, drain_nbufs, &mut delivered, &expected, &mut cx) {
            Err((sig, detail)) => return Outcome::violation(sig, detail),
            Ok(Poll::Pending) => {
                pending_polls += 1;
                blocked = true;
                wakes_at_pending = wakes_before;
            }
            Ok(Poll::Ready(_)) => ready_polls += 1,
        }
    }
    // QUIC is now parked: Pending returned and no wake-up arrived.  A new arrival must wake it,
    // and everything that fits must come out, in order (a datagram still missing now and
    // overtaken by the probe was lost; no wake-up at all is starvation).
    let missing = expected.len() - delivered.len();
    let probe = Batch { src: 0, url: 0, contents: Payload { len: 1, fill: 0xA5 }, segment_size: None, ecn: 0 };
    let before = wake_count.0.load(Ordering::SeqCst);
    let ok = transport.push(urls[0].clone(), ids[0], Datagrams { ecn: None, segment_size: None, contents: Bytes::from(probe.contents.bytes()) });
    if !ok {
        // queue full: only possible if nothing was consumed
        if missing > 0 {
            return Outcome::violation(
                "C17:pending-without-waker",
                format!("poll_recv returned Pending and no wake-up was ever delivered, but {missing} fitting datagram(s) are still queued (next: {})", short(&expected[delivered.len()])),
            );
        }
    } else {
        if wake_count.0.load(Ordering::SeqCst) == before {
            return Outcome::violation(
                "C17:pending-without-waker",
                if missing > 0 {
                    format!(
                        "poll_recv returned Pending without a registered wake-up: {missing} fitting datagram(s) are still queued (next: {}), {} delivered, and a newly arriving batch does not wake QUIC either",
                        short(&expected[delivered.len()]),
                        delivered.len()
                    )
                } else {
                    "parked after Pending on an empty queue, a new batch arrived and QUIC was not woken".to_string()
                },
            );
        }
        expected.extend(cut(&probe));
        let mut extra_polls = 0usize;
        blocked = false;
        loop {
            if blocked {
                if wake_count.0.load(Ordering::SeqCst) == wakes_at_pending {
                    break;
                }
                blocked = false;
            }
            extra_polls += 1;
            if extra_polls > bound {
                return Outcome::violation("C17:no-progress", format!("{extra_polls} polls after the probe batch without reaching a quiescent state"));
            }
            let wakes_before = wake_count.0.load(Ordering::SeqCst);
            match do_poll(&mut transport, 1, &mut delivered, &expected, &mut cx) {
                Err((sig, detail)) => return Outcome::violation(sig, detail),
                Ok(Poll::Pending) => {
                    blocked = true;
                    wakes_at_pending = wakes_before;
                }
                Ok(Poll::Ready(_)) => {}
            }
        }
        if delivered.len() != expected.len() {
            return Outcome::violation(
                "C17:pending-without-waker",
                format!("woken for a new 1-byte datagram, but QUIC is parked again with {} of {} datagrams delivered", delivered.len(), expected.len()),
            );
        }
    }
    drop(transport);
    drop(rt);

    if polls > 0 && ready_polls > 0 && pending_polls > 0 {
        class("ready-and-pending-polls", &mut classes);
    }
    if skipped_polls > 0 {
        class("polls-skipped-while-parked", &mut classes);
    }
    if pending_with_queued_input > 0 {
        class("pending-with-fitting-input-queued", &mut classes);
    }
    if dropped_expected > 0 {
        class("some-dropped", &mut classes);
    }
    if nontrivial_oversize_then_fit {
        class("oversize-then-fitting", &mut classes);
    }
    if expected.len() >= 10 {
        class("delivered>=10", &mut classes);
    }
    Outcome::pass_with(nontrivial_seg_gt_buf || nontrivial_oversize_then_fit, classes)
}

pub fn run(ctx: &Ctx) {
    ctx.rule("scripts of 1..24 steps Push(src, url, batch) / Poll(1..8 buffers) with one buffer length per case (64..2048, common MTUs, 65535); batch contents 1..6000 bytes, segment size none / 1..65535 chosen relative to the buffer and contents (equal, +-1, half, larger than buffer but smaller than contents, larger than contents, 65535); then a drain phase polling while QUIC is runnable; QUIC model: after Pending it polls again only if its waker was woken; reference: every datagram (contents cut every segment_size bytes) of every queued batch with length <= buffer length, in arrival order, exactly once, with its (url, src); finally a probe batch must wake and reach QUIC; non-trivial = a batch whose segment size exceeds the buffer, or an oversize datagram followed by a fitting one");
    ctx.assume("batches with empty contents are outside the domain (whether they carry a datagram is not defined); all buffers of a poll have the same length, as in noq");
    ctx.assume("polls run outside a tokio task, so tokio's cooperative budget never makes the queue return Pending spuriously");
    let k = ctx.tier.pick(1, 10);
    ctx.explore("scripts", ExploreOpts::new(40_000 * k), strategy, run_case);
}
