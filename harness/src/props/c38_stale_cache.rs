//! C38 — DNS answers never go back behind an acknowledged publish.
//!
//! Schedule enumeration over the pause points in `ZoneStore::resolve` (after the cache miss,
//! after the store read) and `ZoneStore::insert` (after the upsert, before the cache
//! invalidation), on an in-memory redb database (hook `verif::ZoneStoreHandle`).

use std::sync::{Arc, Once};

use iroh_dns::pkarr::SignedPacket;
use iroh_dns_server::verif::ZoneStoreHandle;
use serde::{Deserialize, Serialize};
use tokio::sync::{Semaphore, mpsc};

use crate::{
    engine::{self, Ctx, Outcome},
    support::dnssrv::{self, RD, Rec, T0, TYPE_TXT},
};

#[derive(Debug, Clone, Serialize, Deserialize)]
struct Case {
    seed: u64,
    /// 0 = the answer cache is empty, 1 = it holds the old zone (a lookup ran before)
    cache_filled: bool,
    /// how the published packets compare with the old one, per publisher:
    /// 0 newer timestamp, 1 same timestamp and larger payload, 2 older timestamp (not an update)
    kinds: Vec<u8>,
    /// which task gets the next step: 0 = the lookup, 1.. = publisher i-1.  A task that is
    /// already finished is skipped; tasks still running after the list are completed in order.
    schedule: Vec<u8>,
    /// the key has no packet at all before the schedule (first publish overlapping a lookup);
    /// index 0 of the packet list then stands for "nothing published"
    #[serde(default)]
    no_old: bool,
}

/// Event from a task to the controller.
enum Ev {
    Paused(usize, String),
    Finished(usize, TaskResult),
}

enum TaskResult {
    Resolved(Option<Vec<Vec<u8>>>),
    Inserted(bool),
    Failed(String),
}

struct Ctl {
    gates: Vec<Arc<Semaphore>>,
    tx: mpsc::UnboundedSender<Ev>,
}

tokio::task_local! {
    static TASK: (usize, Arc<Ctl>);
}

static INSTALL: Once = Once::new();

/// The process-wide async pause handler: tasks that carry the task-local report the point and
/// wait for the controller's permission; everything else passes straight through.
fn install_handler() {
    INSTALL.call_once(|| {
        iroh_base::verif_hooks::set_async_handler(Some(Arc::new(|name: &str, _detail: &str| {
            if !name.starts_with("zone:") {
                return None;
            }
            let (id, ctl) = TASK.try_with(|t| t.clone()).ok()?;
            let name = name.to_string();
            Some(Box::pin(async move {
                let _ = ctl.tx.send(Ev::Paused(id, name));
                ctl.gates[id].acquire().await.expect("gate open").forget();
            }) as iroh_base::verif_hooks::PointFuture)
        })));
    });
}

struct Pk {
    ts: u64,
    dns: Vec<u8>,
    txt: String,
    packet: SignedPacket,
}

fn make_packet(sk: &iroh_base::SecretKey, z: &str, ts: u64, txt: &str) -> Pk {
    let recs = vec![Rec { owner: format!("_iroh.{z}"), ttl: 30, rd: RD::Txt(txt.to_string()) }];
    let dns = dnssrv::build_dns(&recs, true);
    let payload = dnssrv::sign_payload(sk, ts, &dns);
    let packet = SignedPacket::from_bytes(&dnssrv::full_packet(sk.public().as_bytes(), &payload)).expect("harness-signed packet verifies");
    Pk { ts, dns, txt: txt.to_string(), packet }
}

/// Rank of an observed answer: index into `all` of the packet whose TXT it shows.
thread_local! { static NO_OLD: std::cell::Cell<bool> = const { std::cell::Cell::new(false) }; }

fn which(all: &[&Pk], answer: &Option<Vec<Vec<u8>>>) -> Option<usize> {
    if NO_OLD.with(|n| n.get()) && answer.as_ref().is_none_or(|a| a.is_empty()) {
        // nothing published yet: a not-found answer is the "packet 0" of this case
        return Some(0);
    }
    let a = answer.as_ref()?;
    if a.len() != 1 {
        return None;
    }
    all.iter().position(|p| RD::Txt(p.txt.clone()).canon() == a[0])
}

fn at_least(all: &[&Pk], got: usize, bound: usize) -> bool {
    got == bound || dnssrv::newer((all[got].ts, &all[got].dns), (all[bound].ts, &all[bound].dns))
}

async fn resolve(store: &ZoneStoreHandle, pk: &[u8; 32]) -> TaskResult {
    match store.resolve_wire(pk, "_iroh", TYPE_TXT).await {
        Err(e) => TaskResult::Failed(format!("{e:?}")),
        Ok(None) => TaskResult::Resolved(None),
        Ok(Some(w)) => {
            let m = dnssrv::parse_msg(&w).expect("hook message parses");
            TaskResult::Resolved(Some(m.answers.into_iter().map(|r| r.2).collect()))
        }
    }
}

fn run_case(ctx: &Ctx, case: &Case) -> Outcome {
    install_handler();
    let npub = case.kinds.len();
    if npub == 0 || npub > 2 || case.schedule.iter().any(|&t| t as usize > npub) {
        return Outcome::Excluded("malformed case");
    }
    let sk = dnssrv::secret(case.seed, 0);
    let pk = *sk.public().as_bytes();
    let z = dnssrv::z32(&pk);
    // the old packet and the published ones; for "same timestamp" the texts are chosen so that
    // the published payload is the larger one
    let old = make_packet(&sk, &z, T0 + 10_000_000, "m-old");
    let news: Vec<Pk> = case
        .kinds
        .iter()
        .enumerate()
        .map(|(i, k)| match k % 3 {
            0 => make_packet(&sk, &z, T0 + 20_000_000 + i as u64, &format!("new{i}")),
            1 => make_packet(&sk, &z, old.ts, &format!("z-tie{i}")),
            _ => make_packet(&sk, &z, T0 + 5_000_000 + i as u64, &format!("stale{i}")),
        })
        .collect();
    let mut all: Vec<&Pk> = vec![&old];
    all.extend(news.iter());
    for (i, k) in case.kinds.iter().enumerate() {
        if k % 3 == 1 {
            assert!(dnssrv::newer((news[i].ts, &news[i].dns), (old.ts, &old.dns)), "tie payload must be larger");
        }
    }

    let no_old = case.no_old && case.kinds.iter().all(|k| k % 3 == 0);
    NO_OLD.with(|n| n.set(no_old));
    let known_stale = ctx.known("C38:stale-cache-fill");
    let mut classes: Vec<&'static str> = vec![];
    let mut window = false;
    let res: Result<(), (String, String)> = engine::real_rt(async {
        let store = ZoneStoreHandle::in_memory(dnssrv::quiet_store_config()).expect("in-memory zone store");
        let r = async {
            let first = if no_old { true } else { store.insert(old.packet.clone()).await.map_err(|e| ("C38:insert-failed".to_string(), format!("{e:?}")))? };
            if !first {
                return Err(("C38:first-publish-not-update".to_string(), "the first publish for a key was not reported as an update".to_string()));
            }
            if case.cache_filled {
                resolve(&store, &pk).await;
            }
            // newest packet acknowledged as an update so far (index into `all`; 0 = old)
            let mut acked: usize = 0;
            let (tx, mut rx) = mpsc::unbounded_channel();
            let ctl = Arc::new(Ctl { gates: (0..=npub).map(|_| Arc::new(Semaphore::new(0))).collect(), tx });
            let mut handles = vec![];
            for id in 0..=npub {
                let store = store.clone();
                let ctl2 = ctl.clone();
                let packet = if id > 0 { Some(news[id - 1].packet.clone()) } else { None };
                handles.push(tokio::spawn(TASK.scope((id, ctl.clone()), async move {
                    ctl2.gates[id].acquire().await.expect("gate open").forget();
                    let out = match packet {
                        None => resolve(&store, &pk).await,
                        Some(p) => match store.insert(p).await {
                            Ok(b) => TaskResult::Inserted(b),
                            Err(e) => TaskResult::Failed(format!("{e:?}")),
                        },
                    };
                    let _ = ctl2.tx.send(Ev::Finished(id, out));
                })));
            }
            let mut done = vec![false; npub + 1];
            let mut started = vec![false; npub + 1];
            // for the lookup: the newest acknowledged packet at the moment it started
            let mut bound_at_start = 0usize;
            let mut trace: Vec<String> = vec![];
            let mut lookup_read_before_upsert = false;
            let mut upsert_seen = false;
            let mut invalidated_after_read = false;
            let tail: Vec<u8> = (0..=npub as u8).collect();
            // the schedule, then whatever is unfinished, repeatedly
            let mut plan: Vec<u8> = case.schedule.clone();
            for _ in 0..4 {
                plan.extend(tail.iter().copied());
            }
            for tok in plan {
                let id = tok as usize;
                if done[id] {
                    continue;
                }
                if !started[id] {
                    started[id] = true;
                    if id == 0 {
                        bound_at_start = acked;
                    }
                }
                ctl.gates[id].add_permits(1);
                let ev = match tokio::time::timeout(std::time::Duration::from_secs(120), rx.recv()).await {
                    Ok(Some(ev)) => ev,
                    _ => {
                        eprintln!("HARNESS: C38 task {id} neither paused nor finished within 120 s; inconclusive");
                        std::process::exit(2);
                    }
                };
                match ev {
                    Ev::Paused(i, name) => {
                        assert_eq!(i, id, "only the granted task runs");
                        if (name == "zone:resolve:after_store_get" || name == "zone:resolve:after_store_miss") && !upsert_seen {
                            lookup_read_before_upsert = true;
                        }
                        if name == "zone:insert:after_upsert" {
                            upsert_seen = true;
                        }
                        trace.push(format!("{id}@{}", name.rsplit(':').next().unwrap_or("")));
                    }
                    Ev::Finished(i, out) => {
                        assert_eq!(i, id, "only the granted task runs");
                        done[id] = true;
                        match out {
                            TaskResult::Failed(e) => return Err(("C38:operation-failed".to_string(), format!("task {id}: {e}"))),
                            TaskResult::Inserted(updated) => {
                                trace.push(format!("{id}:insert={updated}"));
                                let me = id; // index into `all`
                                let kind = case.kinds[id - 1] % 3;
                                if kind == 2 && updated {
                                    return Err(("C38:older-publish-acknowledged".to_string(), format!("publisher {id} published an older packet and it was reported as an update; trace {trace:?}")));
                                }
                                if updated {
                                    if lookup_read_before_upsert && !done[0] {
                                        invalidated_after_read = true;
                                    }
                                    if at_least(&all, me, acked) {
                                        acked = me;
                                    }
                                }
                            }
                            TaskResult::Resolved(ans) => {
                                trace.push(format!("0:resolved={:?}", which(&all, &ans)));
                                let Some(got) = which(&all, &ans) else {
                                    return Err(("C38:answer-lost".to_string(), format!("the lookup returned {ans:?}; trace {trace:?}")));
                                };
                                if !at_least(&all, got, bound_at_start) {
                                    return Err(("C38:answer-behind-ack".to_string(), format!("a lookup started after the publish of {:?} was acknowledged returned {:?}; trace {trace:?}", all[bound_at_start].txt, all[got].txt)));
                                }
                                if invalidated_after_read {
                                    window = true;
                                }
                            }
                        }
                    }
                }
                if done.iter().all(|d| *d) {
                    break;
                }
            }
            for h in handles {
                let _ = h.await;
            }
            if !done.iter().all(|d| *d) {
                return Err(("C38:harness-schedule".to_string(), format!("tasks did not finish: {done:?} trace {trace:?}")));
            }
            // everything is acknowledged now; later reads must not go behind `acked`
            let stored = store.get_signed_packet(&pk).await.map_err(|e| ("C38:get-failed".to_string(), format!("{e:?}")))?;
            let stored_idx = match &stored {
                None if no_old => Some(0),
                s => s.as_ref().and_then(|s| all.iter().position(|p| p.packet.as_bytes() == s.as_bytes())),
            };
            match stored_idx {
                Some(i) if at_least(&all, i, acked) => {}
                other => {
                    return Err(("C38:store-behind-ack".to_string(), format!("after the publish of {:?} was acknowledged the stored packet is {:?}; trace {trace:?}", all[acked].txt, other.map(|i| all[i].txt.clone()))));
                }
            }
            for round in 0..2 {
                let TaskResult::Resolved(ans) = resolve(&store, &pk).await else {
                    return Err(("C38:operation-failed".to_string(), "follow-up lookup failed".to_string()));
                };
                match which(&all, &ans) {
                    Some(i) if at_least(&all, i, acked) => {}
                    other => {
                        let detail = format!(
                            "follow-up lookup {round} after the publish of {:?} was acknowledged as an update answers {:?} (packet store holds {:?}); schedule trace {trace:?}",
                            all[acked].txt,
                            other.map(|i| all[i].txt.clone()),
                            stored_idx.map(|i| all[i].txt.clone())
                        );
                        // the known stale fill: only when the lookup's store read preceded the upsert and
                        // its cache fill followed the invalidation; the packet store itself is up to date
                        if known_stale && window && stored_idx.is_some_and(|i| at_least(&all, i, acked)) {
                            ctx.note_known("C38:stale-cache-fill");
                            break;
                        }
                        return Err(("C38:stale-cache-fill".to_string(), detail));
                    }
                }
            }
            Ok(())
        }
        .await;
        drop(store);
        r
    });
    if no_old {
        classes.push("no-packet-before");
    }
    if case.cache_filled {
        classes.push("cache-initially-filled");
    } else {
        classes.push("cache-initially-empty");
    }
    if window {
        classes.push("window:read-before-upsert,fill-after-invalidation");
    }
    for k in &case.kinds {
        classes.push(match k % 3 {
            0 => "publish:newer-timestamp",
            1 => "publish:tie-larger-payload",
            _ => "publish:older(no update)",
        });
    }
    match res {
        Err((sig, detail)) => Outcome::violation(sig, detail),
        Ok(()) => Outcome::pass_with(window, classes),
    }
}

/// All distinct interleavings of `counts[i]` steps of task `i`.
fn interleavings(counts: &[usize]) -> Vec<Vec<u8>> {
    fn rec(left: &mut Vec<usize>, cur: &mut Vec<u8>, out: &mut Vec<Vec<u8>>) {
        if left.iter().all(|&c| c == 0) {
            out.push(cur.clone());
            return;
        }
        for i in 0..left.len() {
            if left[i] > 0 {
                left[i] -= 1;
                cur.push(i as u8);
                rec(left, cur, out);
                cur.pop();
                left[i] += 1;
            }
        }
    }
    let mut out = vec![];
    rec(&mut counts.to_vec(), &mut vec![], &mut out);
    out
}

fn cases(thorough: bool) -> Vec<Case> {
    let mut out = vec![];
    // one lookup (3 steps: cache check, store read, cache fill) x one publisher (2 steps: upsert, invalidation)
    for sched in interleavings(&[3, 2]) {
        for cache_filled in [false, true] {
            for kind in 0..3u8 {
                out.push(Case { seed: 38, cache_filled, kinds: vec![kind], schedule: sched.clone(), no_old: false });
                if kind == 0 {
                    out.push(Case { seed: 39, cache_filled, kinds: vec![kind], schedule: sched.clone(), no_old: true });
                }
            }
        }
    }
    // one lookup x two publishers
    let kind_pairs: &[(u8, u8)] = if thorough { &[(0, 0), (0, 1), (1, 0), (1, 1), (0, 2), (2, 0), (1, 2), (2, 1)] } else { &[(0, 0), (1, 1), (0, 1), (2, 0)] };
    for sched in interleavings(&[3, 2, 2]) {
        for cache_filled in [false, true] {
            for &(a, b) in kind_pairs {
                out.push(Case { seed: 3838, cache_filled, kinds: vec![a, b], schedule: sched.clone(), no_old: false });
                if (a, b) == (0, 0) {
                    out.push(Case { seed: 3839, cache_filled, kinds: vec![a, b], schedule: sched.clone(), no_old: true });
                }
            }
        }
    }
    out
}

pub fn run(ctx: &Ctx) {
    ctx.rule("one lookup task (steps: cache check | store read | cache fill) and one or two publisher tasks (steps: upsert | cache invalidation) for the same key, every interleaving of the steps x {cache empty, cache holding the old zone} x {newer timestamp, same timestamp larger payload, older packet}; then get_signed_packet and two follow-up lookups; oracle: a lookup that starts after insert returned true, and every later read, reflects a packet at least as recent as the acknowledged one; non-trivial = the lookup read the store before the upsert and filled the cache after the invalidation");
    ctx.assume("only the instrumented windows are scheduled; the packet store actor runs freely on its own thread");
    let all = cases(ctx.tier == engine::Tier::Thorough);
    // the pause handler finds its controller through a task-local, so cases can run in parallel
    ctx.enumerate_par("schedules", all, 8, |c| run_case(ctx, c));
}
