//! C06 — relay connection registry: newest connection wins, older ones resume.

use crate::engine::{Ctx, ExploreOpts};

use super::relay_history::{Focus, history, run_history};

pub fn run(ctx: &Ctx) {
    ctx.rule("histories biased to one endpoint id with up to many connections plus peers: register / client close (eof, error) / admin disconnect (by id, by connection id incl. stale ids) / sends in both directions; model = stack of open connections per id + sent_to sets; oracle after every settled step: traffic arrives on the model's top of stack, displaced connection reads SameEndpointIdConnected (V2) / Health (V1) exactly once, promoted one reads Healthy, EndpointGone exactly when the last connection of an id that had sent to the peer is gone, disconnect() result equals the model, final registry content equals the model; non-trivial = >=3 connections for one id with a promotion");
    ctx.assume("notices are asserted with queue room available (default queue depth 512, steps settle); connections shut down together by one bulk disconnect may or may not see intermediate promotion notices (unregister order among them is not specified)");
    let k = ctx.tier.pick(1, 10);
    ctx.explore("history", ExploreOpts::new(12_000 * k).shrink(400), || history(Focus::Registry, 30), |h| run_history(h, Focus::Registry, "C06"));
}
