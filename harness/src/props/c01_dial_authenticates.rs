//! C01 — dialing by public key authenticates the remote endpoint.
//!
//! Parts:
//! * `name`      — `tls::name::{encode,decode}` against an independent base32hex codec.
//! * `verifier`  — the certificate verifiers held by an endpoint's TLS configuration, fed
//!                 harness-built end-entity blobs / intermediates / server names.
//! * `signature` — the raw Ed25519 handshake signature verifier (and `verify_tls13_signature`
//!                 / `verify_tls12_signature` of both verifiers) against ed25519-dalek called
//!                 directly and against by-construction truth.
//! * `e2e`       — real loopback endpoints: dialing id D at the address of an endpoint
//!                 holding key P completes iff D == pub(P); remote ids on both sides.

use std::sync::Arc;

use curve25519_dalek::edwards::CompressedEdwardsY;
use ed25519_dalek::Signer;
use iroh::{
    Endpoint, EndpointAddr, EndpointId, SecretKey,
    verif_tls::{self, Verifiers},
};
use proptest::prelude::*;
use rustls::{
    DigitallySignedStruct,
    internal::msgs::codec::{Codec, Reader},
    pki_types::ServerName,
};
use serde::{Deserialize, Serialize};

use crate::{
    check,
    engine::{Ctx, ExploreOpts, Outcome},
    support::{
        e2e,
        gens::{self, Payload},
    },
};

// ---------------------------------------------------------------- independent references

const B32HEX: &[u8; 32] = b"0123456789abcdefghijklmnopqrstuv";

/// Independent base32hex (RFC 4648 §7, lower case, no padding) encoder.
fn b32hex(bytes: &[u8]) -> String {
    let mut out = String::new();
    let mut acc: u32 = 0;
    let mut bits = 0;
    for b in bytes {
        acc = (acc << 8) | *b as u32;
        bits += 8;
        while bits >= 5 {
            bits -= 5;
            out.push(B32HEX[((acc >> bits) & 31) as usize] as char);
        }
    }
    if bits > 0 {
        out.push(B32HEX[((acc << (5 - bits)) & 31) as usize] as char);
    }
    out
}

fn is_point(bytes: &[u8; 32]) -> bool {
    CompressedEdwardsY(*bytes).decompress().is_some()
}

/// SubjectPublicKeyInfo of an Ed25519 key (RFC 8410), built by hand.
fn spki(key: &[u8]) -> Vec<u8> {
    let mut v = vec![0x30, 0x2a, 0x30, 0x05, 0x06, 0x03, 0x2b, 0x65, 0x70, 0x03, 0x21, 0x00];
    v.extend_from_slice(key);
    v
}

fn secret(seed: &[u8; 32]) -> SecretKey {
    SecretKey::from_bytes(seed)
}

// ---------------------------------------------------------------------------- part: name

#[derive(Debug, Clone, Serialize, Deserialize)]
enum Edit {
    FlipCase(u16),
    Replace(u16, char),
    Insert(u16, char),
    Delete(u16),
    /// insert a whole label at label position
    InsertLabel(u8, String),
    RemoveLabel(u8),
    SwapLabels(u8, u8),
    TrailingDot,
    LeadingDot,
    UpperAll,
    Truncate(u16),
    Append(String),
}

#[derive(Debug, Clone, Serialize, Deserialize)]
enum NameCase {
    /// round trip of a real key
    Key([u8; 32]),
    /// a valid name with edits applied
    Edited([u8; 32], Vec<Edit>),
    /// `<base32hex of arbitrary bytes>` + suffix variant
    RawLabel(Vec<u8>, u8),
    Arbitrary(String),
}

fn apply_edits(mut s: String, edits: &[Edit]) -> String {
    for e in edits {
        let chars: Vec<char> = s.chars().collect();
        let at = |p: u16| gens::pick(p, chars.len().max(1)).min(chars.len().saturating_sub(1));
        s = match e {
            Edit::FlipCase(p) if !chars.is_empty() => {
                let mut c = chars.clone();
                let i = at(*p);
                c[i] = if c[i].is_ascii_lowercase() { c[i].to_ascii_uppercase() } else { c[i].to_ascii_lowercase() };
                c.into_iter().collect()
            }
            Edit::Replace(p, ch) if !chars.is_empty() => {
                let mut c = chars.clone();
                let i = at(*p);
                c[i] = *ch;
                c.into_iter().collect()
            }
            Edit::Insert(p, ch) => {
                let mut c = chars.clone();
                let i = gens::pick(*p, c.len() + 1);
                c.insert(i, *ch);
                c.into_iter().collect()
            }
            Edit::Delete(p) if !chars.is_empty() => {
                let mut c = chars.clone();
                c.remove(at(*p));
                c.into_iter().collect()
            }
            Edit::InsertLabel(i, l) => {
                let mut labels: Vec<String> = s.split('.').map(|x| x.to_string()).collect();
                let i = (*i as usize).min(labels.len());
                labels.insert(i, l.clone());
                labels.join(".")
            }
            Edit::RemoveLabel(i) => {
                let mut labels: Vec<String> = s.split('.').map(|x| x.to_string()).collect();
                if labels.len() > 1 {
                    let i = (*i as usize) % labels.len();
                    labels.remove(i);
                }
                labels.join(".")
            }
            Edit::SwapLabels(i, j) => {
                let mut labels: Vec<String> = s.split('.').map(|x| x.to_string()).collect();
                let n = labels.len();
                labels.swap(*i as usize % n, *j as usize % n);
                labels.join(".")
            }
            Edit::TrailingDot => format!("{s}."),
            Edit::LeadingDot => format!(".{s}"),
            Edit::UpperAll => s.to_uppercase(),
            Edit::Truncate(p) => chars[..gens::pick(*p, chars.len() + 1)].iter().collect(),
            Edit::Append(x) => format!("{s}{x}"),
            _ => s,
        };
    }
    s
}

fn name_strategy() -> impl Strategy<Value = NameCase> {
    let ch = prop_oneof![
        5 => proptest::sample::select(b"0123456789abcdefghijklmnopqrstuvwxyzABCDEFGHIJKLMNOPQRSTUVWXYZ.-_= ".to_vec()).prop_map(|b| b as char),
        1 => any::<char>(),
    ];
    let label = prop_oneof![
        Just("iroh".to_string()),
        Just("invalid".to_string()),
        Just("".to_string()),
        Just("IROH".to_string()),
        "[a-v0-9]{0,8}",
    ];
    let edit = prop_oneof![
        2 => any::<u16>().prop_map(Edit::FlipCase),
        3 => (any::<u16>(), ch.clone()).prop_map(|(p, c)| Edit::Replace(p, c)),
        // the last character of the first label (position 51) carries 4 padding bits
        2 => (Just(52u16 * 993), ch.clone()).prop_map(|(p, c)| Edit::Replace(p, c)),
        2 => (any::<u16>(), ch.clone()).prop_map(|(p, c)| Edit::Insert(p, c)),
        2 => any::<u16>().prop_map(Edit::Delete),
        2 => (0u8..5, label.clone()).prop_map(|(i, l)| Edit::InsertLabel(i, l)),
        1 => (0u8..4).prop_map(Edit::RemoveLabel),
        1 => (0u8..4, 0u8..4).prop_map(|(i, j)| Edit::SwapLabels(i, j)),
        1 => Just(Edit::TrailingDot),
        1 => Just(Edit::LeadingDot),
        1 => Just(Edit::UpperAll),
        1 => any::<u16>().prop_map(Edit::Truncate),
        1 => prop_oneof![Just(".".to_string()), Just(".iroh.invalid".to_string()), Just("0".to_string()), Just("é".to_string()), "[a-z.]{1,4}"].prop_map(Edit::Append),
    ];
    prop_oneof![
        2 => gens::secret_bytes().prop_map(NameCase::Key),
        6 => (gens::secret_bytes(), proptest::collection::vec(edit, 1..4)).prop_map(|(k, e)| NameCase::Edited(k, e)),
        2 => (prop_oneof![
                4 => proptest::collection::vec(any::<u8>(), 32..=32),
                1 => proptest::collection::vec(any::<u8>(), 28..=36),
                1 => Just(vec![]),
              ], 0u8..6).prop_map(|(b, s)| NameCase::RawLabel(b, s)),
        1 => prop_oneof![".{0,80}", "[a-v0-9.]{0,70}", "[a-v0-9]{52}\\.(iroh|IROH|irob)\\.(invalid|INVALID|invalid\\.)"].prop_map(NameCase::Arbitrary),
    ]
}

/// The "only if" direction of the statement, for any string.
fn shape_ok(s: &str, k: &EndpointId) -> Result<(), String> {
    let labels: Vec<&str> = s.split('.').collect();
    if labels.len() != 3 {
        return Err(format!("{} labels", labels.len()));
    }
    if labels[1] != "iroh" || labels[2] != "invalid" {
        return Err(format!("suffix labels {:?}.{:?}", labels[1], labels[2]));
    }
    let want = b32hex(k.as_bytes());
    if labels[0].to_ascii_lowercase() != want {
        return Err(format!("first label {:?} is not base32hex of the key ({want})", labels[0]));
    }
    Ok(())
}

fn run_name(c: &NameCase) -> Outcome {
    let (s, from_key): (String, Option<EndpointId>) = match c {
        NameCase::Key(seed) => {
            let k = secret(seed).public();
            let s = verif_tls::name_encode(k);
            check!(s == format!("{}.iroh.invalid", b32hex(k.as_bytes())), "C01:name-encode-shape", "encode({k}) = {s:?}");
            check!(verif_tls::name_decode(&s) == Some(k), "C01:name-roundtrip", "decode(encode({k})) = {:?}", verif_tls::name_decode(&s));
            (s, Some(k))
        }
        NameCase::Edited(seed, edits) => {
            let k = secret(seed).public();
            (apply_edits(verif_tls::name_encode(k), edits), None)
        }
        NameCase::RawLabel(bytes, suffix) => {
            let l = b32hex(bytes);
            let s = match suffix {
                0 | 1 => format!("{l}.iroh.invalid"),
                2 => format!("{l}.iroh.invalid."),
                3 => format!("{l}.iroh"),
                4 => format!("{l}.invalid.iroh"),
                _ => format!("x.{l}.iroh.invalid"),
            };
            (s, None)
        }
        NameCase::Arbitrary(s) => (s.clone(), None),
    };
    let got = verif_tls::name_decode(&s);
    if let Some(k) = &got {
        if let Err(why) = shape_ok(&s, k) {
            return Outcome::violation("C01:name-decode-accepts-malformed", format!("decode({s:?}) = Some({k}) but {why}"));
        }
    }
    // canonical strings must decode (the locally derived name of every id is canonical)
    let labels: Vec<&str> = s.split('.').collect();
    let mut canonical = false;
    if labels.len() == 3 && labels[1] == "iroh" && labels[2] == "invalid" && labels[0].len() == 52 {
        // decode the first label with the independent codec by re-encoding candidates
        if let Some(bytes) = b32hex_decode(labels[0]) {
            if let Ok(arr) = <[u8; 32]>::try_from(bytes.as_slice()) {
                if is_point(&arr) && b32hex(&arr) == labels[0] {
                    canonical = true;
                    check!(
                        got.map(|k| *k.as_bytes()) == Some(arr),
                        "C01:name-decode-rejects-canonical",
                        "decode({s:?}) = {got:?}, expected the key with bytes {arr:02x?}"
                    );
                }
            }
        }
    }
    let mut classes = vec![];
    match (got.is_some(), from_key.is_some()) {
        (true, true) => classes.push("roundtrip"),
        (true, false) => classes.push(if canonical { "accepted-canonical" } else { "accepted-noncanonical-spelling" }),
        (false, _) => classes.push("rejected"),
    }
    Outcome::pass_with(from_key.is_none(), classes)
}

/// Independent strict lower-case base32hex decoder (no padding; trailing bits must be 0).
fn b32hex_decode(s: &str) -> Option<Vec<u8>> {
    let mut acc: u32 = 0;
    let mut bits = 0;
    let mut out = vec![];
    for c in s.bytes() {
        let v = B32HEX.iter().position(|x| *x == c)? as u32;
        acc = (acc << 5) | v;
        bits += 5;
        if bits >= 8 {
            bits -= 8;
            out.push(((acc >> bits) & 0xff) as u8);
        }
    }
    if bits >= 5 || acc & ((1 << bits) - 1) != 0 {
        return None;
    }
    Some(out)
}

// ------------------------------------------------------------------------ part: verifier

const POOL: usize = 4;

#[derive(Debug, Clone, Serialize, Deserialize)]
enum Ee {
    Spki(u8),
    /// SPKI of key with byte `pos` xored by `x` (pos < 12: prefix, else key)
    SpkiFlip(u8, u8, u8),
    SpkiTruncated(u8, u8),
    SpkiExtended(u8, Vec<u8>),
    /// the bare 32 key bytes
    RawKey(u8),
    /// an X.509-looking blob that embeds the SPKI
    X509Like(u8),
    Empty,
    Random(Vec<u8>),
}

#[derive(Debug, Clone, Serialize, Deserialize)]
enum Sn {
    Encode(u8),
    EncodeUpper(u8),
    Edited(u8, Vec<Edit>),
    Ip(bool),
    Other(String),
}

#[derive(Debug, Clone, Serialize, Deserialize)]
struct VerCase {
    ee: Ee,
    intermediates: Vec<Ee>,
    name: Sn,
}

fn pool_key(i: u8) -> SecretKey {
    e2e::key(i % POOL as u8)
}

fn ee_bytes(e: &Ee) -> Vec<u8> {
    match e {
        Ee::Spki(k) => spki(pool_key(*k).public().as_bytes()),
        Ee::SpkiFlip(k, pos, x) => {
            let mut v = spki(pool_key(*k).public().as_bytes());
            let i = *pos as usize % v.len();
            v[i] ^= (*x).max(1);
            v
        }
        Ee::SpkiTruncated(k, n) => {
            let v = spki(pool_key(*k).public().as_bytes());
            v[..(*n as usize % v.len())].to_vec()
        }
        Ee::SpkiExtended(k, extra) => {
            let mut v = spki(pool_key(*k).public().as_bytes());
            v.extend_from_slice(extra);
            v
        }
        Ee::RawKey(k) => pool_key(*k).public().as_bytes().to_vec(),
        Ee::X509Like(k) => {
            // SEQUENCE { SEQUENCE { [0] version, serial, alg, issuer, validity, subject, SPKI } .. }
            let inner = spki(pool_key(*k).public().as_bytes());
            let mut tbs = vec![0xa0, 0x03, 0x02, 0x01, 0x02, 0x02, 0x01, 0x01, 0x30, 0x05, 0x06, 0x03, 0x2b, 0x65, 0x70, 0x30, 0x00, 0x30, 0x00, 0x30, 0x00];
            tbs.extend_from_slice(&inner);
            let mut cert = vec![0x30, (tbs.len() + 2) as u8, 0x30, tbs.len() as u8];
            cert.extend_from_slice(&tbs);
            cert
        }
        Ee::Empty => vec![],
        Ee::Random(v) => v.clone(),
    }
}

fn ee_strategy() -> impl Strategy<Value = Ee> {
    prop_oneof![
        6 => (0u8..POOL as u8).prop_map(Ee::Spki),
        4 => (0u8..POOL as u8, 0u8..44, 1u8..=255).prop_map(|(k, p, x)| Ee::SpkiFlip(k, p, x)),
        1 => (0u8..POOL as u8, 0u8..44).prop_map(|(k, n)| Ee::SpkiTruncated(k, n)),
        1 => (0u8..POOL as u8, proptest::collection::vec(any::<u8>(), 1..4)).prop_map(|(k, e)| Ee::SpkiExtended(k, e)),
        1 => (0u8..POOL as u8).prop_map(Ee::RawKey),
        1 => (0u8..POOL as u8).prop_map(Ee::X509Like),
        1 => Just(Ee::Empty),
        1 => proptest::collection::vec(any::<u8>(), 0..60).prop_map(Ee::Random),
    ]
}

fn ver_strategy() -> impl Strategy<Value = VerCase> {
    let light_edit = prop_oneof![
        any::<u16>().prop_map(Edit::FlipCase),
        (any::<u16>(), proptest::sample::select(b"0123456789abcdefghijklmnopqrstuvwxyz".to_vec())).prop_map(|(p, c)| Edit::Replace(p, c as char)),
        (0u8..4, prop_oneof![Just("iroh".to_string()), Just("x".to_string())]).prop_map(|(i, l)| Edit::InsertLabel(i, l)),
        (0u8..4).prop_map(Edit::RemoveLabel),
        Just(Edit::TrailingDot),
        Just(Edit::UpperAll),
    ];
    let name = prop_oneof![
        8 => (0u8..POOL as u8).prop_map(Sn::Encode),
        1 => (0u8..POOL as u8).prop_map(Sn::EncodeUpper),
        3 => (0u8..POOL as u8, proptest::collection::vec(light_edit, 1..3)).prop_map(|(k, e)| Sn::Edited(k, e)),
        1 => any::<bool>().prop_map(Sn::Ip),
        1 => prop_oneof![Just("localhost".to_string()), Just("iroh.invalid".to_string()), Just("example.com".to_string())].prop_map(Sn::Other),
    ];
    (
        ee_strategy(),
        prop_oneof![5 => Just(vec![]), 2 => proptest::collection::vec(ee_strategy(), 1..=3)],
        name,
        any::<bool>(),
    )
        .prop_map(|(mut ee, intermediates, name, same_key)| {
            // half of the time present the key the name asks for
            if same_key {
                if let (Ee::Spki(k), Sn::Encode(n) | Sn::EncodeUpper(n) | Sn::Edited(n, _)) = (&mut ee, &name) {
                    *k = *n;
                }
            }
            VerCase { ee, intermediates, name }
        })
}

fn verifiers() -> Verifiers {
    Verifiers::new(e2e::key(9), Arc::new(rustls::crypto::ring::default_provider()))
}

fn run_verifier(c: &VerCase) -> Outcome {
    let v = verifiers();
    let ee = ee_bytes(&c.ee);
    let inter: Vec<Vec<u8>> = c.intermediates.iter().map(ee_bytes).collect();
    let name_str = match &c.name {
        Sn::Encode(k) => verif_tls::name_encode(pool_key(*k).public()),
        Sn::EncodeUpper(k) => verif_tls::name_encode(pool_key(*k).public()).to_uppercase().replace(".IROH.INVALID", ".iroh.invalid"),
        Sn::Edited(k, e) => apply_edits(verif_tls::name_encode(pool_key(*k).public()), e),
        Sn::Ip(v4) => if *v4 { "127.0.0.1".to_string() } else { "::1".to_string() },
        Sn::Other(s) => s.clone(),
    };
    // client side: only the absence of intermediates matters
    let client = v.verify_client_cert(&ee, &inter);
    check!(
        client.is_ok() == inter.is_empty(),
        "C01:client-cert-verifier",
        "verify_client_cert with {} intermediates returned {client:?}",
        inter.len()
    );
    let Ok(sn) = ServerName::try_from(name_str.clone()) else {
        // rustls refuses the string as a server name before any verifier is consulted
        return Outcome::Excluded("not a rustls server name");
    };
    let dialed: Option<EndpointId> = match &sn {
        ServerName::DnsName(d) => {
            let got = verif_tls::name_decode(d.as_ref());
            if let Some(k) = &got {
                if let Err(why) = shape_ok(d.as_ref(), k) {
                    return Outcome::violation("C01:name-decode-accepts-malformed", format!("decode({:?}) = Some({k}) but {why}", d.as_ref()));
                }
            }
            got
        }
        _ => None,
    };
    let want = match &dialed {
        Some(d) => inter.is_empty() && ee == spki(d.as_bytes()),
        None => false,
    };
    let got = v.verify_server_cert(&ee, &inter, &sn);
    if got.is_ok() != want {
        let sig = if got.is_ok() { "C01:server-cert-accepted" } else { "C01:server-cert-rejected" };
        return Outcome::violation(
            sig,
            format!(
                "verify_server_cert(ee={:02x?}, {} intermediates, name={name_str:?}) = {got:?}, expected ok={want} (name decodes to {dialed:?})",
                ee,
                inter.len()
            ),
        );
    }
    let mut classes = vec![];
    if want {
        classes.push("accepted");
    } else if dialed.is_none() {
        classes.push("rejected-name");
    } else if !inter.is_empty() && ee == spki(dialed.unwrap().as_bytes()) {
        classes.push("rejected-only-for-intermediates");
    } else if matches!(c.ee, Ee::Spki(_)) {
        classes.push("rejected-other-key");
    } else {
        classes.push("rejected-malformed-ee");
    }
    Outcome::pass_with(!want, classes)
}

// ----------------------------------------------------------------------- part: signature

#[derive(Debug, Clone, Serialize, Deserialize)]
enum VKey {
    Signer,
    Other(u8),
    Flip(u8, u8),
    WrongLen(u8),
    SmallOrder(u8),
}

#[derive(Debug, Clone, Serialize, Deserialize)]
enum SigMut {
    None,
    Flip(u8, u8),
    /// S := S + L (non-canonical scalar)
    AddL,
    WrongLen(u8),
    Zero,
    /// R := identity, S := 0 (verifies under small-order keys without the strict checks)
    IdentityZero,
}

#[derive(Debug, Clone, Copy, PartialEq, Eq, Serialize, Deserialize)]
enum Via {
    Raw,
    Tls13Server,
    Tls13Client,
    Tls12Server,
    Tls12Client,
}

#[derive(Debug, Clone, Serialize, Deserialize)]
struct SigCase {
    signer: u8,
    key: VKey,
    msg: Payload,
    msg_flip: Option<(u16, u8)>,
    sig: SigMut,
    scheme: u16,
    via: Via,
}

const SMALL_ORDER: [[u8; 32]; 8] = [
    [1, 0, 0, 0, 0, 0, 0, 0, 0, 0, 0, 0, 0, 0, 0, 0, 0, 0, 0, 0, 0, 0, 0, 0, 0, 0, 0, 0, 0, 0, 0, 0],
    [0xec, 0xff, 0xff, 0xff, 0xff, 0xff, 0xff, 0xff, 0xff, 0xff, 0xff, 0xff, 0xff, 0xff, 0xff, 0xff, 0xff, 0xff, 0xff, 0xff, 0xff, 0xff, 0xff, 0xff, 0xff, 0xff, 0xff, 0xff, 0xff, 0xff, 0xff, 0x7f],
    [0; 32],
    [0, 0, 0, 0, 0, 0, 0, 0, 0, 0, 0, 0, 0, 0, 0, 0, 0, 0, 0, 0, 0, 0, 0, 0, 0, 0, 0, 0, 0, 0, 0, 0x80],
    [0xc7, 0x17, 0x6a, 0x70, 0x3d, 0x4d, 0xd8, 0x4f, 0xba, 0x3c, 0x0b, 0x76, 0x0d, 0x10, 0x67, 0x0f, 0x2a, 0x20, 0x53, 0xfa, 0x2c, 0x39, 0xcc, 0xc6, 0x4e, 0xc7, 0xfd, 0x77, 0x92, 0xac, 0x03, 0x7a],
    [0xc7, 0x17, 0x6a, 0x70, 0x3d, 0x4d, 0xd8, 0x4f, 0xba, 0x3c, 0x0b, 0x76, 0x0d, 0x10, 0x67, 0x0f, 0x2a, 0x20, 0x53, 0xfa, 0x2c, 0x39, 0xcc, 0xc6, 0x4e, 0xc7, 0xfd, 0x77, 0x92, 0xac, 0x03, 0xfa],
    [0x26, 0xe8, 0x95, 0x8f, 0xc2, 0xb2, 0x27, 0xb0, 0x45, 0xc3, 0xf4, 0x89, 0xf2, 0xef, 0x98, 0xf0, 0xd5, 0xdf, 0xac, 0x05, 0xd3, 0xc6, 0x33, 0x39, 0xb1, 0x38, 0x02, 0x88, 0x6d, 0x53, 0xfc, 0x05],
    [0x26, 0xe8, 0x95, 0x8f, 0xc2, 0xb2, 0x27, 0xb0, 0x45, 0xc3, 0xf4, 0x89, 0xf2, 0xef, 0x98, 0xf0, 0xd5, 0xdf, 0xac, 0x05, 0xd3, 0xc6, 0x33, 0x39, 0xb1, 0x38, 0x02, 0x88, 0x6d, 0x53, 0xfc, 0x85],
];

/// group order L, little endian
const L: [u8; 32] = [
    0xed, 0xd3, 0xf5, 0x5c, 0x1a, 0x63, 0x12, 0x58, 0xd6, 0x9c, 0xf7, 0xa2, 0xde, 0xf9, 0xde, 0x14, 0, 0, 0, 0, 0, 0, 0, 0, 0, 0, 0, 0, 0, 0, 0, 0x10,
];

fn sig_strategy() -> impl Strategy<Value = SigCase> {
    let key = prop_oneof![
        6 => Just(VKey::Signer),
        2 => (0u8..POOL as u8).prop_map(VKey::Other),
        2 => (0u8..32, 1u8..=255).prop_map(|(p, x)| VKey::Flip(p, x)),
        1 => prop_oneof![Just(0u8), Just(31), Just(33), Just(44), Just(64)].prop_map(VKey::WrongLen),
        1 => (0u8..8).prop_map(VKey::SmallOrder),
    ];
    let sig = prop_oneof![
        6 => Just(SigMut::None),
        3 => (0u8..64, 1u8..=255).prop_map(|(p, x)| SigMut::Flip(p, x)),
        1 => Just(SigMut::AddL),
        1 => prop_oneof![Just(0u8), Just(63), Just(65), Just(32)].prop_map(SigMut::WrongLen),
        1 => Just(SigMut::Zero),
        1 => Just(SigMut::IdentityZero),
    ];
    let scheme = prop_oneof![6 => Just(0x0807u16), 1 => Just(0x0808u16), 1 => Just(0x0403u16), 1 => Just(0x0804u16), 1 => any::<u16>()];
    let via = prop_oneof![
        4 => Just(Via::Raw),
        3 => Just(Via::Tls13Server),
        3 => Just(Via::Tls13Client),
        1 => Just(Via::Tls12Server),
        1 => Just(Via::Tls12Client),
    ];
    (
        0u8..POOL as u8,
        key,
        (0usize..120, any::<u8>()).prop_map(|(len, fill)| Payload { len, fill }),
        prop::option::weighted(0.25, (any::<u16>(), 1u8..=255)),
        sig,
        scheme,
        via,
    )
        .prop_map(|(signer, key, msg, msg_flip, sig, scheme, via)| SigCase { signer, key, msg, msg_flip, sig, scheme, via })
}

fn run_signature(c: &SigCase) -> Outcome {
    let sk = pool_key(c.signer);
    let signing = ed25519_dalek::SigningKey::from_bytes(&sk.to_bytes());
    let msg = c.msg.bytes();
    let sig0 = signing.sign(&msg).to_bytes();
    let signer_pub = signing.verifying_key().to_bytes();

    let key_bytes: Vec<u8> = match &c.key {
        VKey::Signer => signer_pub.to_vec(),
        VKey::Other(i) => pool_key(*i).public().as_bytes().to_vec(),
        VKey::Flip(p, x) => {
            let mut k = signer_pub;
            k[*p as usize % 32] ^= *x;
            k.to_vec()
        }
        VKey::WrongLen(n) => {
            let mut k = signer_pub.to_vec();
            k.resize(*n as usize, 7);
            k
        }
        VKey::SmallOrder(i) => SMALL_ORDER[*i as usize % 8].to_vec(),
    };
    let mut vmsg = msg.clone();
    let mut msg_changed = false;
    if let Some((p, x)) = c.msg_flip {
        if !vmsg.is_empty() {
            let i = gens::pick(p, vmsg.len());
            vmsg[i] ^= x;
            msg_changed = true;
        } else {
            vmsg.push(x);
            msg_changed = true;
        }
    }
    let sig: Vec<u8> = match &c.sig {
        SigMut::None => sig0.to_vec(),
        SigMut::Flip(p, x) => {
            let mut s = sig0;
            s[*p as usize % 64] ^= *x;
            s.to_vec()
        }
        SigMut::AddL => {
            let mut s = sig0;
            let mut carry = 0u16;
            for i in 0..32 {
                let t = s[32 + i] as u16 + L[i] as u16 + carry;
                s[32 + i] = t as u8;
                carry = t >> 8;
            }
            s.to_vec()
        }
        SigMut::WrongLen(n) => {
            let mut s = sig0.to_vec();
            s.resize(*n as usize, 0);
            s
        }
        SigMut::Zero => vec![0; 64],
        SigMut::IdentityZero => {
            let mut s = vec![0u8; 64];
            s[0] = 1;
            s
        }
    };

    // Reference 1: ed25519-dalek called directly, strict verification.
    let reference = (|| {
        let k: [u8; 32] = key_bytes.as_slice().try_into().ok()?;
        let vk = ed25519_dalek::VerifyingKey::from_bytes(&k).ok()?;
        let s = ed25519_dalek::Signature::from_slice(&sig).ok()?;
        vk.verify_strict(&vmsg, &s).ok()
    })()
    .is_some();
    // Reference 2: truth by construction — an untouched signature under the signer's key is
    // valid; every edit of key, message or signature invalidates it.
    let untouched = key_bytes == signer_pub && !msg_changed && sig == sig0;
    check!(reference == untouched, "C01:harness-reference-disagrees", "dalek says {reference}, construction says {untouched}: {c:?}");

    let v = verifiers();
    let (got, want, label): (bool, bool, &'static str) = match c.via {
        Via::Raw => (verif_tls::ed25519_verify(&key_bytes, &vmsg, &sig), reference, "raw"),
        Via::Tls13Server | Via::Tls13Client | Via::Tls12Server | Via::Tls12Client => {
            let mut enc = c.scheme.to_be_bytes().to_vec();
            enc.extend_from_slice(&(sig.len() as u16).to_be_bytes());
            enc.extend_from_slice(&sig);
            let dss = DigitallySignedStruct::read(&mut Reader::init(&enc)).expect("dss decodes");
            let cert = spki(&key_bytes);
            let server = matches!(c.via, Via::Tls13Server | Via::Tls12Server);
            if matches!(c.via, Via::Tls12Server | Via::Tls12Client) {
                (v.verify_tls12_signature(server, &vmsg, &cert, &dss).is_ok(), false, "tls12")
            } else {
                (
                    v.verify_tls13_signature(server, &vmsg, &cert, &dss).is_ok(),
                    reference && c.scheme == 0x0807,
                    "tls13",
                )
            }
        }
    };
    if got != want {
        return Outcome::violation(
            if got { "C01:signature-accepted" } else { "C01:signature-rejected" },
            format!("{label} verification returned {got}, expected {want}: key {key_bytes:02x?} sig {sig:02x?} scheme {:#06x} case {c:?}", c.scheme),
        );
    }
    let mut classes = vec![label];
    if want {
        classes.push("valid");
    } else {
        classes.push("invalid");
        match (&c.key, &c.sig) {
            (VKey::SmallOrder(_), SigMut::IdentityZero) => classes.push("small-order-key+identity-sig"),
            (_, SigMut::AddL) => classes.push("non-canonical-S"),
            _ => {}
        }
    }
    Outcome::pass_with(!want, classes)
}

// ----------------------------------------------------------------------------- part: e2e

#[derive(Debug, Clone, Serialize, Deserialize)]
struct E2eCase {
    /// key index held by the listening endpoint
    peer: u8,
    /// key index of the dialer (taken from a disjoint pool)
    dialer: u8,
    /// ids dialed, in order, at the listening endpoint's socket address
    dials: Vec<u8>,
}

fn e2e_strategy() -> impl Strategy<Value = E2eCase> {
    (0u8..POOL as u8, 0u8..3, proptest::collection::vec(0u8..POOL as u8, 1..=3))
        .prop_map(|(peer, dialer, dials)| E2eCase { peer, dialer, dials })
}

const E2E_ALPN: &[u8] = b"/verif/c01/1";

fn run_e2e(c: &E2eCase) -> Outcome {
    let c = c.clone();
    e2e::run(1, async move {
        let server = e2e::bind(e2e::builder().secret_key(pool_key(c.peer)).alpns(vec![E2E_ALPN.to_vec()])).await;
        let dialer_key = e2e::key(100 + c.dialer);
        let dialer = e2e::bind(e2e::builder().secret_key(dialer_key.clone())).await;
        // acceptor: echo one message on every accepted connection, log the remote id it sees
        let seen: Arc<std::sync::Mutex<Vec<EndpointId>>> = Arc::default();
        let accept_task = tokio::spawn({
            let server = server.clone();
            let seen = seen.clone();
            async move {
                while let Some(inc) = server.accept().await {
                    let seen = seen.clone();
                    tokio::spawn(async move {
                        let Ok(conn) = inc.await else { return };
                        seen.lock().unwrap().push(conn.remote_id());
                        if let Ok((mut s, mut r)) = conn.accept_bi().await {
                            if let Ok(m) = r.read_to_end(64).await {
                                let _ = s.write_all(&m).await;
                                let _ = s.finish();
                            }
                        }
                        conn.closed().await;
                    });
                }
            }
        });
        let addrs: Vec<_> = server.addr().ip_addrs().cloned().collect();
        let mut out = None;
        let mut classes = vec![];
        let mut negative = false;
        for (k, d) in c.dials.iter().enumerate() {
            let dialed = pool_key(*d).public();
            let honest = *d % POOL as u8 == c.peer % POOL as u8;
            let mut target = EndpointAddr::new(dialed);
            for a in &addrs {
                target = target.with_ip_addr(*a);
            }
            let seen_before = seen.lock().unwrap().len();
            let cap = if honest { 60_000 } else { 2_000 };
            let res = e2e::by(cap, dialer.connect(target, E2E_ALPN)).await;
            match res {
                Some(Ok(conn)) => {
                    if !honest {
                        out = Some(Outcome::violation(
                            "C01:connected-to-wrong-key",
                            format!("dial {k}: dialing {dialed} at the address of an endpoint holding {} completed (remote_id {})", server.id(), conn.remote_id()),
                        ));
                        break;
                    }
                    if conn.remote_id() != dialed {
                        out = Some(Outcome::violation("C01:remote-id-dialer", format!("dial {k}: dialed {dialed}, connection reports {}", conn.remote_id())));
                        break;
                    }
                    let rt = async {
                        let (mut s, mut r) = conn.open_bi().await.ok()?;
                        s.write_all(b"id?").await.ok()?;
                        s.finish().ok()?;
                        r.read_to_end(64).await.ok()
                    };
                    let echoed = e2e::within(60, "echo", rt).await;
                    if echoed.as_deref() != Some(b"id?") {
                        out = Some(Outcome::violation("C01:honest-connection-unusable", format!("dial {k}: echo {echoed:?}")));
                        break;
                    }
                    let ids: Vec<EndpointId> = seen.lock().unwrap()[seen_before..].to_vec();
                    if ids != vec![dialer_key.public()] {
                        out = Some(Outcome::violation(
                            "C01:remote-id-acceptor",
                            format!("dial {k}: acceptor saw remote ids {ids:?}, dialer holds {}", dialer_key.public()),
                        ));
                        break;
                    }
                    conn.close(0u32.into(), b"");
                    classes.push("honest-dial");
                }
                Some(Err(e)) => {
                    if honest {
                        let text = format!("{e:#}");
                        if text.contains("timed out") {
                            eprintln!("HARNESS: C01 honest dial timed out; inconclusive");
                            std::process::exit(2);
                        }
                        out = Some(Outcome::violation("C01:honest-dial-failed", format!("dial {k}: {text}")));
                        break;
                    }
                    negative = true;
                    classes.push("wrong-id-dial-error");
                }
                None => {
                    if honest {
                        eprintln!("HARNESS: C01 honest dial did not complete in 60 s; inconclusive");
                        std::process::exit(2);
                    }
                    negative = true;
                    classes.push("wrong-id-dial-no-connection-by-cap");
                }
            }
        }
        e2e::within(60, "dialer close", dialer.close()).await;
        e2e::within(60, "server close", server.close()).await;
        accept_task.abort();
        if let Some(o) = out {
            return o;
        }
        classes.sort();
        classes.dedup();
        Outcome::pass_with(negative, classes)
    })
}


// --------------------------------------------------------------------------- part: rogue
//
// A peer built directly on `noq` + `rustls` that *presents* the raw public key of C but signs
// the handshake with secret key S.  C == pub(S) is an honest plain-QUIC peer (positive control
// proving that the hand-built peer interoperates with iroh endpoints at all).

#[derive(Debug)]
struct RogueKey {
    present: [u8; 32],
    sign_with: ed25519_dalek::SigningKey,
}

impl rustls::sign::SigningKey for RogueKey {
    fn choose_scheme(&self, offered: &[rustls::SignatureScheme]) -> Option<Box<dyn rustls::sign::Signer>> {
        offered
            .contains(&rustls::SignatureScheme::ED25519)
            .then(|| Box::new(RogueSigner(self.sign_with.clone())) as Box<dyn rustls::sign::Signer>)
    }
    fn public_key(&self) -> Option<rustls::pki_types::SubjectPublicKeyInfoDer<'_>> {
        Some(rustls::pki_types::SubjectPublicKeyInfoDer::from(spki(&self.present)))
    }
    fn algorithm(&self) -> rustls::SignatureAlgorithm {
        rustls::SignatureAlgorithm::ED25519
    }
}

#[derive(Debug)]
struct RogueSigner(ed25519_dalek::SigningKey);

impl rustls::sign::Signer for RogueSigner {
    fn sign(&self, message: &[u8]) -> Result<Vec<u8>, rustls::Error> {
        Ok(self.0.sign(message).to_bytes().to_vec())
    }
    fn scheme(&self) -> rustls::SignatureScheme {
        rustls::SignatureScheme::ED25519
    }
}

#[derive(Debug)]
struct RogueResolver(Arc<rustls::sign::CertifiedKey>);

impl RogueResolver {
    fn new(present: [u8; 32], sign_with: &SecretKey) -> Self {
        let key = RogueKey { present, sign_with: ed25519_dalek::SigningKey::from_bytes(&sign_with.to_bytes()) };
        let cert = rustls::pki_types::CertificateDer::from(spki(&present));
        Self(Arc::new(rustls::sign::CertifiedKey::new(vec![cert], Arc::new(key))))
    }
}

impl rustls::server::ResolvesServerCert for RogueResolver {
    fn resolve(&self, _hello: rustls::server::ClientHello<'_>) -> Option<Arc<rustls::sign::CertifiedKey>> {
        Some(self.0.clone())
    }
    fn only_raw_public_keys(&self) -> bool {
        true
    }
}

impl rustls::client::ResolvesClientCert for RogueResolver {
    fn resolve(&self, _hints: &[&[u8]], _schemes: &[rustls::SignatureScheme]) -> Option<Arc<rustls::sign::CertifiedKey>> {
        Some(self.0.clone())
    }
    fn only_raw_public_keys(&self) -> bool {
        true
    }
    fn has_certs(&self) -> bool {
        true
    }
}

/// The rogue does not care who it talks to.
#[derive(Debug)]
struct AcceptAnything;

impl rustls::client::danger::ServerCertVerifier for AcceptAnything {
    fn verify_server_cert(
        &self,
        _e: &rustls::pki_types::CertificateDer<'_>,
        _i: &[rustls::pki_types::CertificateDer<'_>],
        _n: &ServerName<'_>,
        _o: &[u8],
        _t: rustls::pki_types::UnixTime,
    ) -> Result<rustls::client::danger::ServerCertVerified, rustls::Error> {
        Ok(rustls::client::danger::ServerCertVerified::assertion())
    }
    fn verify_tls12_signature(&self, _m: &[u8], _c: &rustls::pki_types::CertificateDer<'_>, _d: &DigitallySignedStruct) -> Result<rustls::client::danger::HandshakeSignatureValid, rustls::Error> {
        Ok(rustls::client::danger::HandshakeSignatureValid::assertion())
    }
    fn verify_tls13_signature(&self, _m: &[u8], _c: &rustls::pki_types::CertificateDer<'_>, _d: &DigitallySignedStruct) -> Result<rustls::client::danger::HandshakeSignatureValid, rustls::Error> {
        Ok(rustls::client::danger::HandshakeSignatureValid::assertion())
    }
    fn supported_verify_schemes(&self) -> Vec<rustls::SignatureScheme> {
        vec![rustls::SignatureScheme::ED25519]
    }
    fn requires_raw_public_keys(&self) -> bool {
        true
    }
}

impl rustls::server::danger::ClientCertVerifier for AcceptAnything {
    fn offer_client_auth(&self) -> bool {
        true
    }
    fn client_auth_mandatory(&self) -> bool {
        false
    }
    fn root_hint_subjects(&self) -> &[rustls::DistinguishedName] {
        &[]
    }
    fn verify_client_cert(
        &self,
        _e: &rustls::pki_types::CertificateDer<'_>,
        _i: &[rustls::pki_types::CertificateDer<'_>],
        _t: rustls::pki_types::UnixTime,
    ) -> Result<rustls::server::danger::ClientCertVerified, rustls::Error> {
        Ok(rustls::server::danger::ClientCertVerified::assertion())
    }
    fn verify_tls12_signature(&self, _m: &[u8], _c: &rustls::pki_types::CertificateDer<'_>, _d: &DigitallySignedStruct) -> Result<rustls::client::danger::HandshakeSignatureValid, rustls::Error> {
        Ok(rustls::client::danger::HandshakeSignatureValid::assertion())
    }
    fn verify_tls13_signature(&self, _m: &[u8], _c: &rustls::pki_types::CertificateDer<'_>, _d: &DigitallySignedStruct) -> Result<rustls::client::danger::HandshakeSignatureValid, rustls::Error> {
        Ok(rustls::client::danger::HandshakeSignatureValid::assertion())
    }
    fn supported_verify_schemes(&self) -> Vec<rustls::SignatureScheme> {
        vec![rustls::SignatureScheme::ED25519]
    }
    fn requires_raw_public_keys(&self) -> bool {
        true
    }
}

#[derive(Debug, Clone, Serialize, Deserialize)]
struct RogueCase {
    /// true: the rogue is the listener and an iroh endpoint dials it; false: the rogue dials an
    /// iroh endpoint
    rogue_is_server: bool,
    /// key index whose SPKI the rogue presents
    present: u8,
    /// key index the rogue signs with
    sign_with: u8,
    /// (rogue server only) the id the iroh endpoint dials
    dialed: u8,
}

fn rogue_strategy() -> impl Strategy<Value = RogueCase> {
    (any::<bool>(), 0u8..3, 0u8..3, 0u8..3, prop::bool::weighted(0.55)).prop_map(|(rogue_is_server, present, sign_with, dialed, dial_presented)| RogueCase {
        rogue_is_server,
        present,
        sign_with,
        // most of the time the victim dials the id the rogue pretends to be
        dialed: if dial_presented { present } else { dialed },
    })
}

fn provider() -> Arc<rustls::crypto::CryptoProvider> {
    Arc::new(rustls::crypto::ring::default_provider())
}

fn run_rogue(c: &RogueCase) -> Outcome {
    let c = c.clone();
    e2e::run(1, async move {
        let present = *pool_key(c.present).public().as_bytes();
        let signer = pool_key(c.sign_with);
        let possession = c.present % POOL as u8 == c.sign_with % POOL as u8;
        let resolver = Arc::new(RogueResolver::new(present, &signer));
        let loopback: std::net::SocketAddr = (std::net::Ipv4Addr::LOCALHOST, 0).into();
        if c.rogue_is_server {
            let mut crypto = rustls::ServerConfig::builder_with_provider(provider())
                .with_protocol_versions(&[&rustls::version::TLS13])
                .expect("tls13")
                .with_client_cert_verifier(Arc::new(AcceptAnything))
                .with_cert_resolver(resolver);
            crypto.alpn_protocols = vec![E2E_ALPN.to_vec()];
            let quic = noq::crypto::rustls::QuicServerConfig::try_from(crypto).expect("quic server config");
            let server = match noq::Endpoint::server(noq::ServerConfig::with_crypto(Arc::new(quic)), loopback) {
                Ok(s) => s,
                Err(e) => {
                    eprintln!("HARNESS: rogue server bind: {e}");
                    std::process::exit(2);
                }
            };
            let addr = server.local_addr().expect("local addr");
            // the rogue counts handshakes that completed on its side
            let completed = Arc::new(std::sync::Mutex::new(0usize));
            let accept_task = tokio::spawn({
                let server = server.clone();
                let completed = completed.clone();
                async move {
                    while let Some(inc) = server.accept().await {
                        let completed = completed.clone();
                        tokio::spawn(async move {
                            if let Ok(conn) = inc.await {
                                *completed.lock().unwrap() += 1;
                                conn.closed().await;
                            }
                        });
                    }
                }
            });
            let dialer = e2e::bind(e2e::builder().secret_key(e2e::key(100))).await;
            let dialed = pool_key(c.dialed).public();
            let should_connect = possession && c.dialed % POOL as u8 == c.present % POOL as u8;
            let cap = if should_connect { 60_000 } else { 2_000 };
            let res = e2e::by(cap, dialer.connect(EndpointAddr::new(dialed).with_ip_addr(addr), E2E_ALPN)).await;
            let out = match (&res, should_connect) {
                (Some(Ok(conn)), true) => {
                    if conn.remote_id() != dialed {
                        Outcome::violation("C01:remote-id-dialer", format!("dialed {dialed}, connection reports {}", conn.remote_id()))
                    } else {
                        Outcome::pass_with(false, vec!["rogue-server-honest-control"])
                    }
                }
                (Some(Ok(conn)), false) => Outcome::violation(
                    if possession { "C01:connected-to-wrong-key" } else { "C01:connected-without-proof-of-possession" },
                    format!(
                        "dialing {dialed} completed against a peer presenting key #{} and signing with key #{} (remote_id {})",
                        c.present, c.sign_with, conn.remote_id()
                    ),
                ),
                (Some(Err(e)), true) => {
                    eprintln!("HARNESS: iroh endpoint cannot connect to an honest plain noq peer: {e:#}; rogue part inconclusive");
                    std::process::exit(2);
                }
                (None, true) => {
                    eprintln!("HARNESS: connect to an honest plain noq peer did not finish in 60 s; inconclusive");
                    std::process::exit(2);
                }
                (Some(Err(_)), false) => Outcome::pass_with(true, vec![if possession { "rogue-server-other-key-refused" } else { "rogue-server-forged-signature-refused" }]),
                (None, false) => Outcome::pass_with(true, vec!["rogue-server-no-connection-by-cap"]),
            };
            drop(res);
            e2e::within(60, "dialer close", dialer.close()).await;
            server.close(0u32.into(), b"");
            accept_task.abort();
            out
        } else {
            // rogue client against an iroh listener
            let listener = e2e::bind(e2e::builder().secret_key(e2e::key(101)).alpns(vec![E2E_ALPN.to_vec()])).await;
            let seen: Arc<std::sync::Mutex<Vec<EndpointId>>> = Arc::default();
            let accept_task = tokio::spawn({
                let listener = listener.clone();
                let seen = seen.clone();
                async move {
                    while let Some(inc) = listener.accept().await {
                        let seen = seen.clone();
                        tokio::spawn(async move {
                            if let Ok(conn) = inc.await {
                                seen.lock().unwrap().push(conn.remote_id());
                                if let Ok((mut s, mut r)) = conn.accept_bi().await {
                                    if let Ok(m) = r.read_to_end(64).await {
                                        let _ = s.write_all(&m).await;
                                        let _ = s.finish();
                                    }
                                }
                                conn.closed().await;
                            }
                        });
                    }
                }
            });
            let mut crypto = rustls::ClientConfig::builder_with_provider(provider())
                .with_protocol_versions(&[&rustls::version::TLS13])
                .expect("tls13")
                .dangerous()
                .with_custom_certificate_verifier(Arc::new(AcceptAnything))
                .with_client_cert_resolver(resolver);
            crypto.alpn_protocols = vec![E2E_ALPN.to_vec()];
            crypto.enable_sni = false;
            let quic = noq::crypto::rustls::QuicClientConfig::try_from(crypto).expect("quic client config");
            let client = match noq::Endpoint::client(loopback) {
                Ok(c) => c,
                Err(e) => {
                    eprintln!("HARNESS: rogue client bind: {e}");
                    std::process::exit(2);
                }
            };
            let target = listener.addr().ip_addrs().next().cloned().expect("listener has an ip addr");
            let cap = if possession { 60_000 } else { 2_000 };
            let attempt = async {
                let conn = client
                    .connect_with(noq::ClientConfig::new(Arc::new(quic)), target, "peer.invalid")
                    .map_err(|e| format!("{e}"))?
                    .await
                    .map_err(|e| format!("{e}"))?;
                // the client side of TLS 1.3 finishes before the server has checked the
                // client's certificate; a round trip shows whether the server accepted
                let (mut s, mut r) = conn.open_bi().await.map_err(|e| format!("{e}"))?;
                s.write_all(b"id?").await.map_err(|e| format!("{e}"))?;
                s.finish().map_err(|e| format!("{e}"))?;
                let m = r.read_to_end(64).await.map_err(|e| format!("{e}"))?;
                Ok::<_, String>((conn, m))
            };
            let res = e2e::by(cap, attempt).await;
            let ids = seen.lock().unwrap().clone();
            let presented = pool_key(c.present).public();
            let out = if possession {
                match &res {
                    Some(Ok((_, m))) if m == b"id?" && ids == vec![presented] => Outcome::pass_with(false, vec!["rogue-client-honest-control"]),
                    Some(Ok(_)) => Outcome::violation("C01:remote-id-acceptor", format!("honest plain-QUIC client holding {presented}: acceptor saw {ids:?}")),
                    other => {
                        eprintln!("HARNESS: honest plain noq client cannot talk to an iroh endpoint: {:?}; rogue part inconclusive", other.as_ref().map(|r| r.as_ref().map(|_| ()).map_err(|e| e.clone())));
                        std::process::exit(2);
                    }
                }
            } else if !ids.is_empty() {
                Outcome::violation(
                    "C01:accepted-without-proof-of-possession",
                    format!("a client presenting key #{} but signing with key #{} was accepted; acceptor reports remote ids {ids:?}", c.present, c.sign_with),
                )
            } else if matches!(&res, Some(Ok(_))) {
                Outcome::violation("C01:accepted-without-proof-of-possession", "forged client got an echo from the acceptor".to_string())
            } else {
                Outcome::pass_with(true, vec![if res.is_some() { "rogue-client-forged-signature-refused" } else { "rogue-client-no-connection-by-cap" }])
            };
            drop(res);
            client.close(0u32.into(), b"");
            e2e::within(60, "listener close", listener.close()).await;
            accept_task.abort();
            out
        }
    })
}

pub fn run(ctx: &Ctx) {
    ctx.rule("name: keys, valid names with 1..3 edits (case, substitution incl. the padding-bit character, insert/delete, label insert/remove/swap, dots, truncation, suffixes), base32hex of arbitrary 28..36-byte strings with suffix variants, arbitrary strings | verifier: end entity ∈ {SPKI(k), SPKI with one flipped byte, truncated, extended, bare key, X.509-like, empty, random} × 0..3 intermediates × server name ∈ {encode(k), upper-cased, edited, IP, other} over 4 keys | signature: valid signature with edits of key (other, bit flip, wrong length, small order), message, signature (bit flip, S+L, wrong length, zero, identity) and scheme, via the raw verifier and verify_tls13/12_signature of both verifiers | e2e: loopback endpoints, dialing each of 4 ids at the address of an endpoint holding one of them | rogue: a hand-built noq/rustls peer (listener or dialer) that presents the raw public key of C but signs the handshake with S, against an iroh endpoint, over 3 keys, with C == pub(S) as positive control; non-trivial = a negative case");
    ctx.assume("reference Ed25519 verification is ed25519-dalek verify_strict called directly, cross-checked against by-construction validity");
    ctx.assume("a wrong-id dial is given up after 2 s ('no connection by then'; can only miss, never raise)");
    ctx.assume("upper-case spellings of the base32 label are neither required nor forbidden to decode (DNS names are case-insensitive); whenever a name decodes, its lower-cased first label must be the base32hex of the key");
    let k = ctx.tier.pick(1, 10);
    ctx.explore("name", ExploreOpts::new(100_000 * k), name_strategy, run_name);
    ctx.explore("verifier", ExploreOpts::new(100_000 * k), ver_strategy, run_verifier);
    ctx.explore("signature", ExploreOpts::new(60_000 * k), sig_strategy, run_signature);
    ctx.explore("e2e", ExploreOpts::new(48 * k).shrink(20), e2e_strategy, run_e2e);
    ctx.explore("rogue", ExploreOpts::new(96 * k).shrink(20), rogue_strategy, run_rogue);
}
