//! C29 — the address lookup results stream follows its documented protocol.
//!
//! Public API only: `AddressLookupServices::{add, resolve}`, the `AddressLookup` trait and
//! `Item::new`.  Every case builds 0..4 scripted services (declining, empty, items and errors
//! at generated virtual-time delays) and consumes the merged stream under a paused clock.

use std::{
    collections::VecDeque,
    net::{Ipv4Addr, SocketAddr},
    pin::Pin,
    sync::{
        Arc, Mutex,
        atomic::{AtomicBool, AtomicUsize, Ordering},
    },
    task::{Context, Poll},
    time::Duration,
};

use iroh::address_lookup::{
    AddressLookup, AddressLookupFailed, AddressLookupServices, EndpointData, EndpointInfo, Error as LookupError, Item,
};
use iroh_base::{EndpointId, SecretKey, TransportAddr};
use n0_future::{Stream, StreamExt, boxed::BoxStream};
use proptest::prelude::*;
use serde::{Deserialize, Serialize};

use crate::{
    check,
    engine::{Ctx, ExploreOpts, Outcome, paused_rt},
};

const NAMES: [&str; 4] = ["svc0", "svc1", "svc2", "svc3"];

/// One scripted output of a service: after `delay_ms` (virtual, relative to the previous
/// output of the same service) yield an item or an error.
#[derive(Debug, Clone, Serialize, Deserialize)]
struct Ev {
    delay_ms: u32,
    is_err: bool,
}

#[derive(Debug, Clone, Serialize, Deserialize)]
struct Svc {
    /// `resolve` returns `None`
    declines: bool,
    events: Vec<Ev>,
    /// delay before the stream ends after its last output
    end_delay_ms: u32,
}

#[derive(Debug, Clone, Serialize, Deserialize)]
struct Case {
    services: Vec<Svc>,
    /// drop the merged stream after this many yielded entries (None: consume to the end)
    drop_after: Option<u8>,
}

fn delay() -> impl Strategy<Value = u32> {
    prop_oneof![4 => Just(0u32), 4 => 1u32..6, 2 => 1u32..400, 1 => Just(100u32)]
}

fn svc() -> impl Strategy<Value = Svc> {
    (
        prop::bool::weighted(0.15),
        prop_oneof![
            2 => Just(vec![]),
            // errors only
            2 => proptest::collection::vec(delay().prop_map(|delay_ms| Ev { delay_ms, is_err: true }), 1..4),
            // items only
            2 => proptest::collection::vec(delay().prop_map(|delay_ms| Ev { delay_ms, is_err: false }), 1..4),
            4 => proptest::collection::vec((delay(), any::<bool>()).prop_map(|(delay_ms, is_err)| Ev { delay_ms, is_err }), 1..6),
        ],
        delay(),
    )
        .prop_map(|(declines, events, end_delay_ms)| Svc { declines, events, end_delay_ms })
}

fn strategy() -> impl Strategy<Value = Case> {
    (
        prop_oneof![1 => Just(vec![]), 24 => proptest::collection::vec(svc(), 1..5)],
        prop_oneof![5 => Just(None), 1 => (0u8..6).prop_map(Some)],
    )
        .prop_map(|(services, drop_after)| Case { services, drop_after })
}

/// Identity of one produced output: (service index, index in the script).
type OutId = (usize, usize);

#[derive(Debug, Default)]
struct Shared {
    /// outputs handed to the merged stream, in hand-over order
    produced: Mutex<Vec<(OutId, bool, tokio::time::Instant)>>,
    streams_created: AtomicUsize,
    streams_dropped: AtomicUsize,
}

#[derive(Debug)]
struct ScriptedService {
    idx: usize,
    svc: Svc,
    shared: Arc<Shared>,
    expect_id: EndpointId,
    wrong_id_asked: Arc<AtomicBool>,
}

struct ScriptedStream {
    idx: usize,
    next: usize,
    events: VecDeque<Ev>,
    end_delay_ms: u32,
    sleep: Option<Pin<Box<tokio::time::Sleep>>>,
    ended: bool,
    endpoint_id: EndpointId,
    shared: Arc<Shared>,
}

impl Drop for ScriptedStream {
    fn drop(&mut self) {
        self.shared.streams_dropped.fetch_add(1, Ordering::SeqCst);
    }
}

fn make_item(endpoint_id: EndpointId, id: OutId) -> Item {
    let addr = SocketAddr::new(Ipv4Addr::new(10, 0, id.0 as u8, id.1 as u8).into(), 1000 + id.1 as u16);
    let data = EndpointData::from_iter([TransportAddr::Ip(addr)]);
    Item::new(EndpointInfo::from_parts(endpoint_id, data), NAMES[id.0], Some((id.0 * 1000 + id.1) as u64))
}

fn err_text(id: OutId) -> String {
    format!("scripted-error-{}-{}", id.0, id.1)
}

fn make_err(id: OutId) -> LookupError {
    LookupError::from_err(NAMES[id.0], std::io::Error::other(err_text(id)))
}

impl Stream for ScriptedStream {
    type Item = Result<Item, LookupError>;
    fn poll_next(self: Pin<&mut Self>, cx: &mut Context<'_>) -> Poll<Option<Self::Item>> {
        let this = self.get_mut();
        if this.ended {
            return Poll::Ready(None);
        }
        let wait = match this.events.front() {
            Some(ev) => ev.delay_ms,
            None => this.end_delay_ms,
        };
        if wait > 0 {
            let sleep = this
                .sleep
                .get_or_insert_with(|| Box::pin(tokio::time::sleep(Duration::from_millis(wait as u64))));
            match sleep.as_mut().poll(cx) {
                Poll::Pending => return Poll::Pending,
                Poll::Ready(()) => this.sleep = None,
            }
        }
        match this.events.pop_front() {
            Some(ev) => {
                let id = (this.idx, this.next);
                this.next += 1;
                this.shared
                    .produced
                    .lock()
                    .unwrap()
                    .push((id, ev.is_err, tokio::time::Instant::now()));
                Poll::Ready(Some(if ev.is_err { Err(make_err(id)) } else { Ok(make_item(this.endpoint_id, id)) }))
            }
            None => {
                this.ended = true;
                Poll::Ready(None)
            }
        }
    }
}

impl AddressLookup for ScriptedService {
    fn resolve(&self, endpoint_id: EndpointId) -> Option<BoxStream<Result<Item, LookupError>>> {
        if endpoint_id != self.expect_id {
            self.wrong_id_asked.store(true, Ordering::SeqCst);
        }
        if self.svc.declines {
            return None;
        }
        self.shared.streams_created.fetch_add(1, Ordering::SeqCst);
        Some(
            ScriptedStream {
                idx: self.idx,
                next: 0,
                events: self.svc.events.iter().cloned().collect(),
                end_delay_ms: self.svc.end_delay_ms,
                sleep: None,
                ended: false,
                endpoint_id,
                shared: self.shared.clone(),
            }
            .boxed(),
        )
    }
}

/// What the merged stream yielded, reduced to identities.
#[derive(Debug, Clone, PartialEq)]
enum Yielded {
    Item(OutId),
    Error(OutId),
    NoResults(Vec<Option<OutId>>),
    NoServices,
    Unknown(String),
}

fn id_of_item(item: &Item) -> Option<OutId> {
    let tag = item.last_updated()? as usize;
    let id = (tag / 1000, tag % 1000);
    (id.0 < NAMES.len() && item.provenance() == NAMES[id.0]).then_some(id)
}

fn id_of_error(e: &LookupError, universe: &[OutId]) -> Option<OutId> {
    let text = format!("{e:#} / {e:?}");
    universe.iter().copied().find(|id| text.contains(&err_text(*id)) && text.contains(NAMES[id.0]))
}

fn run_case(c: &Case) -> Outcome {
    paused_rt(async {
        let shared = Arc::new(Shared::default());
        let wrong = Arc::new(AtomicBool::new(false));
        let target = SecretKey::from_bytes(&[7u8; 32]).public();
        let services = AddressLookupServices::default();
        for (idx, svc) in c.services.iter().enumerate() {
            services.add(ScriptedService {
                idx,
                svc: svc.clone(),
                shared: shared.clone(),
                expect_id: target,
                wrong_id_asked: wrong.clone(),
            });
        }
        check!(services.len() == c.services.len() && services.is_empty() == c.services.is_empty(), "C29:registry-size", "len() {} for {} services", services.len(), c.services.len());

        // the scripted truth
        let mut all_errors: Vec<OutId> = vec![];
        let mut expected: Vec<Vec<(OutId, bool, u64)>> = vec![]; // per service: id, is_err, due time (ms)
        let mut end_ms = 0u64;
        for (idx, svc) in c.services.iter().enumerate() {
            let mut t = 0u64;
            let mut v = vec![];
            if !svc.declines {
                for (k, ev) in svc.events.iter().enumerate() {
                    t += ev.delay_ms as u64;
                    v.push(((idx, k), ev.is_err, t));
                    if ev.is_err {
                        all_errors.push((idx, k));
                    }
                }
                end_ms = end_ms.max(t + svc.end_delay_ms as u64);
            }
            expected.push(v);
        }
        let any_item = expected.iter().flatten().any(|(_, is_err, _)| !is_err);
        let total: usize = expected.iter().map(|v| v.len()).sum();

        let start = tokio::time::Instant::now();
        let mut stream = Box::pin(services.resolve(target));
        let mut got: Vec<(Yielded, u64)> = vec![];
        let mut ended_at: Option<u64> = None;
        let mut dropped_early = false;
        // hard cap: the protocol allows total + 1 entries
        for _ in 0..(total + 4) {
            if let Some(k) = c.drop_after {
                if got.len() >= k as usize {
                    dropped_early = true;
                    break;
                }
            }
            let next = stream.next().await;
            let at = start.elapsed().as_millis() as u64;
            match next {
                None => {
                    ended_at = Some(at);
                    break;
                }
                Some(Ok(Ok(item))) => {
                    check!(item.endpoint_id() == target, "C29:foreign-item", "item for another endpoint id");
                    let y = match id_of_item(&item) {
                        Some(id) => Yielded::Item(id),
                        None => Yielded::Unknown(format!("{item:?}")),
                    };
                    got.push((y, at));
                }
                Some(Ok(Err(e))) => {
                    let y = match id_of_error(&e, &all_errors) {
                        Some(id) => Yielded::Error(id),
                        None => Yielded::Unknown(format!("{e:#}")),
                    };
                    got.push((y, at));
                }
                Some(Err(AddressLookupFailed::NoServiceConfigured { .. })) => got.push((Yielded::NoServices, at)),
                Some(Err(AddressLookupFailed::NoResults { errors, .. })) => {
                    got.push((Yielded::NoResults(errors.iter().map(|e| id_of_error(e, &all_errors)).collect()), at))
                }
                Some(Err(other)) => got.push((Yielded::Unknown(format!("{other:?}")), at)),
            }
        }
        check!(!wrong.load(Ordering::SeqCst), "C29:wrong-endpoint-id", "a service was asked to resolve another endpoint id");

        if dropped_early {
            // everything yielded so far must be genuine and in per-service order; then dropping the
            // merged stream drops every service stream
            for (y, _) in &got {
                check!(!matches!(y, Yielded::Unknown(_)), "C29:unknown-entry", "yielded an entry no service produced: {y:?}");
            }
            drop(stream);
            let created = shared.streams_created.load(Ordering::SeqCst);
            let dropped = shared.streams_dropped.load(Ordering::SeqCst);
            check!(created == dropped, "C29:service-stream-leaked", "dropped the merged stream early: {created} service streams created, {dropped} dropped");
            return Outcome::pass_with(false, vec!["dropped-early"]);
        }

        check!(ended_at.is_some(), "C29:no-end", "the stream did not end after {} entries (services produce {total}): {:?}", got.len(), got);
        // nothing after the end, ever
        for i in 0..3 {
            let again = stream.next().await;
            check!(again.is_none(), "C29:yield-after-end", "poll #{i} after the end returned {:?}", again.map(|r| r.map(|x| x.map(|i| i.provenance()))));
        }

        // split into body and terminal
        let mut body: Vec<(Yielded, u64)> = got.clone();
        let terminal = match body.last() {
            Some((Yielded::NoResults(_), _)) | Some((Yielded::NoServices, _)) => body.pop(),
            _ => None,
        };
        for (y, _) in &body {
            check!(!matches!(y, Yielded::NoResults(_) | Yielded::NoServices), "C29:failure-before-end", "a terminal failure was yielded before the end: {:?}", got);
            check!(!matches!(y, Yielded::Unknown(_)), "C29:unknown-entry", "yielded an entry no service produced: {y:?}");
        }
        // every produced item and error, per service in order
        for (idx, exp) in expected.iter().enumerate() {
            let mine: Vec<&(Yielded, u64)> = body
                .iter()
                .filter(|(y, _)| matches!(y, Yielded::Item(id) | Yielded::Error(id) if id.0 == idx))
                .collect();
            let want: Vec<Yielded> = exp.iter().map(|(id, is_err, _)| if *is_err { Yielded::Error(*id) } else { Yielded::Item(*id) }).collect();
            let have: Vec<Yielded> = mine.iter().map(|(y, _)| y.clone()).collect();
            check!(have == want, "C29:items-lost-or-reordered", "service {idx} produced {:?} but the stream yielded {:?}", want, have);
            // "as soon as it is produced": at its scripted virtual instant
            for ((_, _, due), (y, at)) in exp.iter().zip(mine.iter()) {
                check!(*at == *due, "C29:late-yield", "{y:?} was due at {due} ms and yielded at {at} ms");
            }
        }
        check!(body.len() == total, "C29:duplicate-entry", "services produced {total} entries, the stream yielded {}: {:?}", body.len(), body);

        // the terminal entry
        let configured = !c.services.is_empty();
        match &terminal {
            Some((Yielded::NoServices, _)) => {
                check!(!configured, "C29:no-services-with-services", "NoServiceConfigured although {} services are configured", c.services.len());
            }
            Some((Yielded::NoResults(errs), _)) => {
                check!(configured, "C29:no-results-without-services", "NoResults although no service is configured");
                check!(!any_item, "C29:no-results-after-item", "NoResults although an item was produced: {:?}", got);
                // carries all errors produced, in the order they were yielded
                let yielded_errs: Vec<Option<OutId>> = body.iter().filter_map(|(y, _)| if let Yielded::Error(id) = y { Some(Some(*id)) } else { None }).collect();
                check!(*errs == yielded_errs, "C29:no-results-errors", "NoResults carries {:?}, the errors produced were {:?}", errs, yielded_errs);
            }
            None => {
                check!(configured, "C29:missing-no-services", "no service configured and the stream ended without NoServiceConfigured");
                check!(any_item, "C29:missing-no-results", "no item was produced and the stream ended without NoResults: {:?}", got);
            }
            _ => unreachable!(),
        }
        // the end comes when the last service stream has ended
        let ended_at = ended_at.unwrap();
        check!(ended_at == end_ms, "C29:end-time", "all services are done at {end_ms} ms, the stream ended at {ended_at} ms");
        drop(stream);
        let created = shared.streams_created.load(Ordering::SeqCst);
        let dropped = shared.streams_dropped.load(Ordering::SeqCst);
        check!(created == dropped, "C29:service-stream-leaked", "{created} service streams created, {dropped} dropped");

        // classes
        let live = c.services.iter().filter(|s| !s.declines).count();
        let mut classes = vec![];
        if !configured { classes.push("no-services"); }
        if configured && live == 0 { classes.push("all-decline"); }
        if c.services.iter().any(|s| s.declines) && live > 0 { classes.push("some-decline"); }
        if matches!(terminal, Some((Yielded::NoResults(ref e), _)) if !e.is_empty()) { classes.push("no-results-with-errors"); }
        if matches!(terminal, Some((Yielded::NoResults(ref e), _)) if e.is_empty()) { classes.push("no-results-empty"); }
        if any_item && !all_errors.is_empty() { classes.push("items-and-errors"); }
        let first_item_pos = body.iter().position(|(y, _)| matches!(y, Yielded::Item(_)));
        let first_err_pos = body.iter().position(|(y, _)| matches!(y, Yielded::Error(_)));
        let err_before_item = matches!((first_err_pos, first_item_pos), (Some(e), Some(i)) if e < i);
        if err_before_item { classes.push("error-before-item"); }
        // two services with outputs due at the same instant
        let mut dues: Vec<(u64, usize)> = expected.iter().flatten().map(|(id, _, due)| (*due, id.0)).collect();
        dues.sort();
        if dues.windows(2).any(|w| w[0].0 == w[1].0 && w[0].1 != w[1].1) { classes.push("simultaneous-outputs"); }
        // interleaving: outputs of one service between two outputs of another
        let order: Vec<usize> = body.iter().filter_map(|(y, _)| match y { Yielded::Item(id) | Yielded::Error(id) => Some(id.0), _ => None }).collect();
        if order.windows(3).any(|w| w[0] == w[2] && w[0] != w[1]) { classes.push("interleaved"); }
        let nontrivial = live >= 2 && err_before_item;
        Outcome::pass_with(nontrivial, classes)
    })
}

pub fn run(ctx: &Ctx) {
    ctx.rule("0..4 scripted services (15% decline; otherwise 0..5 outputs, each an item or an error after a virtual delay of 0/1..5/1..400 ms, then an end delay); the merged stream is consumed to its end under a paused clock (1 in 6 cases: dropped after k entries); oracle: per-service order and multiset of yielded entries equal the scripts, each at its scripted instant, exactly one terminal entry as documented, None forever after; non-trivial = >= 2 non-declining services and an error yielded before the first item");
    ctx.assume("services are well-behaved streams (finite, never polled-after-end dependent); delays are whole milliseconds (tokio timer granularity)");
    let k = ctx.tier.pick(1, 10);
    ctx.explore("resolve_stream", ExploreOpts::new(400_000 * k), strategy, run_case);
}
