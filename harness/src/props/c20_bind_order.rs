//! C20 — the endpoint builder accepts a set of bind addresses independent of the order in
//! which they are added.
//!
//! Public API only (`Builder::empty`, `clear_ip_transports`, `bind_addr`,
//! `bind_addr_with_opts`); no socket is opened.  A case is a *multiset* of bind requests; the
//! oracle applies every ordering of it to a fresh builder and compares each verdict with a
//! reference decision computed from the multiset alone.

use std::net::{Ipv4Addr, Ipv6Addr, SocketAddr, SocketAddrV4, SocketAddrV6};

use iroh::endpoint::{BindOpts, Builder, InvalidSocketAddr};
use proptest::prelude::*;
use serde::{Deserialize, Serialize};

use crate::engine::{Ctx, ExploreOpts, Outcome};

#[derive(Debug, Clone, Copy, PartialEq, Eq, PartialOrd, Ord, Hash, Serialize, Deserialize)]
struct Req {
    v6: bool,
    prefix: u8,
    /// `None`: flag not set (implied by prefix 0); `Some(b)`: `set_is_default_route(b)`.
    default: Option<bool>,
    required: bool,
    /// selects the concrete address / port / scope (irrelevant to acceptance)
    host: u8,
}

#[derive(Debug, Clone, Serialize, Deserialize)]
struct Case {
    /// call `clear_ip_transports()` before adding (removes the pre-configured wildcard binds)
    clear: bool,
    reqs: Vec<Req>,
}

impl Req {
    fn addr(&self) -> SocketAddr {
        let h = self.host;
        let port = if h % 3 == 0 { 0 } else { 40_000 + h as u16 };
        if self.v6 {
            let ip = match h % 4 {
                0 => Ipv6Addr::UNSPECIFIED,
                1 => Ipv6Addr::LOCALHOST,
                2 => Ipv6Addr::new(0xfe80, 0, 0, 0, 0, 0, 0, h as u16 + 1),
                _ => Ipv6Addr::new(0xfd00, 0, 0, h as u16, 0, 0, 0, 1),
            };
            let scope = if h % 4 == 2 { h as u32 } else { 0 };
            SocketAddr::V6(SocketAddrV6::new(ip, port, 0, scope))
        } else {
            let ip = match h % 4 {
                0 => Ipv4Addr::UNSPECIFIED,
                1 => Ipv4Addr::LOCALHOST,
                2 => Ipv4Addr::new(127, 0, h, 1),
                _ => Ipv4Addr::new(192, 168, h, 7),
            };
            SocketAddr::V4(SocketAddrV4::new(ip, port))
        }
    }
    fn max_prefix(&self) -> u8 {
        if self.v6 { 128 } else { 32 }
    }
    /// Reference for `BindOpts::is_default_route` as documented: explicit flag, else prefix 0.
    fn marks_default(&self) -> bool {
        self.default.unwrap_or(self.prefix == 0)
    }
    fn invalid_prefix(&self) -> bool {
        self.prefix > self.max_prefix()
    }
    fn opts(&self) -> BindOpts {
        let mut o = BindOpts::default();
        if self.prefix != 0 {
            o = o.set_prefix_len(self.prefix);
        }
        if let Some(d) = self.default {
            o = o.set_is_default_route(d);
        }
        if !self.required {
            o = o.set_is_required(false);
        }
        o
    }
    fn plain(&self) -> bool {
        self.prefix == 0 && self.default.is_none() && self.required
    }
}

#[derive(Debug, Clone, Copy, PartialEq, Eq)]
enum Verdict {
    Accepted,
    DuplicateDefault(usize),
    InvalidPrefix(usize),
    Other(usize),
}

/// Applies one ordering to a fresh builder.
fn apply(clear: bool, seq: &[Req]) -> Verdict {
    let mut b = Builder::empty();
    if clear {
        b = b.clear_ip_transports();
    }
    for (i, r) in seq.iter().enumerate() {
        // the shorthand `bind_addr` is documented as `bind_addr_with_opts(.., default)`
        let res = if r.plain() && r.host % 2 == 1 {
            b.bind_addr(r.addr())
        } else {
            b.bind_addr_with_opts(r.addr(), r.opts())
        };
        match res {
            Ok(next) => b = next,
            Err(InvalidSocketAddr::DuplicateDefaultAddr { .. }) => return Verdict::DuplicateDefault(i),
            Err(InvalidSocketAddr::InvalidPrefixLength { .. }) => return Verdict::InvalidPrefix(i),
            Err(_) => return Verdict::Other(i),
        }
    }
    Verdict::Accepted
}

fn permutations(n: usize) -> Vec<Vec<usize>> {
    fn rec(cur: &mut Vec<usize>, used: &mut Vec<bool>, out: &mut Vec<Vec<usize>>) {
        if cur.len() == used.len() {
            out.push(cur.clone());
            return;
        }
        for i in 0..used.len() {
            if !used[i] {
                used[i] = true;
                cur.push(i);
                rec(cur, used, out);
                cur.pop();
                used[i] = false;
            }
        }
    }
    let mut out = vec![];
    rec(&mut vec![], &mut vec![false; n], &mut out);
    out
}

fn run_case(c: &Case) -> Outcome {
    let reqs = &c.reqs;
    // ---- reference decision, from the multiset alone ----
    let any_invalid = reqs.iter().any(|r| r.invalid_prefix());
    let defaults = |v6: bool, only_valid: bool| {
        reqs.iter()
            .filter(|r| r.v6 == v6 && r.marks_default() && !(only_valid && r.invalid_prefix()))
            .count()
    };
    // whether a request with an invalid prefix also "marks a socket as default" is immaterial
    // for acceptance (the set is rejected anyway); it only widens the admissible error kind.
    let dup_any = defaults(false, false) > 1 || defaults(true, false) > 1;
    let dup_valid = defaults(false, true) > 1 || defaults(true, true) > 1;
    let expect_accept = !any_invalid && !dup_any;

    // the opts getters must agree with the reference reading of the docs
    for r in reqs {
        let o = r.opts();
        if o.is_default_route() != r.marks_default() || o.prefix_len() != r.prefix || o.is_required() != r.required {
            return Outcome::violation(
                "C20:bindopts-getters",
                format!("BindOpts getters disagree with what was set for {r:?}: {o:?}"),
            );
        }
    }

    // every distinct ordering of the multiset, applied to a fresh builder
    let mut seen: Vec<(Vec<Req>, Verdict)> = vec![];
    for p in permutations(reqs.len()) {
        let seq: Vec<Req> = p.iter().map(|&i| reqs[i]).collect();
        if seen.iter().any(|(s, _)| *s == seq) {
            continue;
        }
        let v = apply(c.clear, &seq);
        seen.push((seq, v));
    }
    let distinct_orders = seen.len();
    for (seq, v) in &seen {
        let accepted = *v == Verdict::Accepted;
        if accepted != expect_accept {
            // report the order dependence itself when another order disagrees
            let other = seen.iter().find(|(_, ov)| (*ov == Verdict::Accepted) != accepted);
            let sig = if expect_accept { "C20:valid-set-rejected" } else { "C20:invalid-set-accepted" };
            let detail = match other {
                Some((os, ov)) => format!(
                    "order-dependent: order {seq:?} -> {v:?}, but order {os:?} -> {ov:?}; reference: accept={expect_accept} (invalid_prefix={any_invalid}, duplicate_default={dup_any})"
                ),
                None => format!(
                    "every order agrees, e.g. {seq:?} -> {v:?}; reference: accept={expect_accept} (invalid_prefix={any_invalid}, duplicate_default={dup_any})"
                ),
            };
            return Outcome::violation(sig, detail);
        }
        // the reported reason must be one the set actually exhibits
        match *v {
            Verdict::Accepted => {}
            Verdict::DuplicateDefault(i) => {
                if !dup_any {
                    return Outcome::violation(
                        "C20:wrong-error-kind",
                        format!("order {seq:?}: DuplicateDefaultAddr at request {i} but no family has two default routes"),
                    );
                }
            }
            Verdict::InvalidPrefix(i) => {
                if !seq[i].invalid_prefix() {
                    return Outcome::violation(
                        "C20:wrong-error-kind",
                        format!("order {seq:?}: InvalidPrefixLength at request {i} whose prefix is valid"),
                    );
                }
            }
            Verdict::Other(i) => {
                return Outcome::violation(
                    "C20:unexpected-error",
                    format!("order {seq:?}: unexpected error kind at request {i}"),
                );
            }
        }
    }

    // ---- classification ----
    let mut classes = vec![];
    let one_default_plus_other = [false, true].iter().any(|&v6| {
        defaults(v6, false) == 1 && reqs.iter().filter(|r| r.v6 == v6).count() >= 2
    });
    if expect_accept {
        classes.push("accepted");
        if one_default_plus_other {
            classes.push("accepted:one-default+non-default-same-family");
        }
        if reqs.iter().any(|r| r.prefix == 0 && r.default == Some(false)) {
            classes.push("accepted:prefix0-explicit-non-default");
        }
    } else {
        classes.push(match (any_invalid, dup_valid || dup_any) {
            (true, true) => "rejected:invalid-prefix+duplicate-default",
            (true, false) => "rejected:invalid-prefix",
            (false, _) => "rejected:duplicate-default",
        });
    }
    if distinct_orders >= 2 {
        classes.push("orders>=2");
    }
    if reqs.iter().any(|r| r.v6) && reqs.iter().any(|r| !r.v6) {
        classes.push("both-families");
    }
    // non-trivial: the order could matter — exactly one default and at least one more request
    // in the same family, nothing invalid, at least two distinct orders
    let nontrivial = expect_accept && one_default_plus_other && distinct_orders >= 2;
    Outcome::pass_with(nontrivial, classes)
}

/// 2 families x 4 prefix classes x 3 default flags = 24 request kinds.
fn kinds() -> Vec<Req> {
    let mut v = vec![];
    for v6 in [false, true] {
        let max = if v6 { 128u8 } else { 32 };
        let mid = if v6 { 64u8 } else { 24 };
        for prefix in [0, mid, max, max + 1] {
            for default in [None, Some(true), Some(false)] {
                v.push(Req { v6, prefix, default, required: true, host: 0 });
            }
        }
    }
    v
}

/// All multisets of 1..=max requests over the 24 kinds (non-decreasing index sequences),
/// smallest first, each once with and once without `clear_ip_transports()`.
fn all_multisets(max: usize) -> Vec<Case> {
    let ks = kinds();
    let mut out = vec![];
    fn rec(ks: &[Req], start: usize, left: usize, cur: &mut Vec<usize>, out: &mut Vec<Case>) {
        if left == 0 {
            for clear in [false, true] {
                let reqs = cur
                    .iter()
                    .enumerate()
                    .map(|(pos, &k)| Req { host: (pos * 5 + k) as u8, required: (pos + k) % 5 != 0, ..ks[k] })
                    .collect();
                out.push(Case { clear, reqs });
            }
            return;
        }
        for k in start..ks.len() {
            cur.push(k);
            rec(ks, k, left - 1, cur, out);
            cur.pop();
        }
    }
    for n in 1..=max {
        rec(&ks, 0, n, &mut vec![], &mut out);
    }
    out
}

fn req_strategy() -> impl Strategy<Value = Req> {
    (
        any::<bool>(),
        prop_oneof![
            3 => Just(0u8),
            3 => 1u8..=32,
            1 => Just(32u8),
            1 => Just(33u8),
            2 => 33u8..=128,
            1 => Just(128u8),
            1 => Just(129u8),
            1 => 129u8..=255,
        ],
        prop_oneof![2 => Just(None), 1 => Just(Some(true)), 2 => Just(Some(false))],
        prop_oneof![3 => Just(true), 1 => Just(false)],
        any::<u8>(),
    )
        .prop_map(|(v6, prefix, default, required, host)| Req { v6, prefix, default, required, host })
}

fn random_strategy() -> impl Strategy<Value = Case> {
    (any::<bool>(), proptest::collection::vec(req_strategy(), 1..=6)).prop_map(|(clear, reqs)| Case { clear, reqs })
}

pub fn run(ctx: &Ctx) {
    ctx.rule("part all_multisets: EVERY multiset of 1..4 (thorough: 1..5) bind requests over 24 kinds ({v4,v6} x prefix {0, mid, max, max+1} x default flag {unset,true,false}), with and without clear_ip_transports(), and for each multiset EVERY distinct ordering applied to a fresh Builder::empty() (this covers all 24+24^2+24^3+24^4 sequences); part random_sets: 1..6 requests with any prefix 0..255, concrete addresses incl. wildcard/loopback/scoped link-local, is_required, bind_addr shorthand, all orderings; reference: accepted iff no prefix > 32/128 and <= 1 request per family with default = explicit flag else (prefix == 0); non-trivial = accepted multiset with exactly one default plus another request of the same family and >= 2 distinct orders");
    ctx.assume("acceptance means every bind_addr_with_opts call of the sequence returns Ok; sockets are not bound (bind-time failures such as ports in use are outside the statement)");
    ctx.assume("when a set has both an invalid prefix and duplicate defaults either error kind is admissible; otherwise the error must name the defect the set has");
    // the statement's domain is "up to 4 requests"; the thorough tier also covers all multisets of 5
    let max = ctx.tier.pick(4, 5);
    ctx.enumerate_par("all_multisets", all_multisets(max), 8, run_case);
    let k = ctx.tier.pick(1, 10);
    ctx.explore("random_sets", ExploreOpts::new(300_000 * k), random_strategy, run_case);
}
