//! C37 — DNS server keeps the newest packet per key.
//!
//! Black box: the real `Server::bind(Config)` on loopback, pkarr PUT/GET over HTTP and DNS
//! queries over UDP / DoH.  In process (hook `verif::ZoneStoreHandle`): the boolean returned
//! by `ZoneStore::insert`, which HTTP does not expose (PUT always answers 204).

use iroh_dns::pkarr::SignedPacket;
use iroh_dns_server::verif::ZoneStoreHandle;
use proptest::prelude::*;
use serde::{Deserialize, Serialize};

use crate::{
    engine::{self, Ctx, ExploreOpts, Outcome},
    support::{
        dnssrv::{self, CanonRec, Http, ORIGIN, RD, Rec, T0, TYPE_A, TYPE_TXT, TestServer},
        gens,
    },
};

/// Three timestamps, so equal timestamps with different payloads occur.
const TS_POOL: [u64; 3] = [T0 + 1_000_000, T0 + 1_000_001, T0 + 7_000_000];

#[derive(Debug, Clone, PartialEq, Eq, Serialize, Deserialize)]
struct Pkt {
    /// index into TS_POOL
    ts: u8,
    /// payload variant
    pay: u8,
}

#[derive(Debug, Clone, Serialize, Deserialize)]
struct Case {
    seed: u64,
    /// per key: the packets that exist for it
    keys: Vec<Vec<Pkt>>,
    /// publish order: (key index, packet index)
    order: Vec<(u8, u8)>,
}

/// The records of payload variant `pay` in the zone of `z`.
fn records(z: &str, pay: u8) -> Vec<Rec> {
    const VALUES: [&str; 8] = ["a", "ab", "b", "aa", "relay=https://r.example./", "", "zzzz", "B"];
    let mut v = vec![Rec {
        owner: format!("_iroh.{z}"),
        ttl: 30,
        rd: RD::Txt(format!("{}{}", VALUES[pay as usize % 8], pay / 8)),
    }];
    if pay % 3 == 1 {
        v.push(Rec { owner: z.to_string(), ttl: 30, rd: RD::A([10, 0, 0, pay]) });
    }
    v
}

struct Built {
    ts: u64,
    dns: Vec<u8>,
    payload: Vec<u8>,
    recs: Vec<Rec>,
}

fn build(sk: &iroh_base::SecretKey, z: &str, p: &Pkt) -> Built {
    let recs = records(z, p.pay);
    let dns = dnssrv::build_dns(&recs, p.pay % 2 == 0);
    let ts = TS_POOL[p.ts as usize % 3];
    let payload = dnssrv::sign_payload(sk, ts, &dns);
    Built { ts, dns, payload, recs }
}

/// Reference model of one key: the maximum of everything published under (timestamp, dns bytes).
#[derive(Default)]
struct Model {
    best: Option<Built>,
}

enum Expect {
    Update,
    NoUpdate,
    /// byte-identical to the stored packet: the statement does not say which report is right
    Same,
}

impl Model {
    fn publish(&mut self, b: Built) -> Expect {
        match &self.best {
            None => {
                self.best = Some(b);
                Expect::Update
            }
            Some(cur) if cur.ts == b.ts && cur.dns == b.dns => Expect::Same,
            Some(cur) => {
                if dnssrv::newer((b.ts, &b.dns), (cur.ts, &cur.dns)) {
                    self.best = Some(b);
                    Expect::Update
                } else {
                    Expect::NoUpdate
                }
            }
        }
    }

    fn expected_records(&self, z: &str, origin: &str, rel: &str, rtype: u16) -> Vec<CanonRec> {
        let owner_in_packet = if rel.is_empty() { z.to_string() } else { format!("{rel}.{z}") };
        let qname = dnssrv::canon_name(&format!("{owner_in_packet}.{origin}"));
        let mut v: Vec<CanonRec> = self
            .best
            .iter()
            .flat_map(|b| b.recs.iter())
            .filter(|r| r.owner == owner_in_packet && r.rd.rtype() == rtype)
            .map(|r| (qname.clone(), rtype, r.rd.canon()))
            .collect();
        v.sort();
        v.dedup();
        v
    }
}

fn sorted(mut v: Vec<CanonRec>) -> Vec<CanonRec> {
    v.sort();
    v.dedup();
    v
}

#[derive(Default)]
struct Classes {
    stale_after_newer: bool,
    tie: bool,
    tie_smaller_after_larger: bool,
    duplicate: bool,
}

fn classify(case: &Case) -> (bool, Vec<&'static str>) {
    let mut c = Classes::default();
    let mut best: Vec<Option<(u64, Vec<u8>)>> = vec![None; case.keys.len()];
    for &(k, p) in &case.order {
        let (k, p) = (k as usize, p as usize);
        let sk = dnssrv::secret(case.seed, k as u32);
        let z = dnssrv::z32(sk.public().as_bytes());
        let b = build(&sk, &z, &case.keys[k][p]);
        match &best[k] {
            None => best[k] = Some((b.ts, b.dns)),
            Some((ts, dns)) => {
                if *ts == b.ts && *dns == b.dns {
                    c.duplicate = true;
                } else {
                    if *ts == b.ts {
                        c.tie = true;
                    }
                    if dnssrv::newer((b.ts, &b.dns), (*ts, dns)) {
                        best[k] = Some((b.ts, b.dns));
                    } else {
                        c.stale_after_newer = true;
                        if *ts == b.ts {
                            c.tie_smaller_after_larger = true;
                        }
                    }
                }
            }
        }
    }
    let mut l = vec![];
    if c.stale_after_newer {
        l.push("older-after-newer");
    }
    if c.tie {
        l.push("timestamp-tie");
    }
    if c.tie_smaller_after_larger {
        l.push("tie:smaller-after-larger");
    }
    if c.duplicate {
        l.push("duplicate-republish");
    }
    if case.keys.len() > 1 {
        l.push("multi-key");
    }
    (c.stale_after_newer || c.tie, l)
}

fn valid(case: &Case) -> bool {
    !case.keys.is_empty()
        && case.keys.len() <= 3
        && case.keys.iter().all(|k| !k.is_empty())
        && case.order.iter().all(|&(k, p)| (k as usize) < case.keys.len() && (p as usize) < case.keys[k as usize].len())
}

// ------------------------------------------------------------------ black box

fn run_blackbox(case: &Case) -> Outcome {
    if !valid(case) {
        return Outcome::Excluded("malformed case");
    }
    let res: Result<(), (String, String)> = engine::real_rt(async {
        let server = TestServer::start("c37").await;
        let mut http = Http::new(server.http);
        let udp = dnssrv::udp_socket().await;
        let sks: Vec<_> = (0..case.keys.len()).map(|k| dnssrv::secret(case.seed, k as u32)).collect();
        let zs: Vec<String> = sks.iter().map(|sk| dnssrv::z32(sk.public().as_bytes())).collect();
        let mut models: Vec<Model> = (0..case.keys.len()).map(|_| Model::default()).collect();
        let res = async {
            for (step, &(k, p)) in case.order.iter().enumerate() {
                let (k, p) = (k as usize, p as usize);
                let b = build(&sks[k], &zs[k], &case.keys[k][p]);
                let r = http.pkarr_put(&zs[k], &b.payload).await;
                if r.status != 204 {
                    return Err(("C37:valid-publish-rejected".to_string(), format!("step {step}: PUT of a correctly signed packet answered {}: {}", r.status, String::from_utf8_lossy(&r.body))));
                }
                models[k].publish(b);
                observe(&mut http, &udp, &server, &zs, &models, k, step, "after publish").await?;
            }
            // final state of every key
            for k in 0..case.keys.len() {
                observe(&mut http, &udp, &server, &zs, &models, k, case.order.len() + k, "final").await?;
            }
            Ok(())
        }
        .await;
        drop(http);
        server.stop().await;
        res
    });
    match res {
        Err((sig, detail)) => Outcome::violation(sig, detail),
        Ok(()) => {
            let (nt, classes) = classify(case);
            Outcome::pass_with(nt, classes)
        }
    }
}

async fn observe(
    http: &mut Http,
    udp: &tokio::net::UdpSocket,
    server: &TestServer,
    zs: &[String],
    models: &[Model],
    k: usize,
    step: usize,
    when: &str,
) -> Result<(), (String, String)> {
    let z = &zs[k];
    let m = &models[k];
    let r = http.pkarr_get(z).await;
    match &m.best {
        None => {
            if r.status != 404 {
                return Err(("C37:packet-without-publish".into(), format!("step {step} ({when}): GET /pkarr for a key without publish answered {}", r.status)));
            }
        }
        Some(b) => {
            if r.status != 200 || r.body != b.payload {
                let got_ts = r.body.get(64..72).map(|t| u64::from_be_bytes(t.try_into().unwrap()));
                return Err((
                    "C37:stored-not-newest".into(),
                    format!("step {step} ({when}): GET /pkarr/{z} status {} does not return the newest published packet: got ts {:?} dns {:?}, expected ts {} dns {:?}",
                        r.status, got_ts, r.body.get(72..).map(gens::hex_lower), b.ts, gens::hex_lower(&b.dns)),
                ));
            }
        }
    }
    // DNS: both record names the payloads use, alternating transport and origin
    for (i, (rel, rtype)) in [("_iroh", TYPE_TXT), ("", TYPE_A)].into_iter().enumerate() {
        let origin = if (step + i) % 2 == 0 { ORIGIN } else { "" };
        let owner = if rel.is_empty() { z.clone() } else { format!("{rel}.{z}") };
        let qname = if origin.is_empty() { owner.clone() } else { format!("{owner}.{origin}") };
        let msg = if (step / 2 + i) % 2 == 0 {
            dnssrv::udp_query(udp, server.dns, &qname, rtype).await
        } else {
            http.doh(&qname, rtype, dnssrv::next_query_id()).await
        };
        let expected = m.expected_records(z, origin, rel, rtype);
        let got = sorted(msg.answers.clone());
        if got != expected {
            return Err((
                "C37:dns-not-newest".into(),
                format!("step {step} ({when}): DNS answer for {qname}/{rtype} (rcode {}) is {:?}, the newest published packet has {:?}", msg.rcode, show(&got), show(&expected)),
            ));
        }
    }
    Ok(())
}

fn show(v: &[CanonRec]) -> Vec<String> {
    v.iter().map(|(n, t, d)| format!("{n}/{t}/{}", String::from_utf8_lossy(d))).collect()
}

// ------------------------------------------------------------------ in process

fn run_inproc(case: &Case) -> Outcome {
    if !valid(case) {
        return Outcome::Excluded("malformed case");
    }
    let res: Result<(), (String, String)> = engine::real_rt(async {
        let store = ZoneStoreHandle::in_memory(dnssrv::quiet_store_config()).expect("in-memory zone store");
        let sks: Vec<_> = (0..case.keys.len()).map(|k| dnssrv::secret(case.seed, k as u32)).collect();
        let zs: Vec<String> = sks.iter().map(|sk| dnssrv::z32(sk.public().as_bytes())).collect();
        let mut models: Vec<Model> = (0..case.keys.len()).map(|_| Model::default()).collect();
        let res = async {
            for (step, &(k, p)) in case.order.iter().enumerate() {
                let (k, p) = (k as usize, p as usize);
                let pk = *sks[k].public().as_bytes();
                let b = build(&sks[k], &zs[k], &case.keys[k][p]);
                let packet = SignedPacket::from_bytes(&dnssrv::full_packet(&pk, &b.payload)).expect("harness-signed packet verifies");
                let updated = store.insert(packet).await.map_err(|e| ("C37:insert-failed".to_string(), format!("step {step}: {e:?}")))?;
                let expect = models[k].publish(b);
                match expect {
                    Expect::Update if !updated => {
                        return Err(("C37:update-not-reported".into(), format!("step {step}: the packet became the stored packet but insert returned false")));
                    }
                    Expect::NoUpdate if updated => {
                        return Err(("C37:update-reported-for-older".into(), format!("step {step}: an older packet (or equal timestamp, smaller payload) was reported as an update")));
                    }
                    _ => {}
                }
                for k2 in 0..case.keys.len() {
                    let pk2 = *sks[k2].public().as_bytes();
                    let got = store.get_signed_packet(&pk2).await.map_err(|e| ("C37:get-failed".to_string(), format!("{e:?}")))?;
                    let want = models[k2].best.as_ref().map(|b| dnssrv::full_packet(&pk2, &b.payload));
                    if got.as_ref().map(|g| g.as_bytes().to_vec()) != want {
                        return Err(("C37:stored-not-newest".into(), format!("step {step}: key {k2}: stored packet ts {:?}, model ts {:?}", got.map(|g| g.timestamp().as_micros()), models[k2].best.as_ref().map(|b| b.ts))));
                    }
                    let wire = store.resolve_wire(&pk2, "_iroh", TYPE_TXT).await.map_err(|e| ("C37:resolve-failed".to_string(), format!("{e:?}")))?;
                    let got: Vec<Vec<u8>> = match wire {
                        None => vec![],
                        Some(w) => {
                            let m = dnssrv::parse_msg(&w).expect("hook message parses");
                            let mut v: Vec<_> = m.answers.into_iter().map(|r| r.2).collect();
                            v.sort();
                            v
                        }
                    };
                    let want: Vec<Vec<u8>> = models[k2].expected_records(&zs[k2], ORIGIN, "_iroh", TYPE_TXT).into_iter().map(|r| r.2).collect();
                    if got != want {
                        return Err(("C37:dns-not-newest".into(), format!("step {step}: key {k2}: resolve returns {got:?}, newest packet has {want:?}")));
                    }
                }
            }
            Ok(())
        }
        .await;
        drop(store);
        res
    });
    match res {
        Err((sig, detail)) => Outcome::violation(sig, detail),
        Ok(()) => {
            let (nt, classes) = classify(case);
            Outcome::pass_with(nt, classes)
        }
    }
}

// ------------------------------------------------------------------ cases

fn permutations(n: usize) -> Vec<Vec<u8>> {
    fn rec(cur: &mut Vec<u8>, used: &mut Vec<bool>, out: &mut Vec<Vec<u8>>) {
        if cur.len() == used.len() {
            out.push(cur.clone());
            return;
        }
        for i in 0..used.len() {
            if !used[i] {
                used[i] = true;
                cur.push(i as u8);
                rec(cur, used, out);
                cur.pop();
                used[i] = false;
            }
        }
    }
    let mut out = vec![];
    rec(&mut vec![], &mut vec![false; n], &mut out);
    out
}

/// Every multiset of `n` timestamps from the pool (as a non-decreasing assignment to packet
/// identities 0..n, identity j carrying payload variant j) times every publish order.
fn all_orders(max_n: usize) -> Vec<Case> {
    let mut out = vec![];
    for n in 1..=max_n {
        let mut assign = vec![0u8; n];
        loop {
            if assign.windows(2).all(|w| w[0] <= w[1]) {
                for perm in permutations(n) {
                    out.push(Case {
                        seed: 0xC37_0000 + out.len() as u64,
                        keys: vec![assign.iter().enumerate().map(|(j, &ts)| Pkt { ts, pay: j as u8 }).collect()],
                        order: perm.into_iter().map(|p| (0u8, p)).collect(),
                    });
                }
            }
            // next assignment in base 3
            let mut i = 0;
            loop {
                if i == n {
                    break;
                }
                assign[i] += 1;
                if assign[i] < 3 {
                    break;
                }
                assign[i] = 0;
                i += 1;
            }
            if i == n {
                break;
            }
        }
    }
    out
}

fn strategy() -> impl Strategy<Value = Case> {
    let pkt = (0u8..3, 0u8..6).prop_map(|(ts, pay)| Pkt { ts, pay });
    let key = proptest::collection::vec(pkt, 1..=5);
    (
        any::<u64>(),
        proptest::collection::vec(key, 1..=3),
        proptest::collection::vec((any::<u16>(), any::<u16>()), 1..=12),
    )
        .prop_map(|(seed, keys, picks)| {
            let order = picks
                .into_iter()
                .map(|(a, b)| {
                    let k = gens::pick(a, keys.len());
                    (k as u8, gens::pick(b, keys[k].len()) as u8)
                })
                .collect();
            Case { seed, keys, order }
        })
}

pub fn run(ctx: &Ctx) {
    ctx.rule("per key up to 5 packets with timestamps from a pool of 3 and distinct/equal payloads, published in every order (exhaustive: every multiset of <=4 timestamps x every permutation in process and <=3 against the server; thorough <=5 and <=4) and in random interleavings over up to 3 keys incl. re-publishing; reference = maximum of everything published under (timestamp, dns bytes); observed after every publish through GET /pkarr, DNS over UDP and DoH (black box) and through insert's result, get_signed_packet and resolve (in process); non-trivial = an older packet published after a newer one, or a timestamp tie");
    ctx.assume("packets are signed by the harness with iroh_base::SecretKey::sign over its own BEP44 signable; the report for re-publishing a byte-identical packet is not judged (the statement does not decide it)");
    let thorough = ctx.tier == engine::Tier::Thorough;
    let en = dnssrv::part_enabled;
    if en("inproc_all_orders") {
        ctx.enumerate_par("inproc_all_orders", all_orders(if thorough { 5 } else { 4 }), 8, run_inproc);
    }
    if en("inproc_random") {
        ctx.explore("inproc_random", ExploreOpts::new(ctx.tier.pick(600, 8000)).shrink(400), strategy, run_inproc);
    }
    if en("server_all_orders") {
        ctx.enumerate_par("server_all_orders", all_orders(if thorough { 4 } else { 3 }), 8, run_blackbox);
    }
    if en("server_random") {
        ctx.explore("server_random", ExploreOpts::new(ctx.tier.pick(150, 1500)).shrink(200), strategy, run_blackbox);
    }
    let _ = TYPE_A;
}
