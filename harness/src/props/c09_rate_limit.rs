//! C09 — relay per-client receive rate stays within the configured bucket.
//!
//! Part `bucket`: histories of (advance, consume) on the public `Bucket` under a paused clock,
//! against an exact-integer reference bucket written from the documentation.
//! Part `reader`: the relay's internal rate-limited reader (hook constructor) over a scripted
//! inner reader with live reconfiguration; every inner poll instant and every prefix of the byte
//! count is checked against the reference.

use std::{
    collections::VecDeque,
    num::NonZeroU32,
    pin::Pin,
    sync::{Arc, Mutex},
    task::{Context, Poll},
    time::Duration,
};

use iroh_relay::{
    server::{ClientRateLimit, Metrics, streams::Bucket},
    verif::ratelimit::rate_limited_reader,
};
use proptest::prelude::*;
use serde::{Deserialize, Serialize};
use tokio::{
    io::{AsyncRead, AsyncReadExt, ReadBuf},
    sync::watch,
    time::Instant,
};

use crate::{
    check,
    engine::{self, Ctx, ExploreOpts, Outcome},
};

// ---------------------------------------------------------------------------------------------
// reference bucket (exact integers, milliseconds since the start of the case)

#[derive(Debug, Clone)]
struct RefBucket {
    fill: i128,
    max: i128,
    refill: i128,
    period_ms: u64,
    /// instant of the last refill boundary
    epoch_ms: u64,
}

impl RefBucket {
    /// The documented conditions of `Bucket::new`; `None` if the configuration is invalid.
    fn new(max: i64, rate: i64, period: Duration, now_ms: u64) -> Option<Self> {
        let period_ms = period.as_millis();
        if max <= 0 || rate <= 0 || period_ms == 0 || period_ms > u32::MAX as u128 {
            return None;
        }
        // tokens per period; the API computes in i64, so the product is capped there
        let refill = (rate as i128 * period_ms as i128).min(i64::MAX as i128) / 1000;
        if refill < 1 {
            return None;
        }
        Some(Self { fill: max as i128, max: max as i128, refill, period_ms: period_ms as u64, epoch_ms: now_ms })
    }

    fn advance_to(&mut self, now_ms: u64) {
        let k = (now_ms - self.epoch_ms) / self.period_ms;
        if k > 0 {
            self.fill = (self.fill + k as i128 * self.refill).min(self.max);
            self.epoch_ms += k * self.period_ms;
        }
    }

    /// `Ok(remaining)` if tokens remain, else `Err((deadline_ms, periods))`: the earliest refill
    /// instant at which the level is positive again.
    fn consume(&mut self, now_ms: u64, n: u64) -> Result<i128, (u128, u128)> {
        self.advance_to(now_ms);
        self.fill -= n as i128;
        if self.fill > 0 {
            return Ok(self.fill);
        }
        let missing = -self.fill;
        // smallest k with fill + k*refill > 0
        let k = (missing / self.refill + 1) as u128;
        Err((self.epoch_ms as u128 + k * self.period_ms as u128, k))
    }
}

// ---------------------------------------------------------------------------------------------
// part 1: Bucket

#[derive(Debug, Clone, Serialize, Deserialize)]
enum BStep {
    /// advance the clock, then consume
    Step { dt_ms: u64, n: u64 },
    /// advance to the last reported deadline plus `offset_ms` (-1, 0, +1), then consume
    AtDeadline { offset_ms: i8, n: u64 },
    /// consume a byte count far outside any real read (only "no panic, sane answer" is checked
    /// from here on)
    Extreme { dt_ms: u64, kind: u8 },
}

#[derive(Debug, Clone, Serialize, Deserialize)]
struct BucketCase {
    max: i64,
    rate: i64,
    period_us: u64,
    steps: Vec<BStep>,
}

/// Log-uniform positive i64 with exact corner values.
fn big_i64() -> impl Strategy<Value = i64> + Clone {
    prop_oneof![
        10 => (0u32..63, any::<u64>()).prop_map(|(bits, m)| {
            let hi = 1u64 << bits;
            (hi | (m & (hi - 1))) as i64
        }),
        2 => Just(i64::MAX),
        1 => Just(i64::MAX - 1),
        1 => Just(1i64),
        1 => prop_oneof![Just(0i64), Just(-1), Just(i64::MIN), any::<i64>().prop_map(|v| -(v.saturating_abs()))],
    ]
}

fn period_us() -> impl Strategy<Value = u64> + Clone {
    prop_oneof![
        4 => Just(100_000u64),
        4 => (0u32..22, any::<u32>()).prop_map(|(bits, m)| {
            let hi = 1u64 << bits;
            ((hi | (m as u64 & (hi - 1))).min(3_600_000)) * 1000
        }),
        1 => prop_oneof![Just(0u64), Just(1), Just(500), Just(999), Just(1000), Just(1500), Just(100_250)],
    ]
}

fn bucket_strategy() -> impl Strategy<Value = BucketCase> + Clone {
    (big_i64(), big_i64(), period_us(), prop_oneof![5 => Just(0u32), 1 => Just(1u32)]).prop_flat_map(|(max, rate, period_us, extreme_weight)| {
        let period_ms = (period_us / 1000).max(1);
        let refill = ((rate.max(1) as i128 * period_ms as i128) / 1000).clamp(1, 1 << 41) as u64;
        let maxc = (max.max(1) as u64).min(1 << 41);
        let n = prop_oneof![
            2 => Just(0u64),
            2 => 1u64..10,
            3 => (0u64..=4, any::<bool>()).prop_map(move |(d, up)| if up { maxc.saturating_add(d) } else { maxc.saturating_sub(d) }),
            3 => (1u64..6, 0u64..3).prop_map(move |(k, d)| (refill.saturating_mul(k) + d).saturating_sub(1)),
            2 => (0u64..=maxc).prop_map(|v| v),
            2 => (0u32..41, any::<u64>()).prop_map(|(bits, m)| { let hi = 1u64 << bits; hi | (m & (hi - 1)) }),
        ]
        .prop_map(|n| n.min(1 << 40));
        let dt = prop_oneof![
            3 => Just(0u64),
            2 => (0u64..3).prop_map(move |d| (period_ms + d).saturating_sub(1)),
            3 => (1u64..12, 0u64..3).prop_map(move |(k, d)| (period_ms * k + d).saturating_sub(1)),
            2 => 0u64..5000,
            2 => (0u32..32, any::<u32>()).prop_map(|(bits, m)| { let hi = 1u64 << bits; (hi | (m as u64 & (hi - 1))).min(30 * 86_400_000) }),
            1 => Just(101_000u64),
        ];
        let step = prop_oneof![
            12 => (dt.clone(), n.clone()).prop_map(|(dt_ms, n)| BStep::Step { dt_ms, n }),
            4 => (-1i8..=1, n).prop_map(|(offset_ms, n)| BStep::AtDeadline { offset_ms, n }),
            extreme_weight => (dt, 0u8..4).prop_map(|(dt_ms, kind)| BStep::Extreme { dt_ms, kind }),
        ];
        proptest::collection::vec(step, 1..40).prop_map(move |steps| BucketCase { max, rate, period_us, steps })
    })
}

const MAX_WAIT_MS: u128 = 30 * 86_400_000;

fn bucket_case(c: &BucketCase) -> Outcome {
    engine::paused_rt(async move { bucket_async(c).await })
}

async fn bucket_async(c: &BucketCase) -> Outcome {
    let t0 = Instant::now();
    let period = Duration::from_micros(c.period_us);
    let real = Bucket::new(c.max, c.rate, period);
    let model = RefBucket::new(c.max, c.rate, period, 0);
    match (&real, &model) {
        (Ok(_), None) => return Outcome::violation("C09:new-accepts-invalid", format!("Bucket::new({}, {}, {period:?}) accepted; the documented conditions reject it", c.max, c.rate)),
        (Err(e), Some(m)) => return Outcome::violation("C09:new-rejects-valid", format!("Bucket::new({}, {}, {period:?}) rejected ({e}); refill per period would be {}", c.max, c.rate, m.refill)),
        (Err(e), None) => {
            let _ = format!("{e} {e:?}");
            return Outcome::pass_with(false, vec!["config-rejected"]);
        }
        (Ok(_), Some(_)) => {}
    }
    let (mut real, mut model) = (real.unwrap(), model.unwrap());
    if c.period_us % 1000 != 0 {
        // a period that is not a whole number of milliseconds: the timer resolution is 1 ms and
        // the documentation does not say how the remainder is treated; only construction is checked
        return Outcome::pass_with(false, vec!["config-fractional-period"]);
    }
    let capped = c.rate as i128 * model.period_ms as i128 > i64::MAX as i128;
    let mut now: u64 = 0;
    let mut exact = true;
    let mut last_deadline: Option<u128> = None;
    let (mut throttles, mut refilled_after_throttle, mut oks) = (0u32, 0u32, 0u32);
    let mut classes: Vec<&'static str> = vec![];
    let class = |c: &'static str, classes: &mut Vec<&'static str>| {
        if !classes.contains(&c) {
            classes.push(c);
        }
    };
    if capped {
        class("rate-times-period-above-i64", &mut classes);
    }
    for (i, step) in c.steps.iter().enumerate() {
        let (dt, n, extreme) = match step {
            BStep::Step { dt_ms, n } => (*dt_ms, *n as u128, false),
            BStep::AtDeadline { offset_ms, n } => {
                let dt = match last_deadline {
                    Some(d) if d + 1 >= now as u128 && d - (now as u128).min(d) <= MAX_WAIT_MS => ((d as i128 + *offset_ms as i128 - now as i128).max(0)) as u64,
                    _ => 0,
                };
                if last_deadline.is_some() {
                    class("consume-around-deadline", &mut classes);
                }
                (dt, *n as u128, false)
            }
            BStep::Extreme { dt_ms, kind } => (*dt_ms, [usize::MAX as u128, i64::MAX as u128, (i64::MAX as u128) + 1, 1u128 << 62][*kind as usize % 4], true),
        };
        if dt > 0 {
            tokio::time::advance(Duration::from_millis(dt)).await;
            now += dt;
        }
        let got = real.consume(n.min(usize::MAX as u128) as usize);
        let got_ms = match got {
            Ok(()) => None,
            Err(deadline) => {
                check!(deadline >= t0, "C09:deadline-before-start", "step {i}: deadline lies before the bucket was created");
                let d = deadline - t0;
                Some(d.as_millis())
            }
        };
        if let Some(d) = got_ms {
            // "no byte count makes the limiter stall forever": the wait must be what the debt needs
            check!(d >= model.epoch_ms as u128, "C09:deadline-in-the-past", "step {i}: deadline {d} ms precedes the last refill boundary {} ms", model.epoch_ms);
        }
        if extreme || !exact {
            exact = false;
            class("extreme-byte-count", &mut classes);
            last_deadline = got_ms;
            continue;
        }
        let want = model.consume(now, n as u64);
        match (got_ms, want) {
            (None, Ok(_)) => oks += 1,
            (Some(d), Err((wd, k))) => {
                throttles += 1;
                if k > u32::MAX as u128 {
                    // more refill periods than the API's u32 can count; outside the time domain
                    class("deadline-beyond-u32-periods", &mut classes);
                } else {
                    if d > wd {
                        return Outcome::violation("C09:resumes-late", format!("step {i} ({step:?}) at {now} ms: deadline {d} ms, the bucket (max {}, refill {} per {} ms, level {}) is positive again at {wd} ms", c.max, model.refill, model.period_ms, model.fill));
                    }
                    if d < wd {
                        return Outcome::violation("C09:resumes-early", format!("step {i} ({step:?}) at {now} ms: deadline {d} ms, but the bucket (max {}, refill {} per {} ms, level {}) is not positive before {wd} ms", c.max, model.refill, model.period_ms, model.fill));
                    }
                }
            }
            (None, Err((wd, _))) => {
                // level exactly zero: the documentation's "enough tokens were available" admits Ok
                if model.fill == 0 {
                    class("level-exactly-zero-ok", &mut classes);
                } else {
                    return Outcome::violation("C09:over-admission", format!("step {i} ({step:?}) at {now} ms: consume returned Ok but the bucket (max {}, refill {} per {} ms) is at {} (positive again at {wd} ms)", c.max, model.refill, model.period_ms, model.fill));
                }
            }
            (Some(d), Ok(level)) => {
                return Outcome::violation("C09:throttled-with-tokens", format!("step {i} ({step:?}) at {now} ms: consume returned Err({d} ms) but the bucket (max {}, refill {} per {} ms) still holds {level}", c.max, model.refill, model.period_ms));
            }
        }
        if got_ms.is_none() && last_deadline.is_some() && throttles > 0 {
            refilled_after_throttle += 1;
        }
        last_deadline = got_ms;
    }
    let _ = oks;
    if throttles > 0 {
        class("throttled", &mut classes);
    }
    if refilled_after_throttle > 0 {
        class("ok-after-throttle", &mut classes);
    }
    Outcome::pass_with(throttles > 0 && refilled_after_throttle > 0, classes)
}

// ---------------------------------------------------------------------------------------------
// part 2: the rate-limited reader

#[derive(Debug, Clone, Copy, PartialEq, Eq, Serialize, Deserialize)]
struct Limit {
    bps: u32,
    burst: Option<u32>,
}

impl Limit {
    fn real(&self) -> ClientRateLimit {
        let mut l = ClientRateLimit::new(NonZeroU32::new(self.bps.max(1)).unwrap());
        l.max_burst_bytes = self.burst.and_then(NonZeroU32::new);
        l
    }
    /// (burst, bytes per second) as documented: burst defaults to a tenth of the rate.
    fn bucket(&self, now_ms: u64) -> Option<RefBucket> {
        let bps = self.bps.max(1);
        let burst = self.burst.filter(|b| *b != 0).unwrap_or(bps / 10);
        RefBucket::new(burst as i64, bps as i64, Duration::from_millis(100), now_ms)
    }
}

#[derive(Debug, Clone, Serialize, Deserialize)]
enum Chunk {
    Data(u32),
    /// the inner reader returns Pending and wakes after this many milliseconds (made even)
    Pending(u32),
}

#[derive(Debug, Clone, Serialize, Deserialize)]
enum ROp {
    Read(u32),
    /// `set_client_rate_limit` between two reads
    SetLimit(Option<Limit>),
    /// the same from another task after a delay (made odd, so it never coincides with a poll)
    SetLimitAfter(u32, Option<Limit>),
    Idle(u32),
}

#[derive(Debug, Clone, Serialize, Deserialize)]
struct ReaderCase {
    initial: Option<Limit>,
    script: Vec<Chunk>,
    ops: Vec<ROp>,
}

fn limit() -> impl Strategy<Value = Option<Limit>> + Clone {
    let bps = prop_oneof![
        1 => 1u32..10,
        1 => 10u32..100,
        6 => 100u32..200_000,
        1 => Just(u32::MAX),
    ];
    let burst = prop_oneof![
        2 => Just(None),
        1 => Just(Some(0u32)),
        1 => Just(Some(1u32)),
        5 => (1u32..60_000).prop_map(Some),
        1 => Just(Some(u32::MAX)),
    ];
    prop_oneof![
        1 => Just(None),
        7 => (bps, burst).prop_map(|(bps, burst)| Some(Limit { bps, burst })),
    ]
}

fn reader_strategy() -> impl Strategy<Value = ReaderCase> + Clone {
    let chunk = prop_oneof![
        6 => prop_oneof![1u32..200, 1u32..20_000, Just(4096), Just(16_384)].prop_map(Chunk::Data),
        2 => prop_oneof![Just(0u32), 1u32..50, 50u32..3000].prop_map(Chunk::Pending),
    ];
    let op = prop_oneof![
        12 => prop_oneof![1u32..64, 64u32..16_385, Just(4096)].prop_map(ROp::Read),
        2 => limit().prop_map(ROp::SetLimit),
        2 => (prop_oneof![0u32..300, 0u32..5000], limit()).prop_map(|(d, l)| ROp::SetLimitAfter(d, l)),
        2 => prop_oneof![0u32..250, 0u32..3000].prop_map(ROp::Idle),
    ];
    (limit(), proptest::collection::vec(chunk, 0..30), proptest::collection::vec(op, 1..40)).prop_map(|(initial, script, ops)| ReaderCase { initial, script, ops })
}

#[derive(Debug, Clone, Copy, PartialEq, Eq)]
enum PollResult {
    Pending { until_ms: u64 },
    Data(usize),
    Eof,
}

#[derive(Debug, Clone, Copy)]
struct PollRec {
    at_ms: u64,
    result: PollResult,
}

struct Scripted {
    chunks: VecDeque<Chunk>,
    sleep: Option<(Pin<Box<tokio::time::Sleep>>, u64)>,
    log: Arc<Mutex<Vec<PollRec>>>,
    t0: Instant,
}

impl AsyncRead for Scripted {
    fn poll_read(mut self: Pin<&mut Self>, cx: &mut Context<'_>, buf: &mut ReadBuf<'_>) -> Poll<std::io::Result<()>> {
        let this = &mut *self;
        let at_ms = (Instant::now() - this.t0).as_millis() as u64;
        loop {
            match this.chunks.front().cloned() {
                None => {
                    this.log.lock().unwrap().push(PollRec { at_ms, result: PollResult::Eof });
                    return Poll::Ready(Ok(()));
                }
                Some(Chunk::Pending(d)) => {
                    let d = (d as u64) & !1;
                    if this.sleep.is_none() {
                        this.sleep = Some((Box::pin(tokio::time::sleep(Duration::from_millis(d))), at_ms + d));
                    }
                    let (sleep, until_ms) = this.sleep.as_mut().unwrap();
                    let until_ms = *until_ms;
                    match sleep.as_mut().poll(cx) {
                        Poll::Pending => {
                            this.log.lock().unwrap().push(PollRec { at_ms, result: PollResult::Pending { until_ms } });
                            return Poll::Pending;
                        }
                        Poll::Ready(()) => {
                            this.sleep = None;
                            this.chunks.pop_front();
                        }
                    }
                }
                Some(Chunk::Data(n)) => {
                    let k = (n as usize).min(buf.remaining());
                    buf.put_slice(&vec![0xA5u8; k]);
                    if k == n as usize {
                        this.chunks.pop_front();
                    } else {
                        *this.chunks.front_mut().unwrap() = Chunk::Data(n - k as u32);
                    }
                    this.log.lock().unwrap().push(PollRec { at_ms, result: PollResult::Data(k) });
                    return Poll::Ready(Ok(()));
                }
            }
        }
    }
}

fn reader_case(c: &ReaderCase) -> Outcome {
    engine::paused_rt(async move { reader_async(c).await })
}

async fn reader_async(c: &ReaderCase) -> Outcome {
    let t0 = Instant::now();
    let now_ms = || (Instant::now() - t0).as_millis() as u64;
    let log: Arc<Mutex<Vec<PollRec>>> = Default::default();
    let inner = Scripted { chunks: c.script.iter().cloned().collect(), sleep: None, log: log.clone(), t0 };
    let (tx, rx) = watch::channel(c.initial.map(|l| l.real()));
    let tx = Arc::new(tx);
    let valid = |l: &Option<Limit>, at: u64| -> Result<Option<RefBucket>, ()> {
        match l {
            None => Ok(None),
            Some(l) => l.bucket(at).map(Some).ok_or(()),
        }
    };
    let res = rate_limited_reader(inner, rx, Arc::new(Metrics::default()));
    let mut bucket: Option<RefBucket> = match (res.is_ok(), valid(&c.initial, 0)) {
        (true, Ok(b)) => b,
        (false, Err(())) => return Outcome::pass_with(false, vec!["initial-config-rejected"]),
        (true, Err(())) => return Outcome::violation("C09:new-accepts-invalid", format!("reader constructed with invalid limit {:?}", c.initial)),
        (false, Ok(_)) => return Outcome::violation("C09:new-rejects-valid", format!("reader construction failed for valid limit {:?}", c.initial)),
    };
    let Ok((mut reader, limited)) = res else { unreachable!() };
    // model state
    let mut sends: Vec<(u64, Option<Limit>)> = vec![]; // (instant, value), not yet observed by a poll
    let mut throttle_until: Option<u64> = None;
    let mut epoch_start: u64 = 0;
    let mut epoch_bytes: u128 = 0;
    let mut max_read: u128 = 0;
    let mut expected_count: u64 = 0;
    let mut log_pos = 0usize;
    let mut tasks = vec![];
    let mut classes: Vec<&'static str> = vec![];
    let class = |c: &'static str, classes: &mut Vec<&'static str>| {
        if !classes.contains(&c) {
            classes.push(c);
        }
    };
    let (mut throttles, mut resumed, mut reconfig_while_throttled) = (0u32, 0u32, 0u32);
    let mut buf = vec![0u8; 16_385];

    for (i, op) in c.ops.iter().enumerate() {
        match op {
            ROp::Idle(ms) => tokio::time::sleep(Duration::from_millis((*ms as u64) & !1)).await,
            ROp::SetLimit(l) => {
                tx.send_replace(l.map(|l| l.real()));
                sends.push((now_ms(), *l));
                sends.sort_by_key(|(t, _)| *t);
            }
            ROp::SetLimitAfter(d, l) => {
                let at = now_ms() + ((*d as u64) | 1);
                if sends.iter().any(|(t, _)| *t == at) {
                    continue;
                }
                sends.push((at, *l));
                sends.sort_by_key(|(t, _)| *t);
                let (tx, l, d) = (tx.clone(), *l, (*d as u64) | 1);
                tasks.push(tokio::spawn(async move {
                    tokio::time::sleep(Duration::from_millis(d)).await;
                    tx.send_replace(l.map(|l| l.real()));
                }));
            }
            ROp::Read(size) => {
                let size = (*size as usize).clamp(1, buf.len());
                let start = now_ms();
                let before = *limited.borrow();
                let res = tokio::time::timeout(Duration::from_secs(40 * 86_400), reader.read(&mut buf[..size])).await;
                let end = now_ms();
                let n = match res {
                    Err(_) => return Outcome::violation("C09:stalls", format!("op {i}: read started at {start} ms did not complete within 40 days of virtual time (throttled until {throttle_until:?})")),
                    Ok(Err(e)) => return Outcome::violation("C09:io-error", format!("op {i}: read failed: {e}")),
                    Ok(Ok(n)) => n,
                };
                let polls: Vec<PollRec> = log.lock().unwrap()[log_pos..].to_vec();
                log_pos += polls.len();
                check!(!polls.is_empty(), "C09:no-inner-poll", "op {i}: read returned {n} bytes without polling the inner reader");
                // Walk the polls of the rate-limited reader: one at the start of the read, then one
                // per wake-up (end of a throttle wait, or the inner reader's wake-up).
                let mut t = start; // instant of the current poll of the rate-limited reader
                let mut prev_poll = None::<u64>;
                for (j, p) in polls.iter().enumerate() {
                    loop {
                        // configuration changes sent before this poll are picked up by it
                        let seen: Vec<(u64, Option<Limit>)> = sends.iter().filter(|(at, _)| *at <= t).cloned().collect();
                        sends.retain(|(at, _)| *at > t);
                        if let Some((_, l)) = seen.last() {
                            match valid(l, t) {
                                Ok(b) => {
                                    if throttle_until.is_some_and(|d| d > t) {
                                        reconfig_while_throttled += 1;
                                        class("reconfigured-while-throttled", &mut classes);
                                    }
                                    bucket = b;
                                    throttle_until = None;
                                    epoch_start = t;
                                    epoch_bytes = 0;
                                    class(if l.is_none() { "limit-removed-live" } else { "limit-changed-live" }, &mut classes);
                                }
                                Err(()) => class("invalid-live-update-ignored", &mut classes),
                            }
                        }
                        match throttle_until {
                            Some(d) if d > t && bucket.is_some() => {
                                // still throttled: the reader sleeps until d and is polled again then
                                t = d;
                                resumed += 1;
                            }
                            _ => break,
                        }
                    }
                    throttle_until = None;
                    // the inner reader must be polled now
                    if p.at_ms > t {
                        return Outcome::violation("C09:resumes-late", format!("op {i}: inner reader polled at {} ms (poll {j} of this read, started {start} ms); the bucket allowed reading at {t} ms", p.at_ms));
                    }
                    if p.at_ms < t {
                        return Outcome::violation("C09:resumes-early", format!("op {i}: inner reader polled at {} ms (poll {j} of this read, started {start} ms) while the bucket is empty until {t} ms", p.at_ms));
                    }
                    let _ = prev_poll.replace(p.at_ms);
                    match p.result {
                        PollResult::Pending { until_ms } => {
                            check!(j + 1 < polls.len(), "C09:read-returned-while-pending", "op {i}: read returned although the inner reader was pending");
                            t = until_ms;
                        }
                        PollResult::Data(k) => {
                            check!(j + 1 == polls.len() && k == n, "C09:bytes-mismatch", "op {i}: inner reader gave {k} bytes in poll {j} of {}, read returned {n}", polls.len());
                        }
                        PollResult::Eof => {
                            check!(j + 1 == polls.len() && n == 0, "C09:bytes-mismatch", "op {i}: inner reader at EOF, read returned {n}");
                        }
                    }
                }
                check!(end == t, "C09:completion-time", "op {i}: read completed at {end} ms, the inner reader delivered at {t} ms");
                // account the bytes
                max_read = max_read.max(n as u128);
                let after = *limited.borrow();
                if let Some(b) = bucket.as_mut() {
                    epoch_bytes += n as u128;
                    // the statement's bound, for this prefix
                    let periods = ((end - epoch_start) / 100) as u128;
                    let bound = b.max as u128 + b.refill as u128 * periods + max_read;
                    check!(epoch_bytes <= bound, "C09:prefix-bound", "op {i}: {epoch_bytes} bytes read in the {} ms since the limit took effect; burst {} + {} refills of {} + one read of {max_read} = {bound}", end - epoch_start, b.max, periods, b.refill);
                    match b.consume(end, n as u64) {
                        Ok(_) => check!(after == before, "C09:throttle-signal", "op {i}: throttle counter went {before} -> {after} although the bucket still holds tokens"),
                        Err((deadline, _)) => {
                            if b.fill == 0 && after == before {
                                class("level-exactly-zero-ok", &mut classes);
                            } else {
                                check!(after == before + 1, "C09:throttle-signal", "op {i}: throttle counter went {before} -> {after} for a read that emptied the bucket (level {})", b.fill);
                                expected_count += 1;
                                throttles += 1;
                                throttle_until = Some(deadline.min(u64::MAX as u128) as u64);
                                class("throttled", &mut classes);
                            }
                        }
                    }
                } else {
                    check!(after == before, "C09:throttle-signal", "op {i}: throttle counter changed without a limit");
                    class("read-unlimited", &mut classes);
                }
            }
        }
    }
    let _ = expected_count;
    for t in tasks {
        t.abort();
    }
    if resumed > 0 {
        class("resumed-after-refill", &mut classes);
    }
    Outcome::pass_with((throttles > 0 && resumed > 0) || reconfig_while_throttled > 0, classes)
}

pub fn run(ctx: &Ctx) {
    ctx.rule("bucket: max and rate log-uniform over 1..=i64::MAX plus non-positive values, period 1 ms..1 h plus zero/sub-millisecond/fractional values; 1..40 steps of (advance 0..30 days, consume 0..2^40 bytes), consume at/just before/just after the last reported deadline, and extreme byte counts (usize::MAX, i64::MAX); reference = exact integer bucket; non-trivial = at least one throttle and one Ok after it");
    ctx.rule("reader: the relay's rate-limited reader over a scripted inner reader (chunks 1..20000 bytes, Pending with delayed wake), reads with 1..16385 byte buffers, live ClientRateLimit changes between reads and from another task (incl. None, invalid values, u32::MAX); every inner poll instant, every read's completion instant, the throttle counter and the statement's bound for every prefix are checked; non-trivial = a throttle followed by a refill-gated resume, or a reconfiguration while throttled");
    ctx.assume("time advances between two consume calls stay below 2^32 ms (49.7 days); no relay connection idles that long (keep-alive)");
    ctx.assume("refill periods are whole milliseconds (the relay uses 100 ms); for other periods only Bucket::new is checked");
    ctx.assume("a consume that leaves the level at exactly zero may answer either way (documentation: Ok 'if enough tokens were available'; implementation: throttles)");
    ctx.assume("deadlines needing more than u32::MAX refill periods are outside the time domain and only required to lie in the future");
    let k = ctx.tier.pick(1, 10);
    ctx.explore("bucket", ExploreOpts::new(100_000 * k).shrink(600), bucket_strategy, bucket_case);
    ctx.explore("reader", ExploreOpts::new(30_000 * k).shrink(600), reader_strategy, reader_case);
}
