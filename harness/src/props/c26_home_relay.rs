//! C26 — the published home relay is the relay most recently chosen.
//!
//! Real code: `HomeRelayWatch::{set, clear, set_status, get}` (through
//! `iroh::verif_netreport::HomeRelay`) with the pause point
//! `home_relay_watch:set_status:checked` between the guard's read and its write.  Three actors
//! on OS threads — the relay actor (chooser) and two relay connections — are driven through
//! every interleaving of their atomic steps; the oracle only uses the chooser's own program
//! order and the values observed.

use std::sync::{
    Arc,
    atomic::{AtomicUsize, Ordering},
};

use iroh::verif_netreport::{HomeRelay, HomeState};
use iroh_base::RelayUrl;
use serde::{Deserialize, Serialize};

use crate::{
    check,
    engine::{Ctx, Outcome},
    support::sched::{self, Run, Status, StepResult},
};

const POINT: &str = "home_relay_watch:set_status:checked";
const CHOOSER: usize = 0;

fn url(i: u8) -> RelayUrl {
    format!("https://relay-{}.verif.test", (b'a' + i) as char).parse().expect("url")
}

#[derive(Debug, Clone, Copy, PartialEq, Eq, Serialize, Deserialize)]
enum ChooserOp {
    /// the relay actor makes relay `i` the home relay (`set(url_i, Connecting)`)
    Set(u8),
    /// no preferred relay any more
    Clear,
}

#[derive(Debug, Clone, Serialize, Deserialize)]
struct Program {
    chooser: Vec<ChooserOp>,
    /// `conns[i]`: the states relay connection `i` (for relay `i`) reports, in order.
    /// 1 = Connected, 2 = Disconnected(no error), 3 = Disconnected(error)
    conns: Vec<Vec<u8>>,
}

#[derive(Debug, Clone, Serialize, Deserialize)]
struct Case {
    program: Program,
    /// actor to release at each step (0 = chooser, 1.. = connections); entries naming an actor
    /// that is not stopped are skipped, and at the end everything is run to completion
    schedule: Vec<u8>,
}

fn conn_state(conn: usize, k: usize, code: u8) -> HomeState {
    match code {
        1 => HomeState::Connected,
        2 => HomeState::Disconnected(None),
        _ => HomeState::Disconnected(Some(format!("error-of-conn{conn}-op{k}"))),
    }
}

fn target(op: Option<&ChooserOp>) -> Option<RelayUrl> {
    match op {
        Some(ChooserOp::Set(i)) => Some(url(*i)),
        Some(ChooserOp::Clear) | None => None,
    }
}

fn run_case(c: &Case) -> Outcome {
    let p = &c.program;
    let watch = HomeRelay::default();
    let started = Arc::new(AtomicUsize::new(0));
    let done = Arc::new(AtomicUsize::new(0));

    let mut actors: Vec<sched::ActorFn> = vec![];
    {
        let (w, ops, started, done) = (watch.clone(), p.chooser.clone(), started.clone(), done.clone());
        actors.push(Box::new(move || {
            for (k, op) in ops.iter().enumerate() {
                if k > 0 {
                    sched::harness_point("between-ops");
                }
                started.fetch_add(1, Ordering::SeqCst);
                match op {
                    ChooserOp::Set(i) => w.set(url(*i), &HomeState::Connecting),
                    ChooserOp::Clear => w.clear(),
                }
                done.fetch_add(1, Ordering::SeqCst);
            }
        }));
    }
    for (ci, ops) in p.conns.iter().enumerate() {
        let (w, ops) = (watch.clone(), ops.clone());
        actors.push(Box::new(move || {
            let me = url(ci as u8);
            for (k, code) in ops.iter().enumerate() {
                if k > 0 {
                    sched::harness_point("between-ops");
                }
                w.set_status(&me, &conn_state(ci, k, *code));
            }
        }));
    }
    let run = Run::start(actors, &[POINT]);

    // The advertised URL must be the target of a chooser operation that is the latest
    // completed one or one that has started and not completed (read the counters around the
    // observation so that the check does not depend on the driver's view of the schedule).
    let observe = |when: &str| -> Result<(), Outcome> {
        let d = done.load(Ordering::SeqCst);
        let seen = watch.get();
        let seen_by_watchers = watch.watched();
        let s = started.load(Ordering::SeqCst);
        let lo = d.saturating_sub(1);
        let mut allowed: Vec<Option<RelayUrl>> = vec![];
        if d == 0 {
            allowed.push(None);
        }
        for k in lo..s {
            if d == 0 || k + 1 >= d {
                allowed.push(target(p.chooser.get(k)));
            }
        }
        for (what, u) in [("get()", seen.as_ref().map(|x| x.0.clone())), ("watch().get()", seen_by_watchers)] {
            if !allowed.contains(&u) {
                let chosen: Vec<String> = allowed.iter().map(|a| format!("{:?}", a.as_ref().map(|u| u.to_string()))).collect();
                let sig = if u.is_some() { "C26:demoted-relay-readvertised" } else { "C26:home-relay-lost" };
                return Err(Outcome::violation(sig, format!("{when}: {what} advertises {:?} but the relay actor's latest choice is {}", u.map(|u| u.to_string()), chosen.join(" or "))));
            }
        }
        // the reported state belongs to the advertised relay
        if let Some((u, st)) = &seen {
            let conn = (0..p.conns.len()).find(|i| url(*i as u8) == *u);
            let mut ok = *st == HomeState::Connecting;
            if let Some(ci) = conn {
                ok |= p.conns[ci].iter().enumerate().any(|(k, code)| conn_state(ci, k, *code) == *st);
            }
            if !ok {
                return Err(Outcome::violation("C26:foreign-status", format!("{when}: advertised {u} with state {st:?}, which neither the relay actor nor the connection of {u} reported")));
            }
        }
        Ok(())
    };

    let mut in_window = false; // a chooser step was taken while a connection sat between check and write
    let mut blocked_seen = false;
    let mut do_step = |a: usize| -> Result<(), Outcome> {
        if a == CHOOSER && run.status(CHOOSER) != Status::Done {
            if (1..run.len()).any(|i| run.status(i) == Status::Stopped(POINT.to_string())) {
                in_window = true;
            }
        }
        let r = run.step(a);
        if r == StepResult::Blocked {
            blocked_seen = true;
        }
        if r != StepResult::NotEnabled {
            observe(&format!("after a step of actor {a}"))?;
        }
        Ok(())
    };
    if let Err(o) = observe("initially") {
        return o;
    }
    for a in &c.schedule {
        let a = *a as usize;
        if a >= run.len() {
            continue;
        }
        if let Err(o) = do_step(a) {
            return o;
        }
    }
    loop {
        let en = run.enabled();
        let Some(a) = en.first() else { break };
        if let Err(o) = do_step(*a) {
            return o;
        }
    }
    let panics = run.finish();
    check!(panics.is_empty(), "C26:panic", "actor panicked: {:?}", panics);
    // quiescent: every operation has completed
    check!(done.load(Ordering::SeqCst) == p.chooser.len(), "C26:harness", "chooser did not complete");
    if let Err(o) = observe("at the end") {
        return o;
    }
    let mut classes = vec![];
    if in_window { classes.push("choice-inside-set_status-window"); }
    if blocked_seen { classes.push("an-actor-blocked-on-a-lock"); }
    if p.chooser.len() >= 2 && p.chooser.first() == p.chooser.last() { classes.push("re-promotion"); }
    Outcome::pass_with(in_window, classes)
}

fn programs(max_steps: usize) -> Vec<Program> {
    let cops = [ChooserOp::Set(0), ChooserOp::Set(1), ChooserOp::Clear];
    let mut choosers: Vec<Vec<ChooserOp>> = vec![];
    for a in cops {
        choosers.push(vec![a]);
        for b in cops {
            if b != a {
                choosers.push(vec![a, b]);
                for c in cops {
                    if c != b {
                        choosers.push(vec![a, b, c]);
                    }
                }
            }
        }
    }
    let states = [1u8, 3u8];
    let mut conn_a: Vec<Vec<u8>> = vec![vec![]];
    for s in states {
        conn_a.push(vec![s]);
        for t in [1u8, 2u8, 3u8] {
            conn_a.push(vec![s, t]);
        }
    }
    let conn_b: Vec<Vec<u8>> = vec![vec![], vec![1], vec![3]];
    let mut out = vec![];
    for ch in &choosers {
        for a in &conn_a {
            for b in &conn_b {
                if a.is_empty() && b.is_empty() {
                    continue;
                }
                let steps = ch.len() + 2 * a.len() + 2 * b.len();
                if steps <= max_steps {
                    out.push(Program { chooser: ch.clone(), conns: vec![a.clone(), b.clone()] });
                }
            }
        }
    }
    out
}

fn cases(max_steps: usize) -> Vec<Case> {
    let mut out = vec![];
    for p in programs(max_steps) {
        let counts = [p.chooser.len(), 2 * p.conns[0].len(), 2 * p.conns[1].len()];
        for schedule in sched::interleavings(&counts) {
            out.push(Case { program: p.clone(), schedule });
        }
    }
    out
}

pub fn run(ctx: &Ctx) {
    ctx.rule("programs: relay actor with 1..3 operations over {home:=a, home:=b, clear}, connection of relay a with 0..2 status reports, connection of relay b with 0..1, every set_status split at the pause point between its guard and its write; all interleavings of the atomic steps are enumerated (quick: programs of <= 6 steps, thorough: <= 8); after every step and at quiescence the advertised URL must be the relay actor's latest choice and the state one reported for that relay; non-trivial = the relay actor takes a step while a connection sits between its guard and its write");
    ctx.assume("the relay actor is the only caller of set/clear and each connection only reports for its own URL (the write discipline documented on HomeRelayWatch); a re-promoted relay may show a status its connection reported before the re-promotion");
    let max_steps = ctx.tier.pick(6, 8);
    let all = cases(max_steps);
    ctx.extra("programs", serde_json::json!(programs(max_steps).len()));
    ctx.enumerate_par("interleavings", all, 8, run_case);
}
