//! C22 — address resolution for a connect is answered exactly once and correctly.
//!
//! Part `state`: the real `RemotePathState` (add-only wrapper `VerifRemotePathState`) is stepped
//! together with a tiny reference model (a "some path known" flag + FIFO of pending requests)
//! through generated histories; after every step every request's oneshot is inspected.
//! Part `actor`: the real `RemoteMap` + `RemoteStateActor` with harness-defined address lookup
//! services under a paused clock (shared harness `support::remote_actor`), replies compared
//! (value and virtual instant) with the trace model.

use iroh::{
    address_lookup::AddressLookupFailed,
    verif_remote::{Addr, VerifPathStatus, VerifRemotePathState, VerifSource},
};
use proptest::prelude::*;
use serde::{Deserialize, Serialize};
use tokio::sync::oneshot::{self, error::TryRecvError};

use crate::{
    check,
    engine::{Ctx, ExploreOpts, Outcome},
    support::{
        remote::{self, Kind},
        remote_actor,
    },
};

/// Known finding (same root cause as C23:inactive-retention-count): pruning keeps the
/// `n-10` most recently closed paths, so a set of >=30 failed paths plus 1..=10 closed ones is
/// emptied.
pub const SIG_EMPTIED: &str = "C22:prune-empties-known-paths";

const POOL: usize = 48;

#[derive(Debug, Clone, Copy, PartialEq, Eq, Serialize, Deserialize)]
enum LookupResult {
    Ok,
    NoResults,
    NoServiceConfigured,
}

#[derive(Debug, Clone, Copy, PartialEq, Eq, Serialize, Deserialize)]
enum Src {
    App,
    Lookup,
    Conn,
}

#[derive(Debug, Clone, Serialize, Deserialize)]
enum Op {
    Resolve,
    /// insert pool[start .. start+count) (wrapping) plus `dups` repeats of the first one
    Insert { start: u8, count: u8, dups: u8, src: Src },
    OpenPath { a: u8 },
    Abandon { a: u8 },
    AbandonRange { start: u8, count: u8 },
    LookupFinished(LookupResult),
    Prune,
}

#[derive(Debug, Clone, Serialize, Deserialize)]
struct Case {
    ops: Vec<Op>,
}

fn op() -> impl Strategy<Value = Op> + Clone {
    let src = prop_oneof![Just(Src::App), Just(Src::Lookup), Just(Src::Conn)];
    let lr = prop_oneof![Just(LookupResult::Ok), Just(LookupResult::NoResults), Just(LookupResult::NoServiceConfigured)];
    prop_oneof![
        6 => Just(Op::Resolve),
        // empty inserts are frequent on purpose
        3 => (0u8..POOL as u8, 0u8..3, src.clone()).prop_map(|(start, dups, src)| Op::Insert { start, count: 0, dups, src }),
        3 => (0u8..POOL as u8, 1u8..4, 0u8..3, src.clone()).prop_map(|(start, count, dups, src)| Op::Insert { start, count, dups, src }),
        2 => (0u8..POOL as u8, 25u8..=POOL as u8, src).prop_map(|(start, count, src)| Op::Insert { start, count, dups: 0, src }),
        3 => (0u8..POOL as u8).prop_map(|a| Op::OpenPath { a }),
        3 => (0u8..POOL as u8).prop_map(|a| Op::Abandon { a }),
        2 => (0u8..POOL as u8, 20u8..=POOL as u8).prop_map(|(start, count)| Op::AbandonRange { start, count }),
        3 => lr.prop_map(Op::LookupFinished),
        1 => Just(Op::Prune),
    ]
}

fn strategy() -> impl Strategy<Value = Case> {
    prop_oneof![
        6 => proptest::collection::vec(op(), 0..40).prop_map(|ops| Case { ops }),
        // histories that start with pending requests and empty inserts
        2 => (1usize..4, proptest::collection::vec(op(), 0..30)).prop_map(|(n, tail)| {
            let mut ops = vec![Op::Resolve; n];
            ops.push(Op::Insert { start: 0, count: 0, dups: 0, src: Src::App });
            ops.extend(tail);
            Case { ops }
        }),
        // histories that drive many paths stale (the pruning region)
        2 => (28u8..=POOL as u8, 0u8..POOL as u8 - 2, 0u8..12, proptest::collection::vec(op(), 0..8), proptest::collection::vec(op(), 0..10), any::<bool>())
            .prop_map(|(count, x, extra_open, mid, tail, prune)| {
                let mut ops = vec![Op::Insert { start: 0, count, dups: 0, src: Src::Lookup }];
                for i in 0..=extra_open {
                    ops.push(Op::OpenPath { a: x.wrapping_add(i * 3) % (POOL as u8 - 2) });
                }
                ops.extend(mid);
                ops.push(Op::AbandonRange { start: 0, count: POOL as u8 });
                if prune {
                    ops.push(Op::Prune);
                }
                ops.extend(tail);
                Case { ops }
            }),
    ]
}

/// The address pool: IP and custom addresses, the last two (indices 46 and 47) relay ones.
fn pool_addr(i: usize) -> Addr {
    static POOL_ADDRS: std::sync::OnceLock<Vec<Addr>> = std::sync::OnceLock::new();
    POOL_ADDRS.get_or_init(|| {
        let id = remote::endpoint_id(3);
        (0..POOL)
            .map(|i| {
                let kind = if i >= POOL - 2 { Kind::Relay } else { Kind::non_relay((i * 5) as u8) };
                remote::addr(kind, i, id)
            })
            .collect()
    })[i % POOL]
        .clone()
}

#[derive(Debug, Clone, Copy, PartialEq, Eq)]
enum Want {
    Pending,
    Ok,
    NoResults,
    NoServiceConfigured,
}

struct Req {
    rx: oneshot::Receiver<Result<(), AddressLookupFailed>>,
    want: Want,
    /// set once a reply was taken out of the channel
    seen: Option<Want>,
}

fn classify(r: &Result<(), AddressLookupFailed>) -> Want {
    match r {
        Ok(()) => Want::Ok,
        Err(AddressLookupFailed::NoServiceConfigured { .. }) => Want::NoServiceConfigured,
        Err(AddressLookupFailed::NoResults { .. }) => Want::NoResults,
        Err(_) => Want::NoResults,
    }
}

fn lookup_err(kind: LookupResult) -> Result<(), AddressLookupFailed> {
    use n0_error::e;
    match kind {
        LookupResult::Ok => Ok(()),
        LookupResult::NoResults => Err(e!(AddressLookupFailed::NoResults { errors: Vec::new() })),
        LookupResult::NoServiceConfigured => Err(e!(AddressLookupFailed::NoServiceConfigured)),
    }
}

fn run_state_case(ctx: &Ctx, c: &Case) -> Outcome {
    let mut real = VerifRemotePathState::default();
    // model
    let mut known = false;
    let mut reqs: Vec<Req> = vec![];
    let mut classes: Vec<&'static str> = vec![];
    // coverage bookkeeping
    let mut pending_then_empty_insert = false;
    let mut nontrivial = false;
    let mut pruned_something = false;

    for (step, op) in c.ops.iter().enumerate() {
        let before = real.snapshot();
        let n_pending_before = reqs.iter().filter(|r| r.want == Want::Pending).count();
        match op {
            Op::Resolve => {
                let (tx, rx) = oneshot::channel();
                real.resolve_remote(tx);
                reqs.push(Req { rx, want: if known { Want::Ok } else { Want::Pending }, seen: None });
            }
            Op::Insert { start, count, dups, src } => {
                let mut addrs: Vec<Addr> = (0..*count as usize).map(|k| pool_addr(*start as usize + k)).collect();
                if let Some(first) = addrs.first().cloned() {
                    for _ in 0..*dups {
                        addrs.push(first.clone());
                    }
                }
                let adds = !addrs.is_empty();
                real.insert_multiple(
                    addrs,
                    match src {
                        Src::App => VerifSource::App,
                        Src::Lookup => VerifSource::AddressLookup,
                        Src::Conn => VerifSource::Connection,
                    },
                );
                if adds {
                    if !known && n_pending_before > 0 && pending_then_empty_insert {
                        nontrivial = true;
                        classes.push("pending->empty-insert->real-insert");
                    }
                    known = true;
                    for r in reqs.iter_mut().filter(|r| r.want == Want::Pending) {
                        r.want = Want::Ok;
                    }
                } else if n_pending_before > 0 {
                    pending_then_empty_insert = true;
                    classes.push("empty-insert-while-pending");
                }
            }
            Op::OpenPath { a } => {
                real.insert_open_path(pool_addr(*a as usize), VerifSource::Connection);
                known = true;
                for r in reqs.iter_mut().filter(|r| r.want == Want::Pending) {
                    r.want = Want::Ok;
                }
            }
            Op::Abandon { a } => real.abandoned_path(&pool_addr(*a as usize)),
            Op::AbandonRange { start, count } => {
                for k in 0..*count as usize {
                    real.abandoned_path(&pool_addr(*start as usize + k));
                }
            }
            Op::LookupFinished(kind) => {
                real.address_lookup_finished(lookup_err(*kind));
                if n_pending_before > 0 {
                    nontrivial = true;
                    classes.push(if known { "lookup-finished:pending+known" } else { "lookup-finished:pending+unknown" });
                }
                let verdict = if known {
                    Want::Ok
                } else {
                    match kind {
                        LookupResult::Ok | LookupResult::NoResults => Want::NoResults,
                        LookupResult::NoServiceConfigured => Want::NoServiceConfigured,
                    }
                };
                for r in reqs.iter_mut().filter(|r| r.want == Want::Pending) {
                    r.want = verdict;
                }
            }
            Op::Prune => real.prune_paths(),
        }

        // ---- observe every request ----
        for (i, r) in reqs.iter_mut().enumerate() {
            match r.rx.try_recv() {
                Ok(v) => {
                    let got = classify(&v);
                    check!(r.seen.is_none(), "C22:answered-twice", "step {step} {op:?}: request #{i} answered a second time");
                    check!(r.want != Want::Pending, "C22:premature-reply", "step {step} {op:?}: request #{i} answered {got:?} although no path is known and no lookup finished (model: still pending)");
                    check!(got == r.want, "C22:wrong-reply", "step {step} {op:?}: request #{i} answered {got:?}, expected {:?} (some path known: {known})", r.want);
                    r.seen = Some(got);
                }
                Err(TryRecvError::Empty) => {
                    check!(r.want == Want::Pending, "C22:missing-reply", "step {step} {op:?}: request #{i} not answered, expected {:?}", r.want);
                }
                Err(TryRecvError::Closed) => {
                    check!(r.seen.is_some(), "C22:request-dropped", "step {step} {op:?}: request #{i} dropped without a reply");
                }
            }
        }
        let model_pending = reqs.iter().any(|r| r.want == Want::Pending);
        check!(real.resolve_requests_is_empty() == !model_pending, "C22:pending-queue-mismatch", "step {step} {op:?}: resolve_requests_is_empty()={} but model pending={model_pending}", real.resolve_requests_is_empty());

        // ---- "once a remote has a known path it never loses all of them" ----
        let after = real.snapshot();
        if after.len() < before.len() {
            pruned_something = true;
        }
        if known && real.is_empty() {
            // Known finding: tolerated exactly when the set just before was >=30 non-relay
            // paths, no relay/open/unknown path, 1..=10 closed (inactive) paths and the rest
            // failed (unusable) — the C23 retention defect prunes all of them.
            let n_relay = before.iter().filter(|(a, _)| remote::is_relay(a)).count();
            let n_live = before.iter().filter(|(_, s)| matches!(s, VerifPathStatus::Open | VerifPathStatus::Unknown)).count();
            let n_inactive = before.iter().filter(|(_, s)| matches!(s, VerifPathStatus::Inactive(_))).count();
            let explained = before.len() >= 30 && n_relay == 0 && n_live == 0 && (1..=10).contains(&n_inactive);
            let detail = format!(
                "step {step} {op:?}: the path set went from {} paths ({n_inactive} closed, {} failed, {n_live} open/unknown, {n_relay} relay) to empty",
                before.len(),
                before.len() - n_inactive - n_live - n_relay
            );
            if explained && ctx.known(SIG_EMPTIED) {
                ctx.note_known(SIG_EMPTIED);
                classes.push("known:emptied-by-prune");
                // the model follows the real object from here (a later resolve waits again)
                known = false;
            } else if explained {
                return Outcome::violation(SIG_EMPTIED, detail);
            } else {
                return Outcome::violation("C22:known-paths-lost", detail);
            }
        }
        check!(real.is_empty() == !known, "C22:emptiness-mismatch", "step {step} {op:?}: is_empty()={} but the model says some path known={known}", real.is_empty());
    }
    if pruned_something {
        classes.push("pruning-happened");
    }
    if reqs.iter().any(|r| r.seen == Some(Want::Ok)) {
        classes.push("reply:ok");
    }
    if reqs.iter().any(|r| matches!(r.seen, Some(Want::NoResults))) {
        classes.push("reply:no-results");
    }
    if reqs.iter().any(|r| matches!(r.seen, Some(Want::NoServiceConfigured))) {
        classes.push("reply:no-service");
    }
    Outcome::pass_with(nontrivial, classes)
}

pub fn run(ctx: &Ctx) {
    ctx.rule("state: histories (0..40 ops) of Resolve | Insert(empty / 1..3 / 25..48 addresses from a pool of 48 incl. 2 relay (the last two), with duplicates, any source) | OpenPath | Abandon | AbandonRange | LookupFinished(Ok/NoResults/NoServiceConfigured) | Prune, incl. templates with pending requests + empty inserts and with >=30 stale paths; non-trivial = a pending request followed by an empty insert then a real insert, or by a finished lookup");
    ctx.rule("actor: histories over the real RemoteMap/RemoteStateActor under a paused clock with 0..3 harness-defined lookup services (item immediate/delayed, item without addresses, item for a wrong endpoint id, error, empty, resolve unsupported); see support::remote_actor; non-trivial = a request that had to wait for a lookup event");
    ctx.assume("lookup services eventually finish (the statement's proviso): no never-ending service streams are generated");
    ctx.assume("actor level: an idle-restarted actor starts with no known paths (documented purpose of ACTOR_MAX_IDLE_TIMEOUT); 'already known' is per live state instance");
    let k = ctx.tier.pick(1, 10);
    ctx.explore("state", ExploreOpts::new(60_000 * k), strategy, |c| run_state_case(ctx, c));
    remote_actor::explore(ctx, "actor", remote_actor::Emphasis::Lookup, 16_000 * k);
}
