//! C27 — net report aggregation is order-consistent.
//!
//! Real code: `Report::update` and `RelayLatencies::{update_relay, merge, get, iter}` (through the
//! `iroh::verif_netreport` forwards).  Oracle: a reference written from the property statement
//! (first observation per family, "varies" from the multiset of observations, minimum per
//! (probe kind, relay)), plus metamorphic relations of `merge`.

use std::{
    collections::BTreeMap,
    net::{Ipv4Addr, Ipv6Addr, SocketAddr, SocketAddrV4, SocketAddrV6},
    time::Duration,
};

use iroh::verif_netreport as vn;
use iroh_base::RelayUrl;
use proptest::prelude::*;
use serde::{Deserialize, Serialize};

use crate::{
    check,
    engine::{Ctx, ExploreOpts, Outcome},
};

const RELAYS: usize = 3;

fn relay(i: u8) -> RelayUrl {
    format!("https://relay{}.verif.test", i as usize % RELAYS)
        .parse()
        .expect("relay url")
}

fn v4(i: u8) -> SocketAddrV4 {
    // pool of 3: two share the IP and differ in the port only, one differs in the IP
    match i % 3 {
        0 => SocketAddrV4::new(Ipv4Addr::new(192, 0, 2, 1), 4000),
        1 => SocketAddrV4::new(Ipv4Addr::new(192, 0, 2, 1), 4001),
        _ => SocketAddrV4::new(Ipv4Addr::new(198, 51, 100, 7), 4000),
    }
}

fn v6(i: u8) -> SocketAddrV6 {
    match i % 3 {
        0 => SocketAddrV6::new(Ipv6Addr::new(0x2001, 0xdb8, 0, 0, 0, 0, 0, 1), 4000, 0, 0),
        1 => SocketAddrV6::new(Ipv6Addr::new(0x2001, 0xdb8, 0, 0, 0, 0, 0, 1), 4001, 0, 0),
        _ => SocketAddrV6::new(Ipv6Addr::new(0x2001, 0xdb8, 0, 0, 0, 0, 0, 2), 4000, 0, 0),
    }
}

/// One probe report.  `kind`: 0 HTTPS, 1 QAD over IPv4, 2 QAD over IPv6.
#[derive(Debug, Clone, Serialize, Deserialize)]
struct ProbeRep {
    kind: u8,
    relay: u8,
    latency_us: u64,
    addr: u8,
    /// the observed address is of the other family than the probe
    wrong_family: bool,
}

#[derive(Debug, Clone, Serialize, Deserialize)]
struct Case {
    reports: Vec<ProbeRep>,
}

fn latency() -> impl Strategy<Value = u64> {
    prop_oneof![
        5 => 0u64..6,                       // many ties, zero included
        3 => 1_000u64..400_000,
        1 => any::<u32>().prop_map(|x| x as u64 * 1000),
    ]
}

fn probe_rep() -> impl Strategy<Value = ProbeRep> {
    (
        prop_oneof![2 => Just(0u8), 4 => Just(1u8), 4 => Just(2u8)],
        0u8..RELAYS as u8,
        latency(),
        // bias to the first address so that "same as first" and "differs" both occur often
        prop_oneof![3 => Just(0u8), 1 => Just(1u8), 1 => Just(2u8)],
        prop::bool::weighted(0.12),
    )
        .prop_map(|(kind, relay, latency_us, addr, wrong_family)| ProbeRep {
            kind,
            relay,
            latency_us,
            addr,
            wrong_family,
        })
}

fn strategy() -> impl Strategy<Value = Case> {
    // half of the cases use one QAD family only, so that one family collects many observations
    (proptest::collection::vec(probe_rep(), 0..13), 0u8..4).prop_map(|(mut reports, focus)| {
        if focus == 1 || focus == 2 {
            for r in reports.iter_mut() {
                if r.kind != 0 {
                    r.kind = focus;
                }
            }
        }
        Case { reports }
    })
}

fn observed(p: &ProbeRep) -> SocketAddr {
    let is_v6 = (p.kind == 2) != p.wrong_family;
    if is_v6 {
        SocketAddr::V6(v6(p.addr))
    } else {
        SocketAddr::V4(v4(p.addr))
    }
}

fn kind_name(k: u8) -> &'static str {
    match k {
        0 => "https",
        1 => "qad4",
        _ => "qad6",
    }
}

fn probe_kind_name(p: vn::Probe) -> &'static str {
    match p {
        vn::Probe::Https => "https",
        vn::Probe::QadIpv4 => "qad4",
        vn::Probe::QadIpv6 => "qad6",
        _ => "other",
    }
}

fn to_probe(k: u8) -> vn::Probe {
    match k {
        0 => vn::Probe::Https,
        1 => vn::Probe::QadIpv4,
        _ => vn::Probe::QadIpv6,
    }
}

/// What the statement says about one family, from the list of right-family observations.
fn family_ref<A: PartialEq + Copy>(obs: &[A]) -> (Option<A>, Option<bool>, bool) {
    let global = obs.first().copied();
    let varies = if obs.len() < 2 {
        None
    } else {
        let mut differ = false;
        for i in 0..obs.len() {
            for j in (i + 1)..obs.len() {
                if obs[i] != obs[j] {
                    differ = true;
                }
            }
        }
        Some(differ)
    };
    (global, varies, !obs.is_empty())
}

fn apply(r: &mut vn::Report, p: &ProbeRep) {
    let lat = Duration::from_micros(p.latency_us);
    match p.kind {
        0 => vn::report_update_https(r, relay(p.relay), lat),
        k => vn::report_update_qad(r, k == 2, relay(p.relay), lat, observed(p)),
    }
}

fn latency_table(r: &vn::RelayLatencies) -> Result<BTreeMap<(&'static str, String), Duration>, String> {
    let mut m = BTreeMap::new();
    for (probe, url, d) in r.iter() {
        if m.insert((probe_kind_name(probe), url.to_string()), d).is_some() {
            return Err(format!("iter() lists ({probe}, {url}) twice"));
        }
    }
    Ok(m)
}

fn run_report(c: &Case) -> Outcome {
    let mut report = vn::Report::default();
    let mut obs4: Vec<SocketAddrV4> = vec![];
    let mut obs6: Vec<SocketAddrV6> = vec![];
    let mut min: BTreeMap<(&'static str, String), Duration> = BTreeMap::new();
    let mut wrong = false;

    for (i, p) in c.reports.iter().enumerate() {
        apply(&mut report, p);
        // reference bookkeeping
        let lat = Duration::from_micros(p.latency_us);
        min.entry((kind_name(p.kind), relay(p.relay).to_string()))
            .and_modify(|d| {
                if lat < *d {
                    *d = lat
                }
            })
            .or_insert(lat);
        match (p.kind, observed(p)) {
            (1, SocketAddr::V4(a)) => obs4.push(a),
            (2, SocketAddr::V6(a)) => obs6.push(a),
            (0, _) => {}
            _ => wrong = true,
        }

        // the statement holds after every prefix of the history
        let (g4, m4, u4) = family_ref(&obs4);
        let (g6, m6, u6) = family_ref(&obs6);
        check!(report.global_v4 == g4, "C27:global-v4-not-first", "after report #{i}: global_v4 {:?}, first observed {:?} (observations {:?})", report.global_v4, g4, obs4);
        check!(report.global_v6 == g6, "C27:global-v6-not-first", "after report #{i}: global_v6 {:?}, first observed {:?} (observations {:?})", report.global_v6, g6, obs6);
        check!(report.mapping_varies_by_dest_ipv4 == m4, "C27:mapping-varies-v4", "after report #{i}: mapping_varies_by_dest_ipv4 {:?}, expected {:?} from observations {:?}", report.mapping_varies_by_dest_ipv4, m4, obs4);
        check!(report.mapping_varies_by_dest_ipv6 == m6, "C27:mapping-varies-v6", "after report #{i}: mapping_varies_by_dest_ipv6 {:?}, expected {:?} from observations {:?}", report.mapping_varies_by_dest_ipv6, m6, obs6);
        check!(report.udp_v4 == u4 && report.udp_v6 == u6, "C27:udp-flag", "after report #{i}: udp_v4 {} udp_v6 {}, expected {} {}", report.udp_v4, report.udp_v6, u4, u6);
        let both = match (m4, m6) {
            (None, None) => None,
            (a, b) => Some(a.unwrap_or(false) || b.unwrap_or(false)),
        };
        check!(report.mapping_varies_by_dest() == both, "C27:mapping-varies-combined", "mapping_varies_by_dest() {:?}, expected {:?}", report.mapping_varies_by_dest(), both);
        check!(report.has_udp() == (u4 || u6), "C27:udp-flag", "has_udp() {}", report.has_udp());
        let table = match latency_table(&report.relay_latency) {
            Ok(t) => t,
            Err(e) => return Outcome::violation("C27:latency-table", e),
        };
        check!(table == min, "C27:latency-not-minimum", "after report #{i}: latency table {:?}, minimum per (kind, relay) {:?}", table, min);
    }
    check!(report.preferred_relay.is_none() && report.captive_portal.is_none(), "C27:unrelated-field", "update touched preferred_relay/captive_portal");
    check!(vn::latencies_is_empty(&report.relay_latency) == min.is_empty(), "C27:latency-table", "is_empty() disagrees with the table");

    // get(url) is the minimum over the probe kinds
    for i in 0..RELAYS as u8 {
        let url = relay(i);
        let want = min.iter().filter(|((_, u), _)| *u == url.to_string()).map(|(_, d)| *d).min();
        let got = vn::latencies_get(&report.relay_latency, &url);
        check!(got == want, "C27:get-not-minimum", "get({url}) = {:?}, minimum over kinds {:?}", got, want);
    }

    // order consistency of the latency table: the reversed history gives the same table
    let mut rev = vn::Report::default();
    for p in c.reports.iter().rev() {
        apply(&mut rev, p);
    }
    check!(rev.relay_latency == report.relay_latency, "C27:latency-order-dependent", "latency table depends on the order of the probe reports");
    check!(rev.udp_v4 == report.udp_v4 && rev.udp_v6 == report.udp_v6
        && rev.mapping_varies_by_dest_ipv4 == report.mapping_varies_by_dest_ipv4
        && rev.mapping_varies_by_dest_ipv6 == report.mapping_varies_by_dest_ipv6,
        "C27:flags-order-dependent", "udp / mapping-varies flags depend on the order of the probe reports");

    let repeat_first = |o: &[SocketAddr]| o.len() >= 3 && o[1..].contains(&o[0]);
    let o4: Vec<SocketAddr> = obs4.iter().map(|a| SocketAddr::V4(*a)).collect();
    let o6: Vec<SocketAddr> = obs6.iter().map(|a| SocketAddr::V6(*a)).collect();
    let nontrivial = repeat_first(&o4) || repeat_first(&o6);
    let mut classes = vec![];
    let (_, m4, _) = family_ref(&obs4);
    let (_, m6, _) = family_ref(&obs6);
    if m4 == Some(true) || m6 == Some(true) { classes.push("varies-true"); }
    if m4 == Some(false) || m6 == Some(false) { classes.push("varies-false"); }
    if wrong { classes.push("wrong-family-address"); }
    // varies became true and then the first address was seen again
    let back = |o: &[SocketAddr]| (0..o.len()).any(|i| o[i] != o[0] && o[i + 1..].contains(&o[0]));
    if back(&o4) || back(&o6) { classes.push("first-seen-again-after-differing"); }
    // second and third equal to each other but different from the first
    let late = |o: &[SocketAddr]| o.len() >= 3 && o[1] != o[0] && o[2..].iter().any(|x| *x == o[1]);
    if late(&o4) || late(&o6) { classes.push("repeat-of-non-first"); }
    let multi_kind = (0..RELAYS as u8).any(|i| min.keys().filter(|(_, u)| *u == relay(i).to_string()).count() >= 2);
    if multi_kind { classes.push("relay-with-several-kinds"); }
    let improved = c.reports.iter().enumerate().any(|(i, p)| c.reports[..i].iter().any(|q| q.kind == p.kind && q.relay % 3 == p.relay % 3 && q.latency_us > p.latency_us));
    if improved { classes.push("later-lower-latency"); }
    let worse = c.reports.iter().enumerate().any(|(i, p)| c.reports[..i].iter().any(|q| q.kind == p.kind && q.relay % 3 == p.relay % 3 && q.latency_us < p.latency_us));
    if worse { classes.push("later-higher-latency"); }
    Outcome::pass_with(nontrivial, classes)
}

// ---------------- merge ----------------

#[derive(Debug, Clone, Serialize, Deserialize)]
struct Upd {
    kind: u8,
    relay: u8,
    latency_us: u64,
}

#[derive(Debug, Clone, Serialize, Deserialize)]
struct MergeCase {
    a: Vec<Upd>,
    b: Vec<Upd>,
    c: Vec<Upd>,
}

fn upd() -> impl Strategy<Value = Upd> {
    (0u8..3, 0u8..RELAYS as u8, latency()).prop_map(|(kind, relay, latency_us)| Upd { kind, relay, latency_us })
}

fn merge_strategy() -> impl Strategy<Value = MergeCase> {
    (
        proptest::collection::vec(upd(), 0..8),
        proptest::collection::vec(upd(), 0..8),
        proptest::collection::vec(upd(), 0..5),
    )
        .prop_map(|(a, b, c)| MergeCase { a, b, c })
}

type Table = BTreeMap<(&'static str, String), Duration>;

fn build(list: &[Upd]) -> (vn::RelayLatencies, Table) {
    let mut l = vn::RelayLatencies::default();
    let mut m: Table = BTreeMap::new();
    for u in list {
        let d = Duration::from_micros(u.latency_us);
        vn::latencies_update(&mut l, relay(u.relay), d, to_probe(u.kind));
        m.entry((kind_name(u.kind), relay(u.relay).to_string()))
            .and_modify(|x| {
                if d < *x {
                    *x = d
                }
            })
            .or_insert(d);
    }
    (l, m)
}

fn ref_merge(a: &Table, b: &Table) -> Table {
    let mut m = a.clone();
    for (k, d) in b {
        m.entry(k.clone())
            .and_modify(|x| {
                if *d < *x {
                    *x = *d
                }
            })
            .or_insert(*d);
    }
    m
}

fn run_merge(c: &MergeCase) -> Outcome {
    let (a, ma) = build(&c.a);
    let (b, mb) = build(&c.b);
    let (cc, mc) = build(&c.c);
    for (l, m, n) in [(&a, &ma, "a"), (&b, &mb, "b")] {
        match latency_table(l) {
            Ok(t) => check!(&t == m, "C27:latency-not-minimum", "table {n}: {:?}, minimum per (kind, relay) {:?}", t, m),
            Err(e) => return Outcome::violation("C27:latency-table", e),
        }
    }
    let mut ab = a.clone();
    vn::latencies_merge(&mut ab, &b);
    let mut ba = b.clone();
    vn::latencies_merge(&mut ba, &a);
    check!(ab == ba, "C27:merge-not-commutative", "merge(a,b) = {:?} but merge(b,a) = {:?}", ab, ba);
    let want = ref_merge(&ma, &mb);
    match latency_table(&ab) {
        Ok(t) => check!(t == want, "C27:merge-loses-minimum", "merge(a,b) = {:?}, point-wise minimum {:?}", t, want),
        Err(e) => return Outcome::violation("C27:latency-table", e),
    }
    let mut aa = a.clone();
    vn::latencies_merge(&mut aa, &a);
    check!(aa == a, "C27:merge-not-idempotent", "merge(a,a) != a");
    let mut ae = a.clone();
    vn::latencies_merge(&mut ae, &vn::RelayLatencies::default());
    check!(ae == a, "C27:merge-empty", "merge(a, empty) != a");
    // associativity
    let mut ab_c = ab.clone();
    vn::latencies_merge(&mut ab_c, &cc);
    let mut bc = b.clone();
    vn::latencies_merge(&mut bc, &cc);
    let mut a_bc = a.clone();
    vn::latencies_merge(&mut a_bc, &bc);
    check!(ab_c == a_bc, "C27:merge-not-associative", "merge(merge(a,b),c) != merge(a,merge(b,c))");
    let _ = mc;
    // get over the merge = minimum over kinds and both tables
    for i in 0..RELAYS as u8 {
        let url = relay(i);
        let w = want.iter().filter(|((_, u), _)| *u == url.to_string()).map(|(_, d)| *d).min();
        let got = vn::latencies_get(&ab, &url);
        check!(got == w, "C27:get-not-minimum", "get({url}) on the merge = {:?}, expected {:?}", got, w);
    }
    let overlap_lower_in_b = mb.iter().any(|(k, d)| ma.get(k).is_some_and(|x| d < x));
    let overlap_lower_in_a = mb.iter().any(|(k, d)| ma.get(k).is_some_and(|x| d > x));
    let only_b = mb.keys().any(|k| !ma.contains_key(k));
    let mut classes = vec![];
    if overlap_lower_in_b { classes.push("merge:other-lower"); }
    if overlap_lower_in_a { classes.push("merge:self-lower"); }
    if only_b { classes.push("merge:new-key"); }
    Outcome::pass_with(overlap_lower_in_b && overlap_lower_in_a, classes)
}

pub fn run(ctx: &Ctx) {
    ctx.rule("report_update: histories of 0..12 probe reports (HTTPS | QAD v4 | QAD v6) x 3 relays x latencies (many ties, zero included) x observed address (pool of 3 per family, 12% wrong-family), checked against the statement after every prefix and against the reversed history; non-trivial = one family has >= 3 right-family observations with a repeat of the first. latencies_merge: three tables built from 0..7 updates each; commutative, idempotent, associative, point-wise minimum; non-trivial = overlapping keys where each side is lower at least once");
    ctx.assume("wrong-family QAD reports count for the latency table only (documented in the code by the early return after update_relay)");
    let k = ctx.tier.pick(1, 10);
    ctx.explore("report_update", ExploreOpts::new(1_000_000 * k), strategy, run_report);
    ctx.explore("latencies_merge", ExploreOpts::new(500_000 * k), merge_strategy, run_merge);
}
