//! C14 — relay keep-alive pings: only the latest ping counts.
//!
//! Histories of pings, pongs (matching, stale, duplicate, forged, one-bit-off) and time
//! advances are applied to the real `iroh_relay::PingTracker` under a paused tokio clock and to
//! a small reference model written from the statement.  After every step the tracker's
//! observable behaviour (`ping_timeout()`, whether/when `timeout()` completes) must agree.

use std::{
    future::Future,
    pin::pin,
    task::{Context, Poll, Waker},
    time::Duration,
};

use iroh_relay::PingTracker;
use proptest::prelude::*;
use serde::{Deserialize, Serialize};
use tokio::time::Instant;

use crate::{
    check,
    engine::{self, Ctx, ExploreOpts, Outcome},
    support::gens,
};

const MS: u64 = 1_000; // model time unit: microseconds
const MIN_TIMEOUT_US: u64 = 500 * MS;
/// Lateness allowed for a timer: tokio rounds deadlines up to its 1 ms wheel and, with a paused
/// clock, advances by whole milliseconds from a possibly fractional instant.
const LATE: u64 = 2 * MS;

#[derive(Debug, Clone, Serialize, Deserialize)]
enum Op {
    /// `new_ping()` (RTT-based timeout)
    NewPing,
    /// `new_ping_with_timeout(d)`, d in microseconds
    NewPingWith(u64),
    /// pong carrying the data of the most recently issued ping (a duplicate if already answered)
    PongLatest,
    /// pong carrying the data of an earlier ping (index into the list of all but the latest)
    PongOlder(u16),
    /// pong with arbitrary data
    PongForged([u8; 8]),
    /// pong with the latest ping's data, one bit flipped
    PongBitOff(u8),
    /// virtual time passes (microseconds)
    Advance(u64),
    /// poll `timeout()` once with a no-op waker and drop the future (cancel safety)
    Poll,
    /// `tokio::time::timeout(limit, tracker.timeout())`, limit in microseconds
    Await(u64),
    /// call `ping_timeout()` / `max_timeout()` (also done after every step)
    Read,
}

#[derive(Debug, Clone, Serialize, Deserialize)]
struct Case {
    /// `None` = `PingTracker::default()` (documented maximum 5 s)
    max_timeout_ms: Option<u64>,
    ops: Vec<Op>,
}

fn dur_us() -> impl Strategy<Value = u64> + Clone {
    prop_oneof![
        1 => Just(0u64),
        4 => (1u64..400).prop_map(|ms| ms * MS),
        4 => (100u64..25_000).prop_map(|ms| ms * MS),
        1 => (0u64..70_000).prop_map(|ms| ms * MS),
        // not a whole number of milliseconds
        2 => 1u64..3_000_000,
    ]
}

fn op() -> impl Strategy<Value = Op> + Clone {
    prop_oneof![
        5 => Just(Op::NewPing),
        2 => prop_oneof![dur_us(), (0u64..90_000).prop_map(|ms| ms * MS)].prop_map(Op::NewPingWith),
        4 => Just(Op::PongLatest),
        4 => any::<u16>().prop_map(Op::PongOlder),
        1 => any::<[u8; 8]>().prop_map(Op::PongForged),
        1 => (0u8..64).prop_map(Op::PongBitOff),
        8 => dur_us().prop_map(Op::Advance),
        3 => Just(Op::Poll),
        2 => dur_us().prop_map(Op::Await),
        1 => Just(Op::Read),
    ]
}

fn strategy() -> impl Strategy<Value = Case> + Clone {
    let max = prop_oneof![
        2 => Just(None),
        1 => Just(Some(500u64)),
        1 => Just(Some(501u64)),
        3 => (500u64..=60_000).prop_map(Some),
    ];
    (max, proptest::collection::vec(op(), 1..40)).prop_map(|(max_timeout_ms, ops)| Case { max_timeout_ms, ops })
}

/// Reference model, in integer microseconds since the start of the case.
struct Model {
    max: u64,
    /// the ping that counts: (data, sent_at, deadline)
    outstanding: Option<([u8; 8], u64, u64)>,
    rtt: Option<u64>,
    now: u64,
}

impl Model {
    fn ping_timeout(&self) -> u64 {
        match self.rtt {
            None => self.max,
            Some(r) => (3 * r).max(MIN_TIMEOUT_US).min(self.max),
        }
    }
    fn new_ping(&mut self, data: [u8; 8], timeout: u64) {
        self.outstanding = Some((data, self.now, self.now + timeout));
    }
    /// true if the pong counted
    fn pong(&mut self, data: [u8; 8]) -> bool {
        match self.outstanding {
            Some((d, sent, _)) if d == data => {
                self.rtt = Some(self.now - sent);
                self.outstanding = None;
                true
            }
            _ => false,
        }
    }
}

fn us(d: Duration) -> u128 {
    d.as_micros()
}

fn run_case(c: &Case) -> Outcome {
    engine::paused_rt(async move { run_async(c).await })
}

async fn run_async(c: &Case) -> Outcome {
    let t0 = Instant::now();
    let (mut tracker, max) = match c.max_timeout_ms {
        None => (PingTracker::default(), 5_000 * MS),
        Some(ms) => (PingTracker::new(Duration::from_millis(ms)), ms * MS),
    };
    let mut m = Model { max, outstanding: None, rtt: None, now: 0 };
    let mut issued: Vec<[u8; 8]> = vec![];
    let mut classes: Vec<&'static str> = vec![];
    let mut stale_while_outstanding = false;
    let class = |c: &'static str, classes: &mut Vec<&'static str>| {
        if !classes.contains(&c) {
            classes.push(c);
        }
    };

    for (i, op) in c.ops.iter().enumerate() {
        match op {
            Op::NewPing | Op::NewPingWith(_) => {
                let (data, timeout) = match op {
                    Op::NewPing => (tracker.new_ping(), m.ping_timeout()),
                    Op::NewPingWith(d) => (tracker.new_ping_with_timeout(Duration::from_micros(*d)), *d),
                    _ => unreachable!(),
                };
                if m.outstanding.is_some() {
                    class("ping-replaces-outstanding", &mut classes);
                }
                m.new_ping(data, timeout);
                issued.push(data);
            }
            Op::PongLatest | Op::PongOlder(_) | Op::PongForged(_) | Op::PongBitOff(_) => {
                let data = match op {
                    Op::PongLatest => issued.last().copied(),
                    Op::PongOlder(k) if issued.len() >= 2 => Some(issued[gens::pick(*k, issued.len() - 1)]),
                    Op::PongOlder(_) => None,
                    Op::PongForged(d) => Some(*d),
                    Op::PongBitOff(b) => issued.last().map(|d| {
                        let mut d = *d;
                        d[(*b / 8) as usize] ^= 1 << (*b % 8);
                        d
                    }),
                    _ => unreachable!(),
                };
                let Some(data) = data else { continue };
                let had_outstanding = m.outstanding.is_some();
                let counted = m.pong(data);
                tracker.pong_received(data);
                if counted {
                    let r = m.rtt.unwrap();
                    class(
                        if 3 * r < MIN_TIMEOUT_US { "rtt-clamped-low" } else if 3 * r > m.max { "rtt-clamped-high" } else { "rtt-in-range" },
                        &mut classes,
                    );
                } else if had_outstanding {
                    match op {
                        Op::PongOlder(_) => {
                            stale_while_outstanding = true;
                            class("stale-pong-while-outstanding", &mut classes);
                        }
                        _ => class("wrong-data-pong-while-outstanding", &mut classes),
                    }
                } else {
                    class("pong-with-nothing-outstanding", &mut classes);
                }
            }
            Op::Advance(d) => {
                tokio::time::advance(Duration::from_micros(*d)).await;
                m.now += *d;
            }
            Op::Poll => {
                let ready = {
                    let fut = pin!(tracker.timeout());
                    let mut cx = Context::from_waker(Waker::noop());
                    matches!(fut.poll(&mut cx), Poll::Ready(()))
                };
                match m.outstanding {
                    None => check!(!ready, "C14:dead-without-outstanding-ping", "step {i}: timeout() completed although no ping is outstanding (now {} us)", m.now),
                    Some((_, _, deadline)) => {
                        if ready {
                            check!(m.now >= deadline, "C14:dead-before-deadline", "step {i}: timeout() completed at {} us, deadline of the latest ping is {} us", m.now, deadline);
                            m.outstanding = None;
                            class("timeout-fired-on-poll", &mut classes);
                        } else {
                            // the timer wheel has millisecond granularity
                            check!(m.now < deadline + MS, "C14:dead-not-declared", "step {i}: timeout() pending at {} us, deadline of the latest ping was {} us", m.now, deadline);
                            class("poll-pending-dropped", &mut classes);
                        }
                    }
                }
            }
            Op::Await(limit) => {
                let res = tokio::time::timeout(Duration::from_micros(*limit), tracker.timeout()).await;
                let after = us(Instant::now() - t0) as u64;
                let end = m.now + limit;
                match res {
                    Ok(()) => {
                        let Some((_, _, deadline)) = m.outstanding else {
                            return Outcome::violation("C14:dead-without-outstanding-ping", format!("step {i}: timeout() completed at {after} us although no ping is outstanding"));
                        };
                        check!(after >= deadline, "C14:dead-before-deadline", "step {i}: timeout() completed at {after} us, deadline of the latest ping is {deadline} us");
                        check!(after < deadline.max(m.now) + LATE, "C14:dead-declared-late", "step {i}: timeout() completed at {after} us, deadline was {deadline} us (now {} us)", m.now);
                        m.outstanding = None;
                        m.now = after;
                        class("timeout-fired-on-await", &mut classes);
                    }
                    Err(_) => {
                        if let Some((_, _, deadline)) = m.outstanding {
                            check!(deadline + MS > end, "C14:dead-not-declared", "step {i}: timeout() did not complete within [{} us, {end} us], deadline of the latest ping was {deadline} us", m.now);
                        }
                        check!(after >= end && after < end + LATE, "C14:harness-clock", "virtual clock at {after} us after waiting until {end} us");
                        m.now = after;
                        class("await-elapsed", &mut classes);
                    }
                }
            }
            Op::Read => {}
        }
        // virtual clock and model clock agree
        let real_now = us(Instant::now() - t0);
        check!(real_now == m.now as u128, "C14:harness-clock", "step {i}: virtual clock {real_now} us, model {} us", m.now);
        let pt = us(tracker.ping_timeout());
        check!(pt == m.ping_timeout() as u128, "C14:ping-timeout-value", "step {i} ({op:?}): ping_timeout() = {pt} us, expected {} us (rtt {:?} us, max {} us)", m.ping_timeout(), m.rtt, m.max);
        check!(us(tracker.max_timeout()) == m.max as u128, "C14:max-timeout-changed", "step {i}: max_timeout() = {:?}", tracker.max_timeout());
    }

    // Closing observation: wait for the verdict on whatever is outstanding now; it must arrive
    // exactly at the latest ping's deadline, or never.
    let far = 200_000 * MS;
    let res = tokio::time::timeout(Duration::from_micros(far), tracker.timeout()).await;
    let after = us(Instant::now() - t0) as u64;
    match (res, m.outstanding) {
        (Ok(()), Some((_, _, deadline))) => {
            check!(after >= deadline && after < deadline.max(m.now) + LATE, "C14:final-deadline", "final timeout() completed at {after} us, deadline of the latest ping is {deadline} us (now {} us)", m.now);
        }
        (Ok(()), None) => return Outcome::violation("C14:dead-without-outstanding-ping", format!("final timeout() completed at {after} us although no ping is outstanding")),
        (Err(_), Some((_, _, deadline))) => return Outcome::violation("C14:dead-not-declared", format!("final timeout() never completed; latest ping's deadline {deadline} us, waited until {after} us")),
        (Err(_), None) => {}
    }
    Outcome::pass_with(stale_while_outstanding, classes)
}

pub fn run(ctx: &Ctx) {
    ctx.rule("histories of 1..40 operations (new_ping, new_ping_with_timeout, pong for the latest / an older / a forged / a one-bit-off ping, advance of virtual time 0..70 s incl. non-millisecond values, single poll of timeout() with drop, bounded await of timeout()) on PingTracker::new(500 ms..60 s) or default(); reference model = (outstanding ping, last rtt) in integer microseconds; non-trivial = a pong for an older ping arrives while a newer ping is outstanding");
    ctx.assume("max_timeout >= 500 ms (the minimum health-check timeout); smaller values make Duration::clamp's precondition fail and no caller uses them");
    ctx.assume("tokio's timer wheel has 1 ms granularity: within 1 ms after a deadline either answer of timeout() is accepted and a completion may be observed up to 2 ms late; earlier completion never is");
    ctx.assume("ping payloads are 8 random bytes chosen by the tracker; a forged payload is compared by value, so a 2^-64 coincidence is treated as a matching pong");
    let k = ctx.tier.pick(1, 10);
    ctx.explore("history", ExploreOpts::new(40_000 * k), strategy, run_case);
}
