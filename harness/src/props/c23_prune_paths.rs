//! C23 — path pruning bounds stale paths without discarding live ones.
//!
//! Real code: `prune_non_relay_paths` (through the add-only wrapper
//! `iroh::verif_remote::verif_prune_non_relay_paths`), applied to a caller-built path map.
//! Oracle: clause-by-clause reference derived from the property statement, independent of the
//! implementation (no sorting/splitting logic is shared; the recency clause is checked as
//! "count kept" + "no pruned path is more recent than a kept one", which is tie-agnostic).

use std::{collections::HashMap, time::Duration};

use iroh::verif_remote::{Addr, VerifPathStatus, verif_prune_non_relay_paths};
use proptest::prelude::*;
use serde::{Deserialize, Serialize};

use crate::{
    check,
    engine::{Ctx, ExploreOpts, Outcome},
    support::remote::{self, Kind},
};

pub const SIG_RETENTION: &str = "C23:inactive-retention-count";

const MAX_NON_RELAY: usize = 30;
const MAX_INACTIVE: usize = 10;

#[derive(Debug, Clone, Copy, PartialEq, Eq, Hash)]
enum Class {
    Relay,
    Open,
    Unknown,
    Unusable,
    Inactive,
}

#[derive(Debug, Clone, Serialize, Deserialize)]
struct PathSpec {
    /// selects the class through the case's weights (monotone)
    sel: u16,
    /// selects v4 / v6 / custom for non-relay paths
    kind: u8,
    /// close time selector (only used for inactive paths)
    t: u16,
}

#[derive(Debug, Clone, Serialize, Deserialize)]
struct Case {
    /// weights of [relay, open, unknown, unusable, inactive]
    w: [u8; 5],
    /// relay paths carry a status too: selector for it
    relay_status: u8,
    /// number of distinct close times (small => ties)
    tpool: u16,
    paths: Vec<PathSpec>,
}

fn strategy() -> impl Strategy<Value = Case> {
    let weights = prop_oneof![
        4 => proptest::array::uniform5(0u8..=6),
        // few relay, some live, many stale
        3 => (0u8..=1, 0u8..=3, 0u8..=3, 0u8..=8, 0u8..=8).prop_map(|(a, b, c, d, e)| [a, b, c, d, e]),
        // only failed paths
        1 => Just([0, 0, 0, 1, 0]),
        // only failed paths plus the odd relay path
        1 => Just([1, 0, 0, 20, 0]),
        // only stale paths (unusable + a few inactive): the "would be emptied" region
        2 => (4u8..=12, 0u8..=3).prop_map(|(d, e)| [0, 0, 0, d, e]),
        // mostly inactive
        2 => (0u8..=1, 0u8..=2, 0u8..=2, 0u8..=2, 6u8..=12).prop_map(|(a, b, c, d, e)| [a, b, c, d, e]),
    ];
    let spec = || (any::<u16>(), any::<u8>(), any::<u16>()).prop_map(|(sel, kind, t)| PathSpec { sel, kind, t });
    // plain vectors (not flat-mapped lengths) so that shrinking can drop paths
    let paths = prop_oneof![
        2 => proptest::collection::vec(spec(), 0..=60),
        3 => proptest::collection::vec(spec(), 26..=36),
        3 => proptest::collection::vec(spec(), 30..=60),
    ];
    (
        weights,
        any::<u8>(),
        prop_oneof![Just(3u16), Just(12u16), Just(60u16), Just(5000u16)],
        paths,
    )
        .prop_map(|(w, relay_status, tpool, paths)| Case { w, relay_status, tpool, paths })
}

fn class_of(w: &[u8; 5], sel: u16) -> Class {
    let total: u32 = w.iter().map(|x| *x as u32).sum();
    if total == 0 {
        return Class::Unknown;
    }
    let mut x = ((sel as u32) * total) >> 16;
    for (i, wi) in w.iter().enumerate() {
        if x < *wi as u32 {
            return [Class::Relay, Class::Open, Class::Unknown, Class::Unusable, Class::Inactive][i];
        }
        x -= *wi as u32;
    }
    Class::Unknown
}

struct Built {
    addr: Addr,
    class: Class,
    status: VerifPathStatus,
    /// close time as offset (ms) for inactive paths
    t_ms: u64,
}

fn build(c: &Case) -> Vec<Built> {
    // An arbitrary base instant; only differences matter.  `n0_future::time::Instant` is
    // tokio's instant, which is the std clock outside of a runtime.
    let base = n0_future::time::Instant::now();
    let remote = remote::endpoint_id(1);
    c.paths
        .iter()
        .enumerate()
        .map(|(i, p)| {
            let class = class_of(&c.w, p.sel);
            let t_ms = crate::support::gens::pick(p.t, c.tpool as usize) as u64 * 10;
            let inactive = VerifPathStatus::Inactive(base + Duration::from_millis(t_ms));
            let (kind, status) = match class {
                Class::Relay => (
                    Kind::Relay,
                    // relay paths can be in any state; they must never be pruned
                    // high bit set: all relay paths share one status (so "every path unusable,
                    // relay ones too" occurs); otherwise the status varies with the index
                    match if c.relay_status & 0x80 != 0 { c.relay_status as usize } else { c.relay_status as usize + i } % 4 {
                        0 => VerifPathStatus::Open,
                        1 => VerifPathStatus::Unknown,
                        2 => VerifPathStatus::Unusable,
                        _ => inactive,
                    },
                ),
                Class::Open => (Kind::non_relay(p.kind), VerifPathStatus::Open),
                Class::Unknown => (Kind::non_relay(p.kind), VerifPathStatus::Unknown),
                Class::Unusable => (Kind::non_relay(p.kind), VerifPathStatus::Unusable),
                Class::Inactive => (Kind::non_relay(p.kind), inactive),
            };
            Built { addr: remote::addr(kind, i, remote), class, status, t_ms }
        })
        .collect()
}

fn run_case(ctx: &Ctx, c: &Case) -> Outcome {
    let built = build(c);
    let input: Vec<(Addr, VerifPathStatus)> = built.iter().map(|b| (b.addr.clone(), b.status)).collect();
    let out = verif_prune_non_relay_paths(input);

    // --- generic: the result is a sub-map of the input, statuses untouched ---
    let by_addr: HashMap<&Addr, &Built> = built.iter().map(|b| (&b.addr, b)).collect();
    check!(by_addr.len() == built.len(), "C23:harness", "generated addresses are not distinct");
    let mut kept: HashMap<&Addr, ()> = HashMap::new();
    for (a, st) in &out {
        let Some(b) = by_addr.get(a) else {
            return Outcome::violation("C23:invented-path", format!("result contains {a:?} which was not in the input"));
        };
        check!(*st == b.status, "C23:status-changed", "status of {a:?} changed from {:?} to {:?}", b.status, st);
        check!(kept.insert(&b.addr, ()).is_none(), "C23:duplicate", "duplicate {a:?} in result");
    }
    let is_kept = |b: &Built| kept.contains_key(&b.addr);

    let n_total = built.len();
    let count = |cl: Class| built.iter().filter(|b| b.class == cl).count();
    let n_relay = count(Class::Relay);
    let n_non_relay = n_total - n_relay;
    let n_unusable = count(Class::Unusable);
    let n_inactive = count(Class::Inactive);
    let n_live = count(Class::Open) + count(Class::Unknown);

    let mut classes: Vec<&'static str> = vec![];
    classes.push(match n_non_relay {
        0..=29 => "nonrelay<30",
        30 => "nonrelay=30",
        _ => "nonrelay>30",
    });
    if n_relay > 0 {
        classes.push("relay-present");
    }

    // --- clause: never removes an open path, a path of unknown status, or a relay path ---
    for b in &built {
        if matches!(b.class, Class::Relay | Class::Open | Class::Unknown) {
            check!(is_kept(b), "C23:live-path-pruned", "{:?} path {:?} ({:?}) was pruned; non-relay={n_non_relay}", b.class, b.addr, b.status);
        }
    }

    // --- clause: below 30 non-relay paths nothing changes ---
    if n_non_relay < MAX_NON_RELAY {
        check!(out.len() == n_total, "C23:pruned-below-threshold", "{} of {n_total} paths kept although only {n_non_relay} non-relay paths (<30) exist", out.len());
        if n_total >= MAX_NON_RELAY {
            classes.push("total>=30-but-nonrelay<30");
        }
        return Outcome::pass_with(false, classes);
    }

    // --- from here: at least 30 non-relay paths ---
    let every_path_failed = built.iter().all(|b| b.status == VerifPathStatus::Unusable);
    if every_path_failed && n_relay == 0 {
        // "If every path has failed, exactly 30 are kept"
        classes.push("all-failed");
        check!(out.len() == MAX_NON_RELAY, "C23:all-failed-keep-30", "all {n_total} paths unusable: {} kept, expected exactly 30", out.len());
        return Outcome::pass_with(false, classes);
    }
    if every_path_failed {
        // Relay paths present and every path (relay ones too) unusable: the statement's
        // "exactly 30 are kept" and "removes every failed path / never a relay path" pull in
        // different directions; only the unambiguous clauses are asserted (relay kept: above).
        classes.push("all-failed-with-relay(ambiguous)");
        check!(!out.is_empty(), "C23:emptied", "non-empty path set emptied");
        return Outcome::pass_with(false, classes);
    }

    // --- clause: removes every path that failed hole punching ---
    for b in &built {
        if b.class == Class::Unusable {
            check!(!is_kept(b), "C23:unusable-kept", "unusable non-relay path {:?} survived pruning (non-relay={n_non_relay}, unusable={n_unusable}, inactive={n_inactive})", b.addr);
        }
    }

    // --- clause: removes all but the 10 most recently closed paths ---
    let kept_inactive: Vec<&Built> = built.iter().filter(|b| b.class == Class::Inactive && is_kept(b)).collect();
    let pruned_inactive: Vec<&Built> = built.iter().filter(|b| b.class == Class::Inactive && !is_kept(b)).collect();
    // recency, tie-agnostic: nothing pruned was closed later than something kept
    let oldest_kept = kept_inactive.iter().map(|b| b.t_ms).min();
    let newest_pruned = pruned_inactive.iter().map(|b| b.t_ms).max();
    if let (Some(k), Some(p)) = (oldest_kept, newest_pruned) {
        check!(k >= p, "C23:inactive-recency-order", "an inactive path closed at +{p}ms was pruned while one closed at +{k}ms was kept ({} inactive, {} kept)", n_inactive, kept_inactive.len());
        if k == p {
            classes.push("tie-at-cut");
        }
    }
    classes.push(match n_inactive {
        0 => "inactive=0",
        1..=9 => "inactive<10",
        10 => "inactive=10",
        11..=19 => "inactive 11..19",
        20 => "inactive=20",
        _ => "inactive>20",
    });
    let want = n_inactive.min(MAX_INACTIVE);
    let deviant = n_inactive.saturating_sub(MAX_INACTIVE);
    let mut known_deviation = false;
    if kept_inactive.len() != want {
        let detail = format!(
            "{n_inactive} closed (inactive) non-relay paths among {n_non_relay} non-relay paths: {} kept, the statement requires the {want} most recently closed to be kept{}",
            kept_inactive.len(),
            if out.is_empty() { "; the whole non-empty path set was emptied" } else { "" }
        );
        // Known finding: the code keeps the max(0, n-10) most recently closed instead of the
        // min(n, 10) most recently closed.  Exactly that deviation is tolerated.
        if ctx.known(SIG_RETENTION) && kept_inactive.len() == deviant {
            ctx.note_known(SIG_RETENTION);
            known_deviation = true;
            classes.push("known:retention n-10");
        } else {
            return Outcome::violation(SIG_RETENTION, detail);
        }
    } else {
        classes.push("retention-conforms");
    }

    // --- clause: pruning never empties a non-empty path set ---
    if out.is_empty() {
        // Under the statement's retention rule this cannot happen here (some path is not
        // unusable, so either a live path or >=1 of the most recently closed survives).  With
        // the known retention deviation it is a direct consequence when 1..=10 inactive paths
        // are the only non-failed ones; anything else is a separate violation.
        let explained = known_deviation && n_live == 0 && n_relay == 0 && (1..=MAX_INACTIVE).contains(&n_inactive);
        check!(explained, "C23:emptied", "non-empty path set ({n_total} paths) emptied");
        classes.push("known:emptied-set");
    }

    let nontrivial = n_unusable > 0 && n_inactive > 0;
    Outcome::pass_with(nontrivial, classes)
}

pub fn run(ctx: &Ctx) {
    ctx.rule("0..=60 paths, each relay|IPv4|IPv6|custom x status open|unknown|unusable|inactive(close time from a pool of 3/12/60/5000 instants so ties occur); class mix drawn per case from weight profiles so that the non-relay count falls on both sides of 30 and the inactive count on both sides of 10 and 20, incl. all-failed and stale-only sets; relay paths carry every status; non-trivial = >=30 non-relay paths with both unusable and inactive paths present");
    ctx.assume("'exactly 30 kept when every path has failed' is asserted only when no relay path is present; with relay paths present and every path unusable only 'relay paths kept' and 'not emptied' are asserted");
    ctx.assume("ties in close time at the cut: either choice accepted");
    let k = ctx.tier.pick(1, 10);
    ctx.explore("prune", ExploreOpts::new(150_000 * k).shrink(20_000), strategy, |c| run_case(ctx, c));
}
