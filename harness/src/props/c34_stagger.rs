//! C34 — staggered DNS lookups never panic and return the first success.
//!
//! Public `DnsResolver::lookup_*_staggered` over a scripted custom resolver under a paused clock.
//! The oracle works from the start times the resolver *observed*, so the library's unseeded
//! jitter never enters the expected value.

use std::{net::IpAddr, time::Duration};

use iroh_base::SecretKey;
use iroh_dns::dns::{DnsError, DnsResolver, LookupError, StaggeredError};
use proptest::prelude::*;
use serde::{Deserialize, Serialize};

use crate::{
    check,
    engine::{self, Ctx, ExploreOpts, Outcome},
    support::dns_stagger::{self as ds, ErrId, Fam, Reply, Script, ScriptedResolver, Step},
};

/// Virtual horizon: every attempt with a "small" delay has finished by then, no attempt with
/// a "huge" delay may have started.
const HORIZON_MS: u64 = 1_000_000_000;
const SMALL_MAX: u64 = 100_000_000;
const HUGE_MIN: u64 = 1 << 40;
const TXT_TIMEOUT_MS: u64 = 3000; // iroh_dns::dns::DNS_TIMEOUT
const HOST: &str = "host.example.test";
const ORIGIN: &str = "origin.example.test.";

#[derive(Debug, Clone, Copy, PartialEq, Eq, Serialize, Deserialize)]
enum Kind {
    V4,
    V6,
    Both,
    TxtName,
    TxtId,
}

#[derive(Debug, Clone, Serialize, Deserialize)]
struct Case {
    kind: Kind,
    timeout_ms: u64,
    delays: Vec<u64>,
    /// per attempt, in the order the attempts start: (primary step, AAAA step for `Both`)
    steps: Vec<(Step, Step)>,
}

fn delay_strategy() -> impl Strategy<Value = u64> + Clone {
    prop_oneof![
        5 => prop::sample::select(vec![0u64, 1, 2, 3, 4, 5, 10, 199, 200, 1000]),
        4 => 0u64..400,
        2 => 0u64..20_000,
        1 => 0u64..=1_000_000,
        1 => 1_000_000u64..=SMALL_MAX,
        2 => prop::sample::select(vec![HUGE_MIN, u64::MAX / 40 - 1, u64::MAX / 40, u64::MAX / 40 + 1, u64::MAX / 2, u64::MAX - 1, u64::MAX]),
        1 => HUGE_MIN..=u64::MAX,
    ]
}

fn step_strategy(timeout_ms: u64, txt: bool) -> impl Strategy<Value = Step> + Clone {
    let reply = if txt {
        prop_oneof![3 => (0u8..3).prop_map(|n| Reply::Ok { n }), 1 => Just(Reply::Garbage), 3 => Just(Reply::Err)].boxed()
    } else {
        prop_oneof![3 => (0u8..4).prop_map(|n| Reply::Ok { n }), 4 => Just(Reply::Err)].boxed()
    };
    let after = prop_oneof![
        3 => Just(Some(0u64)),
        3 => (0u64..60).prop_map(Some),
        3 => (0u64..=timeout_ms.saturating_mul(2)).prop_map(Some),
        2 => (0u64..5).prop_map(move |d| Some((timeout_ms + d).saturating_sub(2))),
        1 => Just(None),
    ];
    // a latency equal to the timeout is outside the domain (unspecified race): nudge it past
    (reply, after).prop_map(move |(reply, after_ms)| Step { reply, after_ms: after_ms.map(|l| if l == timeout_ms { l + 1 } else { l }) })
}

fn case_strategy() -> impl Strategy<Value = Case> + Clone {
    let kind = prop_oneof![
        3 => Just(Kind::V4),
        2 => Just(Kind::V6),
        3 => Just(Kind::Both),
        1 => Just(Kind::TxtName),
        1 => Just(Kind::TxtId),
    ];
    let timeout = prop_oneof![
        prop::sample::select(vec![1u64, 2, 10, 100, 1000, 3000]),
        1u64..5000,
    ];
    (kind, timeout).prop_flat_map(|(kind, timeout_ms)| {
        let txt = matches!(kind, Kind::TxtName | Kind::TxtId);
        let timeout_ms = if txt { TXT_TIMEOUT_MS } else { timeout_ms };
        let step = step_strategy(timeout_ms, txt);
        (
            proptest::collection::vec(delay_strategy(), 0..=5),
            proptest::collection::vec((step.clone(), step), 6),
        )
            .prop_map(move |(delays, steps)| Case { kind, timeout_ms, delays, steps })
    })
}

/// What the call under test produced.
#[derive(Debug, Clone, PartialEq)]
enum Got {
    OkIps(Vec<IpAddr>),
    /// (ip addresses in the resolved endpoint info, number of relay urls, has user data)
    OkInfo(Vec<IpAddr>),
    Err(Vec<ErrId>),
}

fn lookup_err_id(e: &LookupError) -> ErrId {
    match e {
        LookupError::ParseError { .. } => ErrId::Other("parse".into()),
        LookupError::LookupFailed { source, .. } => ds::err_id(source),
        other => ErrId::Other(format!("{other:?}")),
    }
}

fn dns_errs(e: &StaggeredError<DnsError>) -> Vec<ErrId> {
    let _ = format!("{e} {e:?}");
    e.iter().map(ds::err_id).collect()
}

fn lookup_errs(e: &StaggeredError<LookupError>) -> Vec<ErrId> {
    let _ = format!("{e} {e:?}");
    e.iter().map(lookup_err_id).collect()
}

fn endpoint_secret() -> SecretKey {
    SecretKey::from_bytes(&[34u8; 32])
}

/// One attempt as reconstructed from the resolver log plus the script.
#[derive(Debug, Clone)]
struct Attempt {
    start: u64,
    done: u64,
    /// `Ok(value)` or the identity of its error
    result: Result<Vec<IpAddr>, ErrId>,
}

fn oracle(c: &Case) -> Outcome {
    let n_attempts = c.delays.len() + 1;
    let script = match c.kind {
        Kind::V4 => Script { v4: c.steps.iter().map(|s| s.0).collect(), ..Default::default() },
        Kind::V6 => Script { v6: c.steps.iter().map(|s| s.0).collect(), ..Default::default() },
        Kind::Both => Script { v4: c.steps.iter().map(|s| s.0).collect(), v6: c.steps.iter().map(|s| s.1).collect(), ..Default::default() },
        Kind::TxtName | Kind::TxtId => Script { txt: c.steps.iter().map(|s| s.0).collect(), ..Default::default() },
    };
    let id = endpoint_secret().public();
    let txt_name = format!("_iroh.{}.{}", id.to_z32(), ORIGIN);
    let expected_host = match c.kind {
        Kind::TxtName | Kind::TxtId => txt_name.clone(),
        _ => HOST.to_string(),
    };

    let kind = c.kind;
    let delays = c.delays.clone();
    let timeout = Duration::from_millis(c.timeout_ms);
    let (outcome, calls) = engine::paused_rt(async move {
        let scripted = ScriptedResolver::new(script);
        let resolver = DnsResolver::custom(scripted.clone());
        let probe = scripted.clone();
        let task = tokio::spawn(async move {
            let got = match kind {
                Kind::V4 => match resolver.lookup_ipv4_staggered(HOST, timeout, &delays).await {
                    Ok(it) => Got::OkIps(it.collect()),
                    Err(e) => Got::Err(dns_errs(&e)),
                },
                Kind::V6 => match resolver.lookup_ipv6_staggered(HOST, timeout, &delays).await {
                    Ok(it) => Got::OkIps(it.collect()),
                    Err(e) => Got::Err(dns_errs(&e)),
                },
                Kind::Both => match resolver.lookup_ipv4_ipv6_staggered(HOST, timeout, &delays).await {
                    Ok(it) => Got::OkIps(it.collect()),
                    Err(e) => Got::Err(dns_errs(&e)),
                },
                Kind::TxtName => match resolver.lookup_endpoint_by_domain_name_staggered(&txt_name, &delays).await {
                    Ok(info) => Got::OkInfo(info.ip_addrs().map(|a| a.ip()).collect()),
                    Err(e) => Got::Err(lookup_errs(&e)),
                },
                Kind::TxtId => match resolver.lookup_endpoint_by_id_staggered(&id, ORIGIN, &delays).await {
                    Ok(info) => Got::OkInfo(info.ip_addrs().map(|a| a.ip()).collect()),
                    Err(e) => Got::Err(lookup_errs(&e)),
                },
            };
            (got, probe.now_ms())
        });
        let abort = task.abort_handle();
        let res = tokio::time::timeout(Duration::from_millis(HORIZON_MS), task).await;
        let outcome = match res {
            Ok(Ok(v)) => Some(v),
            Ok(Err(join)) => {
                if join.is_panic() {
                    // hand the panic to the engine (reported with its source location)
                    std::panic::resume_unwind(join.into_panic());
                }
                panic!("lookup task cancelled unexpectedly");
            }
            Err(_elapsed) => {
                abort.abort();
                None
            }
        };
        (outcome, scripted.calls())
    });

    // ---- reconstruct the attempts from the resolver's log ----
    let fams: &[Fam] = match c.kind {
        Kind::V4 => &[Fam::V4],
        Kind::V6 => &[Fam::V6],
        Kind::Both => &[Fam::V4, Fam::V6],
        _ => &[Fam::Txt],
    };
    for call in &calls {
        check!(fams.contains(&call.fam), "C34:wrong-query", "unexpected {:?} query in a {:?} lookup: {call:?}", call.fam, c.kind);
        check!(call.host == expected_host, "C34:wrong-query", "queried {:?}, expected {expected_host:?}", call.host);
        check!(call.idx < n_attempts, "C34:extra-attempt", "more than {n_attempts} attempts for {} delays: {calls:?}", c.delays.len());
    }
    let per_fam = |f: Fam| -> Vec<&ds::Call> { calls.iter().filter(|c| c.fam == f).collect() };
    let primary = per_fam(fams[0]);
    if c.kind == Kind::Both {
        let v6 = per_fam(Fam::V6);
        check!(v6.len() == primary.len(), "C34:both-not-parallel", "A and AAAA query counts differ: {calls:?}");
        for (a, b) in primary.iter().zip(&v6) {
            check!(a.at_ms == b.at_ms, "C34:both-not-parallel", "attempt {} queries A at {} and AAAA at {}", a.idx, a.at_ms, b.at_ms);
        }
    }
    let mut attempts = Vec::with_capacity(primary.len());
    for call in &primary {
        let k = call.idx;
        let first = ds::call_done(fams[0], k, call.at_ms, c.steps[k].0, c.timeout_ms);
        let att = if c.kind == Kind::Both {
            let second = ds::call_done(Fam::V6, k, call.at_ms, c.steps[k].1, c.timeout_ms);
            let (Some((d4, r4)), Some((d6, r6))) = (first, second) else {
                return Outcome::Excluded("latency equals timeout");
            };
            let result = match (r4, r6) {
                (Ok(mut a), Ok(b)) => {
                    a.extend(b);
                    Ok(a)
                }
                (Ok(a), Err(_)) | (Err(_), Ok(a)) => Ok(a),
                (Err(a), Err(b)) => Err(ErrId::Both(Box::new(a), Box::new(b))),
            };
            Attempt { start: call.at_ms, done: d4.max(d6), result }
        } else {
            let Some((done, result)) = first else {
                return Outcome::Excluded("latency equals timeout");
            };
            Attempt { start: call.at_ms, done, result }
        };
        attempts.push(att);
    }

    // ---- start times: one attempt at once, one per delay within ±20% (1 ms timer granularity) ----
    let mut sorted_delays: Vec<u64> = std::iter::once(0).chain(c.delays.iter().copied()).collect();
    sorted_delays.sort_unstable();
    let mut starts: Vec<u64> = attempts.iter().map(|a| a.start).collect();
    starts.sort_unstable();
    let returned_at = outcome.as_ref().map(|o| o.1);
    for (j, d) in sorted_delays.iter().enumerate() {
        let d128 = *d as u128;
        match starts.get(j) {
            Some(s) => {
                let s128 = *s as u128;
                check!(
                    10 * s128 >= 8 * d128 && 10 * s128 <= 12 * d128 + 10,
                    "C34:start-outside-jitter-window",
                    "attempt for delay {d} ms started at {s} ms (sorted delays {sorted_delays:?}, starts {starts:?})"
                );
            }
            None => {
                // never started: only legitimate if the call was over before it had to start
                let end = returned_at.unwrap_or(HORIZON_MS) as u128;
                check!(
                    12 * d128 + 10 >= 10 * end,
                    "C34:attempt-not-started",
                    "no attempt for delay {d} ms although the call ran until {end} ms (starts {starts:?})"
                );
            }
        }
    }
    check!(starts.first().map(|s| *s <= 1).unwrap_or(false), "C34:no-immediate-attempt", "first attempt did not start at once: {starts:?}");

    // ---- result ----
    let first_success = attempts.iter().filter(|a| a.result.is_ok()).map(|a| a.done).min();
    let has_small_1_2 = c.delays.iter().any(|d| matches!(d, 1 | 2));
    let has_huge = c.delays.iter().any(|d| *d >= HUGE_MIN);
    let first_fails = attempts.first().map(|a| a.result.is_err()).unwrap_or(false);
    let mut classes = vec![match c.kind {
        Kind::V4 => "kind-v4",
        Kind::V6 => "kind-v6",
        Kind::Both => "kind-both",
        Kind::TxtName => "kind-txt-name",
        Kind::TxtId => "kind-txt-id",
    }];
    if has_small_1_2 {
        classes.push("delay-1-or-2ms");
    }
    if has_huge {
        classes.push("delay-huge");
    }
    if c.delays.is_empty() {
        classes.push("no-delays");
    }
    match &outcome {
        None => {
            classes.push("result-pending-at-horizon");
            check!(has_huge, "C34:hang", "call with delays {:?} did not return within {HORIZON_MS} virtual ms", c.delays);
            check!(first_success.is_none(), "C34:success-not-returned", "an attempt succeeded at {first_success:?} ms but the call is still pending at the horizon; attempts {attempts:?}");
        }
        Some((Got::Err(errs), t)) => {
            classes.push("result-err");
            check!(first_success.is_none(), "C34:success-not-returned", "call failed with {errs:?} although an attempt succeeded at {first_success:?}; attempts {attempts:?}");
            check!(attempts.len() == n_attempts, "C34:error-before-all-attempts", "error returned after {} of {n_attempts} attempts", attempts.len());
            let mut want: Vec<ErrId> = attempts.iter().map(|a| a.result.clone().unwrap_err()).collect();
            let mut got = errs.clone();
            want.sort();
            got.sort();
            check!(got == want, "C34:errors-not-carried", "error carries {got:?}, attempts failed with {want:?}");
            let last = attempts.iter().map(|a| a.done).max().unwrap_or(0);
            check!(*t >= last && *t <= last + 1, "C34:return-time", "error returned at {t} ms, last attempt failed at {last} ms");
        }
        Some((got @ (Got::OkIps(v) | Got::OkInfo(v)), t)) => {
            classes.push("result-ok");
            let Some(first) = first_success else {
                return Outcome::violation("C34:ok-without-success", format!("call returned {got:?} but no attempt succeeded: {attempts:?}"));
            };
            let candidates: Vec<&Attempt> = attempts.iter().filter(|a| a.result.is_ok() && a.done <= first + 1).collect();
            check!(
                candidates.iter().any(|a| a.result.as_ref().unwrap() == v),
                "C34:not-first-success",
                "returned {v:?} at {t} ms; first success completed at {first} ms with {:?}; attempts {attempts:?}",
                candidates.iter().map(|a| a.result.clone().unwrap()).collect::<Vec<_>>()
            );
            check!(*t >= first && *t <= first + 1, "C34:return-time", "returned at {t} ms, first success completed at {first} ms");
            if first_fails {
                classes.push("ok-after-first-attempt-failed");
            }
            if attempts.iter().filter(|a| a.result.is_ok()).count() >= 2 {
                classes.push("several-successes");
            }
        }
    }
    let nontrivial = has_small_1_2 || has_huge || (first_fails && first_success.is_some());
    Outcome::pass_with(nontrivial, classes)
}

pub fn run(ctx: &Ctx) {
    ctx.rule("cases: lookup kind (A, AAAA, A+AAAA, endpoint TXT by name / by id) x per-attempt timeout x 0-5 stagger delays over {0,1,2,3,4,5,10,199,200,1000} ∪ uniform up to 1e8 ms ∪ huge (2^40 .. u64::MAX, dense around u64::MAX/40) x per-attempt scripted answer (Ok with 0-3 addresses / error / unparseable TXT / never) after a latency below, around or above the timeout; non-trivial = the list contains a delay of 1 or 2 ms or a huge delay, or the first attempt fails and a later one succeeds");
    ctx.assume("attempt start times are those observed by the scripted resolver under tokio's paused clock (1 ms timer granularity tolerated); attempts whose scripted latency equals the timeout are excluded (which side of the race wins is unspecified); delays between 1e8 ms and 2^40 ms are not generated so that a virtual horizon of 1e9 ms separates attempts that must have run from attempts that must not have started");
    let k = ctx.tier.pick(1, 10);
    ctx.explore("stagger", ExploreOpts::new(300_000 * k), case_strategy, oracle);
}
