//! C13 — the captive-portal probe `/generate_204` echoes only well-formed challenges.
//!
//! Black-box over loopback HTTP/1.1 against two real `iroh_relay::server::Server`s: one
//! without TLS (the probe is a request handler of the relay's own HTTP server) and one with
//! TLS (the probe is the stand-alone plain-HTTP captive-portal service).  Requests are
//! written byte by byte; responses are parsed by hand.
//!
//! Oracle (independent of the server code): the *challenge* is the field value of the
//! `X-Iroh-Challenge` request header in the HTTP sense (RFC 9110 §5.5: bytes after the colon
//! without leading/trailing SP/HTAB).  It is well-formed iff 1 <= len <= 63 and every byte is
//! in the 65-character table below.  Every request is answered 204; the response carries
//! exactly one `X-Iroh-Response: response <challenge>` iff the challenge is well-formed and
//! no such header otherwise.

use std::net::SocketAddr;

use proptest::prelude::*;
use serde::{Deserialize, Serialize};

use crate::{
    check,
    engine::{Ctx, ExploreOpts, Outcome},
    support::{
        gens::pick,
        http1::{Conn, HttpError, trim_ows},
        relay_srv::RelayUnderTest,
    },
};

/// The allowed alphabet, spelled out (not derived from `char` classification helpers).
const ALPHABET: &[u8; 65] = b"ABCDEFGHIJKLMNOPQRSTUVWXYZabcdefghijklmnopqrstuvwxyz0123456789.-_";

fn well_formed(challenge: &[u8]) -> bool {
    (1..=63).contains(&challenge.len()) && challenge.iter().all(|b| ALPHABET.contains(b))
}

/// Bytes a header value may carry on the wire (RFC 9110 field-content: HTAB, SP, VCHAR,
/// obs-text).  Everything else makes the *request* malformed and is outside the domain.
fn header_legal(b: u8) -> bool {
    b == 0x09 || (0x20..=0x7E).contains(&b) || b >= 0x80
}

/// Near misses: the neighbours of the allowed ASCII ranges, separators, whitespace, obs-text.
const NEAR_MISS: &[u8] = b" \t/:@[`{,+=~!*%;\"'()<>?\\^|#$&]}\x80\xC3\xA9\xFF";

const NAME_STYLES: &[&str] = &[
    "X-Iroh-Challenge",
    "x-iroh-challenge",
    "X-IROH-CHALLENGE",
    "x-IrOh-cHaLlEnGe",
];

/// Headers that look like the challenge header but are not.
const DECOYS: &[&str] = &[
    "X-Iroh-Challenge2: decoyvalue\r\n",
    "X-Iroh-Challeng: decoyvalue\r\n",
    "X-Iroh-Response: response forged\r\n",
    "X-Iroh-Challenge-Id: 123az__.\r\n",
];

#[derive(Debug, Clone, Serialize, Deserialize)]
struct Req {
    /// Raw bytes after `X-Iroh-Challenge:` for each challenge header line (0, 1 or 2 lines).
    lines: Vec<Vec<u8>>,
    name_style: u8,
    /// Bit i set: decoy header i is added (before the challenge lines if bit 7 is clear).
    decoys: u8,
}

#[derive(Debug, Clone, Serialize, Deserialize)]
struct Case {
    /// 0 = relay without TLS; 1 = captive-portal service next to a TLS relay.
    route: u8,
    /// Requests sent one after the other over one keep-alive connection.
    reqs: Vec<Req>,
}

fn alpha_string(len: impl Strategy<Value = usize>) -> impl Strategy<Value = Vec<u8>> {
    len.prop_flat_map(|l| proptest::collection::vec(any::<u16>(), l))
        .prop_map(|v| v.into_iter().map(|i| ALPHABET[pick(i, ALPHABET.len())]).collect())
}

fn length() -> impl Strategy<Value = usize> {
    prop_oneof![
        3 => 0usize..=80,
        4 => 60usize..=66,
        2 => 0usize..=3,
    ]
}

fn forbidden_byte() -> impl Strategy<Value = u8> {
    prop_oneof![
        3 => any::<u16>().prop_map(|i| NEAR_MISS[pick(i, NEAR_MISS.len())]),
        1 => any::<u8>().prop_filter("header-legal and not allowed", |b| header_legal(*b) && !ALPHABET.contains(b)),
    ]
}

fn core_value() -> impl Strategy<Value = Vec<u8>> {
    prop_oneof![
        // allowed characters only
        4 => alpha_string(length()),
        // allowed characters with 1..2 forbidden bytes substituted
        5 => (alpha_string(length()), proptest::collection::vec((any::<u16>(), forbidden_byte()), 1..=2)).prop_map(|(mut s, subs)| {
            for (pos, b) in subs {
                if s.is_empty() { s.push(b); } else { let p = pick(pos, s.len()); s[p] = b; }
            }
            s
        }),
        // arbitrary header-legal bytes
        1 => proptest::collection::vec(any::<u8>().prop_filter("header-legal", |b| header_legal(*b)), 0..=80),
    ]
}

fn pad() -> impl Strategy<Value = Vec<u8>> {
    prop_oneof![
        6 => Just(vec![]),
        2 => Just(vec![b' ']),
        1 => Just(vec![b'\t']),
        1 => Just(vec![b' ', b'\t', b' ']),
    ]
}

fn line() -> impl Strategy<Value = Vec<u8>> {
    (pad(), core_value(), pad()).prop_map(|(a, b, c)| [a, b, c].concat())
}

fn req() -> impl Strategy<Value = Req> {
    let lines = prop_oneof![
        1 => Just(vec![]),
        12 => line().prop_map(|l| vec![l]),
        2 => (line(), line()).prop_map(|(a, b)| vec![a, b]),
    ];
    (lines, 0u8..4, prop_oneof![3 => Just(0u8), 1 => any::<u8>()])
        .prop_map(|(lines, name_style, decoys)| Req { lines, name_style, decoys })
}

fn strategy() -> impl Strategy<Value = Case> {
    (0u8..2, proptest::collection::vec(req(), 1..=3)).prop_map(|(route, reqs)| Case { route, reqs })
}

fn request_bytes(r: &Req) -> Vec<u8> {
    let mut out = b"GET /generate_204 HTTP/1.1\r\nHost: relay.test\r\n".to_vec();
    let decoys = |out: &mut Vec<u8>| {
        for (i, d) in DECOYS.iter().enumerate() {
            if r.decoys & (1 << i) != 0 {
                out.extend_from_slice(d.as_bytes());
            }
        }
    };
    if r.decoys & 0x80 == 0 {
        decoys(&mut out);
    }
    let name = NAME_STYLES[r.name_style as usize % NAME_STYLES.len()];
    for l in &r.lines {
        out.extend_from_slice(name.as_bytes());
        out.push(b':');
        out.extend_from_slice(l);
        out.extend_from_slice(b"\r\n");
    }
    if r.decoys & 0x80 != 0 {
        decoys(&mut out);
    }
    out.extend_from_slice(b"\r\n");
    out
}

fn show(v: &[u8]) -> String {
    v.iter().flat_map(|b| std::ascii::escape_default(*b)).map(|b| b as char).collect()
}

fn run_case(c: &Case, addrs: &[SocketAddr; 2]) -> Outcome {
    for r in &c.reqs {
        for l in &r.lines {
            if !l.iter().all(|b| header_legal(*b)) {
                return Outcome::Excluded("byte not allowed in an HTTP header value");
            }
        }
    }
    let route = (c.route % 2) as usize;
    let mut conn = Conn::connect(addrs[route]);
    let mut nontrivial = false;
    let mut classes: Vec<&'static str> = vec![if route == 0 { "route:relay-http" } else { "route:captive-portal-service" }];
    if c.reqs.len() > 1 {
        classes.push("keep-alive");
    }
    for (idx, r) in c.reqs.iter().enumerate() {
        let bytes = request_bytes(r);
        if let Err(e) = conn.send(&bytes) {
            return Outcome::violation("C13:no-answer", format!("request {idx}: cannot send: {e:?}"));
        }
        let resp = match conn.read_response() {
            Ok(r) => r,
            Err(HttpError::Closed { got }) => {
                return Outcome::violation("C13:no-answer", format!("request {idx} ({}): connection closed, got {:?}", show(&bytes), show(&got)));
            }
            Err(e) => return Outcome::violation("C13:no-answer", format!("request {idx} ({}): {e:?}", show(&bytes))),
        };
        check!(resp.status == 204, "C13:status", "request {idx} ({}): status {} instead of 204", show(&bytes), resp.status);
        let challenges: Vec<&[u8]> = r.lines.iter().map(|l| trim_ows(l)).collect();
        let echoed = resp.all("x-iroh-response");
        check!(echoed.len() <= 1, "C13:duplicate-response-header", "request {idx}: {} response headers", echoed.len());
        match challenges.as_slice() {
            [] => {
                check!(echoed.is_empty(), "C13:echo-without-challenge", "request {idx} without challenge header got {:?}", show(echoed[0]));
                classes.push("absent");
            }
            [ch] => {
                let wf = well_formed(ch);
                if wf {
                    check!(!echoed.is_empty(), "C13:valid-not-echoed", "well-formed challenge {:?} (len {}) got no response header", show(ch), ch.len());
                    let want = [b"response ".as_slice(), ch].concat();
                    check!(echoed[0] == want.as_slice(), "C13:wrong-echo", "challenge {:?} echoed as {:?}", show(ch), show(echoed[0]));
                    classes.push("well-formed");
                } else {
                    check!(echoed.is_empty(), "C13:malformed-echoed", "malformed challenge {:?} (len {}) echoed as {:?}", show(ch), ch.len(), show(echoed[0]));
                    classes.push("malformed");
                }
                let bad = ch.iter().filter(|b| !ALPHABET.contains(b)).count();
                let edge_len = (62..=65).contains(&ch.len());
                if edge_len && bad == 0 {
                    classes.push("len62..65-clean");
                    nontrivial = true;
                }
                if bad == 1 && (1..=63).contains(&ch.len()) {
                    classes.push("one-forbidden-byte");
                    nontrivial = true;
                }
                if ch.is_empty() {
                    classes.push("empty");
                }
                if ch.len() != r.lines[0].len() {
                    classes.push("ows-padded");
                }
                if ch.iter().any(|b| *b >= 0x80) {
                    classes.push("obs-text");
                }
            }
            many => {
                // Repeated header: the statement does not say which line is "the" challenge
                // (first line vs. RFC 9110 list combination), so only what follows under
                // every reading is required.
                if let Some(e) = echoed.first() {
                    let ok = many.iter().any(|ch| well_formed(ch) && **e == [b"response ".as_slice(), ch].concat());
                    check!(ok, "C13:malformed-echoed", "repeated challenge headers {:?}: echoed {:?} matches no well-formed line", many.iter().map(|m| show(m)).collect::<Vec<_>>(), show(e));
                }
                classes.push("repeated");
            }
        }
    }
    Outcome::pass_with(nontrivial, classes)
}

/// Finite part: every length 0..=80 of clean challenges, every single header-legal byte as
/// a whole challenge, and every header-legal byte substituted at the start, middle and end
/// of a clean 10-character and a clean 63-character challenge.
fn enumerated() -> Vec<Case> {
    let mut out = Vec::new();
    let clean = |n: usize| -> Vec<u8> { (0..n).map(|i| ALPHABET[(i * 7 + 3) % 65]).collect() };
    for route in 0u8..2 {
        let mut push = |value: Vec<u8>| {
            // one leading space, as ordinary clients write it
            let mut l = vec![b' '];
            l.extend_from_slice(&value);
            out.push(Case { route, reqs: vec![Req { lines: vec![l], name_style: 0, decoys: 0 }] });
        };
        for n in 0..=80 {
            push(clean(n));
        }
        for b in 0u8..=255 {
            if !header_legal(b) {
                continue;
            }
            push(vec![b]);
            for n in [10usize, 63] {
                for pos in [0, n / 2, n - 1] {
                    let mut v = clean(n);
                    v[pos] = b;
                    push(v);
                }
            }
        }
    }
    out
}

pub fn run(ctx: &Ctx) {
    ctx.rule("GET /generate_204 over loopback HTTP/1.1 keep-alive against two real relay servers (plain relay HTTP server; stand-alone captive-portal service next to a TLS relay); 1..3 requests per connection, each with 0/1/2 X-Iroh-Challenge lines (4 name spellings, optional SP/HTAB padding, look-alike decoy headers); values of length 0..80 over the 65 allowed characters with 0..2 forbidden header-legal bytes (near misses of the ASCII ranges, separators, whitespace, obs-text), lengths dense at 60..66, plus arbitrary header-legal bytes; finite part: all clean lengths 0..80, every header-legal byte alone and substituted at start/middle/end of a 10- and a 63-character challenge; non-trivial = a single-line request whose challenge is clean with length 62..65, or has length 1..63 with exactly one forbidden byte");
    ctx.assume("the challenge is the HTTP field value (leading/trailing SP/HTAB are not part of it, RFC 9110 5.5); bytes that make the request itself malformed (CTLs other than HTAB, DEL) are outside the domain; for a repeated challenge header only 'nothing malformed is echoed' is required, since the statement does not say which line counts");
    let plain = RelayUnderTest::spawn(false);
    let tls = RelayUnderTest::spawn(true);
    let addrs = [plain.http_addr, tls.http_addr];
    let k = ctx.tier.pick(1, 10);
    ctx.enumerate_par("enumerated", enumerated(), 8, |c: &Case| run_case(c, &addrs));
    ctx.explore("random", ExploreOpts::new(100_000 * k).shrink(4000), strategy, |c: &Case| run_case(c, &addrs));
    plain.shutdown();
    tls.shutdown();
}
