//! C36 — DNS server serves a zone only from packets signed by its key.
//!
//! Black box against `Server::bind(Config)` on loopback: histories of correctly signed
//! publishes (records inside and outside the signer's zone, filtered types) and badly signed
//! ones over three keys; after every step the whole universe of interesting (name, type)
//! questions is asked over UDP / DoH and `GET /pkarr/K` for every key, and compared with a
//! reference model.  A second part drives `ZoneStore::resolve` in process (all types incl.
//! NS/SOA, which the DNS handler never forwards to the zone store).

use std::collections::{BTreeMap, BTreeSet};

use iroh_base::PublicKey;
use iroh_dns::pkarr::SignedPacket;
use iroh_dns_server::verif::ZoneStoreHandle;
use proptest::prelude::*;
use serde::{Deserialize, Serialize};

use crate::{
    engine::{self, Ctx, ExploreOpts, Outcome},
    support::{
        dnssrv::{
            self, CanonRec, Http, ORIGIN, RD, Rec, T0, TYPE_A, TYPE_AAAA, TYPE_ANY, TYPE_CNAME,
            TYPE_NS, TYPE_SOA, TYPE_TXT, TestServer,
        },
        gens,
    },
};

const NKEYS: usize = 3;
const LABELS: [&str; 4] = ["_iroh", "a", "_dns", "b-1"];

#[derive(Debug, Clone, PartialEq, Eq, Serialize, Deserialize)]
struct RecSpec {
    /// where the owner name lies relative to the signer's zone (see `owner_name`)
    place: u8,
    /// label picks
    l: [u8; 3],
    /// pick of the "other" key
    other: u8,
    /// 0 TXT, 1 A, 2 AAAA, 3 CNAME, 4 NS, 5 SOA
    kind: u8,
    val: u8,
}

#[derive(Debug, Clone, Serialize, Deserialize)]
enum Op {
    /// A packet signed by `key`, PUT under `key`.
    Publish { key: u8, ts: u8, recs: Vec<RecSpec>, compressed: bool },
    /// A publish whose signature does not verify for the key in the request path.
    BadSig { signer: u8, how: u8, other: u8, at: u16, recs: Vec<RecSpec> },
}

#[derive(Debug, Clone, Serialize, Deserialize)]
struct Case {
    seed: u64,
    ops: Vec<Op>,
}

fn other_key(signer: usize, pick: u8) -> usize {
    (signer + 1 + (pick as usize % (NKEYS - 1))) % NKEYS
}

/// Full owner name (as written into the packet) of a record of a packet signed by `signer`.
fn owner_name(r: &RecSpec, signer: usize, zs: &[String]) -> (String, &'static str) {
    let l = |i: usize| LABELS[r.l[i] as usize % LABELS.len()];
    let zs_ = &zs[signer];
    let zo = &zs[other_key(signer, r.other)];
    match r.place % 12 {
        0 => (zs_.clone(), "in:apex"),
        1 | 2 => (format!("{}.{zs_}", l(0)), "in:depth1"),
        3 => (format!("{}.{}.{zs_}", l(1), l(0)), "in:depth2"),
        4 => (format!("{}.{}.{}.{zs_}", l(2), l(1), l(0)), "in:depth3"),
        5 => (format!("{zo}.{zs_}"), "in:other-key-as-label"),
        6 => (format!("{}.{zo}", l(0)), "out:other-key-zone"),
        7 => (zo.clone(), "out:other-key-apex"),
        8 => (format!("{zs_}.{}", l(0)), "out:z32-not-last"),
        9 => (format!("{zs_}.{zo}"), "out:z32-under-other-key"),
        10 => (format!("{zs_}.{ORIGIN}"), "out:with-origin-appended"),
        _ => {
            let pool = ["www.example.com", ORIGIN, "example", "_iroh"];
            (pool[r.l[0] as usize % pool.len()].to_string(), "out:unrelated")
        }
    }
}

fn rdata(r: &RecSpec, n: usize) -> RD {
    // `n` (the step number) makes the data of different publishes distinguishable
    let v = r.val % 4;
    match r.kind % 6 {
        0 => RD::Txt(format!("t{n}-{v}")),
        1 => RD::A([10, n as u8, 0, v]),
        2 => {
            let mut a = [0u8; 16];
            a[0] = 0xfd;
            a[14] = n as u8;
            a[15] = v;
            RD::Aaaa(a)
        }
        3 => RD::Cname(format!("c{n}.example.net")),
        4 => RD::Ns(format!("ns{n}-{v}.evil.example")),
        _ => RD::Soa { mname: format!("m{n}.evil.example"), rname: format!("r{v}.evil.example"), serial: n as u32 + 1 },
    }
}

/// The records of a packet; at most one CNAME per owner (a CNAME record set is a singleton
/// by RFC 1034, the second one would not be a valid zone).
fn packet_records(recs: &[RecSpec], signer: usize, zs: &[String], n: usize) -> (Vec<Rec>, BTreeSet<&'static str>) {
    let mut out: Vec<Rec> = vec![];
    let mut classes = BTreeSet::new();
    for r in recs {
        let (owner, class) = owner_name(r, signer, zs);
        let rd = rdata(r, n);
        if rd.rtype() == TYPE_CNAME && out.iter().any(|o| o.owner == owner && o.rd.rtype() == TYPE_CNAME) {
            continue;
        }
        classes.insert(class);
        if matches!(rd.rtype(), TYPE_NS | TYPE_SOA) {
            classes.insert(if class.starts_with("in:") { "filtered-type-in-zone" } else { "filtered-type-out-of-zone" });
        }
        out.push(Rec { owner, ttl: 30 + r.val as u32, rd });
        // the dns part of a pkarr packet is limited to 1000 bytes
        if dnssrv::build_dns(&out, false).len() > 1000 {
            out.pop();
            break;
        }
    }
    (out, classes)
}

/// What the statement allows the server to serve from a packet signed by key `signer`.
fn servable(recs: &[Rec], z_signer: &str) -> Vec<Rec> {
    recs.iter()
        .filter(|r| r.owner.rsplit('.').next() == Some(z_signer))
        .filter(|r| !matches!(r.rd.rtype(), TYPE_NS | TYPE_SOA))
        .cloned()
        .collect()
}

struct Stored {
    ts: u64,
    dns: Vec<u8>,
    payload: Vec<u8>,
    served: Vec<Rec>,
}

#[derive(Default)]
struct Model {
    keys: Vec<Option<Stored>>,
}

impl Model {
    /// Records expected in the answer section for `qname` (canonical) and `qtype`; `None` if
    /// the name is not under the zone of any harness key.
    fn expected(&self, zs: &[String], qname: &str, qtype: u16) -> Option<(usize, Vec<CanonRec>)> {
        let (k, in_packet_owner) = split_qname(zs, qname)?;
        let mut v: Vec<CanonRec> = self.keys[k]
            .iter()
            .flat_map(|s| s.served.iter())
            .filter(|r| r.owner == in_packet_owner && (r.rd.rtype() == qtype || qtype == TYPE_ANY))
            .map(|r| (qname.to_string(), r.rd.rtype(), r.rd.canon()))
            .collect();
        v.sort();
        v.dedup();
        Some((k, v))
    }
}

/// Decomposes `<rel>.<z32 Ki>[.<origin>]` for the two configured origins.
fn split_qname(zs: &[String], qname: &str) -> Option<(usize, String)> {
    let rest = match qname.strip_suffix(ORIGIN) {
        Some(r) if r.ends_with('.') => &r[..r.len() - 1],
        Some(_) => return None, // the origin itself or a different name
        None => qname,
    };
    let last = rest.rsplit('.').next()?;
    let k = zs.iter().position(|z| z == last)?;
    Some((k, rest.to_string()))
}

struct Env {
    sks: Vec<iroh_base::SecretKey>,
    pks: Vec<[u8; 32]>,
    zs: Vec<String>,
}

fn env(seed: u64) -> Env {
    let sks: Vec<_> = (0..NKEYS).map(|k| dnssrv::secret(seed, k as u32)).collect();
    let pks: Vec<[u8; 32]> = sks.iter().map(|s| *s.public().as_bytes()).collect();
    let zs = pks.iter().map(dnssrv::z32).collect();
    Env { sks, pks, zs }
}

/// A prepared step: what to PUT where, and how the model changes.
struct Step {
    path_key: usize,
    body: Vec<u8>,
    /// Some((ts, dns, served)) for a valid publish
    valid: Option<(u64, Vec<u8>, Vec<Rec>)>,
    all_records: Vec<Rec>,
    classes: BTreeSet<&'static str>,
}

/// Prepares step `n`; a `BadSig` of kind "replayed signature" looks at the earlier valid
/// publishes of the same key to find the packet the server currently stores for it.
fn prepare_at(ops: &[Op], n: usize, e: &Env) -> Step {
    let op = &ops[n];
    if let Op::BadSig { signer, how, recs, .. } = op {
        if how % 7 == 6 {
            let s = *signer as usize % NKEYS;
            // newest earlier valid packet of this key under (timestamp, dns bytes)
            let mut stored: Option<(u64, Vec<u8>, Vec<u8>)> = None;
            for (m, prev) in ops[..n].iter().enumerate() {
                if let Op::Publish { key, .. } = prev {
                    if *key as usize % NKEYS == s {
                        let st = prepare(prev, m, e);
                        if let Some((ts, dns, _)) = st.valid {
                            if stored.as_ref().is_none_or(|(t, d, _)| (ts, &dns) > (*t, d)) {
                                stored = Some((ts, dns, st.body));
                            }
                        }
                    }
                }
            }
            if let Some((ts, _dns, body)) = stored {
                // the stored packet's signature in front of a newer timestamp and other records
                let (records, mut classes) = packet_records(recs, s, &e.zs, n);
                let mut records = records;
                records.push(Rec { owner: format!("_iroh.{}", e.zs[s]), ttl: 30, rd: RD::Txt(format!("replayed={n}")) });
                let dns = dnssrv::build_dns(&records, true);
                let mut forged = body[..64].to_vec();
                forged.extend_from_slice(&(ts + 1 + n as u64).to_be_bytes());
                forged.extend_from_slice(&dns);
                classes.insert("badsig:replayed-stored-signature");
                return Step { path_key: s, body: forged, valid: None, all_records: records, classes };
            }
        }
    }
    prepare(op, n, e)
}

fn prepare(op: &Op, n: usize, e: &Env) -> Step {
    match op {
        Op::Publish { key, ts, recs, compressed } => {
            let k = *key as usize % NKEYS;
            let (records, mut classes) = packet_records(recs, k, &e.zs, n);
            if records.is_empty() {
                classes.insert("empty-packet");
            }
            let dns = dnssrv::build_dns(&records, *compressed);
            let ts = T0 + (*ts as u64 % 6) * 1_000_000;
            let body = dnssrv::sign_payload(&e.sks[k], ts, &dns);
            let served = servable(&records, &e.zs[k]);
            Step { path_key: k, body, valid: Some((ts, dns, served)), all_records: records, classes }
        }
        Op::BadSig { signer, how, other, at, recs } => {
            let s = *signer as usize % NKEYS;
            let (records, mut classes) = packet_records(recs, s, &e.zs, n);
            let dns = dnssrv::build_dns(&records, true);
            // newer than every valid publish, so acceptance would be visible
            let ts = T0 + 100_000_000 + n as u64;
            let mut body = dnssrv::sign_payload(&e.sks[s], ts, &dns);
            let mut path_key = s;
            match how % 6 {
                0 => {
                    // signed by one key, put under another
                    path_key = other_key(s, *other);
                    classes.insert("badsig:foreign-path-key");
                }
                1 => {
                    let i = 72 + gens::pick(*at, dns.len());
                    body[i] ^= 0x01 << (*at % 8);
                    // keep it a parseable DNS message where possible: flipping inside rdata/ttl
                    classes.insert("badsig:edited-dns");
                }
                2 => {
                    let i = 64 + gens::pick(*at, 8);
                    body[i] ^= 0x01 << (*at % 8);
                    classes.insert("badsig:edited-timestamp");
                }
                3 => {
                    let i = gens::pick(*at, 64);
                    body[i] ^= 0x01 << (*at % 8);
                    classes.insert("badsig:edited-signature");
                }
                4 => {
                    // signature of other (valid) content
                    let dns2 = dnssrv::build_dns(&[Rec { owner: e.zs[s].clone(), ttl: 1, rd: RD::Txt("other".into()) }], true);
                    let sig = dnssrv::sign_payload(&e.sks[s], ts, &dns2);
                    body[..64].copy_from_slice(&sig[..64]);
                    classes.insert("badsig:signature-of-other-content");
                }
                _ => {
                    // signed by a key that is not the zone's, put under the zone's key, records in the zone of the path key
                    let victim = other_key(s, *other);
                    let (records2, _) = packet_records(recs, victim, &e.zs, n);
                    let dns2 = dnssrv::build_dns(&records2, true);
                    body = dnssrv::sign_payload(&e.sks[s], ts, &dns2);
                    path_key = victim;
                    classes.insert("badsig:forged-for-victim-zone");
                    return Step { path_key, body, valid: None, all_records: records2, classes };
                }
            }
            Step { path_key, body, valid: None, all_records: records, classes }
        }
    }
}

/// Every (query name, type) worth asking for this case.
fn universe(case: &Case, e: &Env) -> Vec<(String, u16)> {
    let mut u: BTreeSet<(String, u16)> = BTreeSet::new();
    for (i, z) in e.zs.iter().enumerate() {
        u.insert((format!("{z}.{ORIGIN}"), TYPE_TXT));
        u.insert((z.clone(), [TYPE_NS, TYPE_SOA, TYPE_ANY][i % 3]));
        u.insert((format!("_iroh.{z}.{ORIGIN}"), TYPE_TXT));
    }
    let mut flip = false;
    for (n, op) in case.ops.iter().enumerate() {
        let step = prepare_at(&case.ops, n, e);
        for r in &step.all_records {
            flip = !flip;
            let owner = dnssrv::canon_name(&r.owner);
            // the name as a client would ask it under one of the two origins
            let q = if flip { format!("{owner}.{ORIGIN}") } else { owner.clone() };
            u.insert((q.clone(), r.rd.rtype()));
            if r.rd.rtype() != TYPE_TXT && n % 2 == 0 {
                u.insert((q, TYPE_TXT));
            }
        }
    }
    u.into_iter().collect()
}

fn show(v: &[CanonRec]) -> Vec<String> {
    v.iter().map(|(n, t, d)| format!("{n}/{t}/{}", String::from_utf8_lossy(d))).collect()
}

type Fail = (String, String);

/// Checks one DNS response against the model.
fn judge(model: &Model, zs: &[String], qname: &str, qtype: u16, msg: &dnssrv::DnsMsg, step: &str) -> Result<(), Fail> {
    let exp = model.expected(zs, qname, qtype);
    // records of the server's own static zone (SOA/NS/A at an origin; an SOA query for any name is
    // answered with the SOA of the first origin) are not zone data of any key: rule 1 below
    // confines them to the origins, rule 2 compares the rest
    let mut answers: Vec<CanonRec> = msg.answers.iter().filter(|r| split_qname(zs, &r.0).is_some()).cloned().collect();
    answers.sort();
    answers.dedup();
    // 1. nothing in any section may lie under a key's zone unless that key's newest packet has it
    for rec in msg.all_records() {
        match split_qname(zs, &rec.0) {
            Some((k, owner)) => {
                let ok = model.keys[k].iter().flat_map(|s| s.served.iter()).any(|r| r.owner == owner && r.rd.rtype() == rec.1 && r.rd.canon() == rec.2);
                if !ok {
                    return Err((
                        "C36:record-not-from-signer".into(),
                        format!("{step}: answer to {qname}/{qtype} contains {:?}, which is not a servable record of the newest packet signed by key {k}", show(std::slice::from_ref(rec))),
                    ));
                }
            }
            None => {
                // static zone data: only at the configured origins
                if !(rec.0 == ORIGIN || rec.0.is_empty()) {
                    return Err(("C36:foreign-record".into(), format!("{step}: answer to {qname}/{qtype} contains {:?}, neither static zone data nor under a key's zone", show(std::slice::from_ref(rec)))));
                }
            }
        }
    }
    // 2. the answer section is exactly what the newest packet of that key has for (name, type)
    if let Some((k, expected)) = exp {
        if qtype == TYPE_ANY {
            // a server may answer ANY with any subset
            if !answers.iter().all(|a| expected.contains(a)) {
                return Err(("C36:record-not-from-signer".into(), format!("{step}: ANY answer for {qname} has {:?}, packet has {:?}", show(&answers), show(&expected))));
            }
        } else if answers != expected {
            let sig = if answers.iter().all(|a| expected.contains(a)) { "C36:published-record-not-served" } else { "C36:record-not-from-signer" };
            return Err((
                sig.into(),
                format!("{step}: answer to {qname}/{qtype} (rcode {}) is {:?}; the newest packet signed by key {k} has {:?}", msg.rcode, show(&answers), show(&expected)),
            ));
        }
    }
    Ok(())
}

fn run_blackbox(case: &Case) -> Outcome {
    if case.ops.is_empty() {
        return Outcome::Excluded("empty history");
    }
    let e = env(case.seed);
    let uni = universe(case, &e);
    let mut classes: BTreeSet<&'static str> = BTreeSet::new();
    let mut nontrivial = false;
    let res: Result<(), Fail> = engine::real_rt(async {
        let server = TestServer::start("c36").await;
        let mut http = Http::new(server.http);
        let udp = dnssrv::udp_socket().await;
        let mut model = Model { keys: (0..NKEYS).map(|_| None).collect() };
        let res = async {
            for (n, op) in case.ops.iter().enumerate() {
                let step = prepare_at(&case.ops, n, &e);
                let r = http.pkarr_put(&e.zs[step.path_key], &step.body).await;
                match &step.valid {
                    Some((ts, dns, served)) => {
                        if r.status != 204 {
                            return Err(("C36:valid-publish-rejected".to_string(), format!("step {n}: PUT of a correctly signed packet answered {}: {}", r.status, String::from_utf8_lossy(&r.body))));
                        }
                        let k = step.path_key;
                        let newer = match &model.keys[k] {
                            None => true,
                            Some(cur) => dnssrv::newer((*ts, dns), (cur.ts, &cur.dns)),
                        };
                        if newer {
                            if step.classes.iter().any(|c| c.starts_with("out:") || c.starts_with("filtered-type")) {
                                nontrivial = true;
                            }
                            model.keys[k] = Some(Stored { ts: *ts, dns: dns.clone(), payload: step.body.clone(), served: served.clone() });
                        } else {
                            classes.insert("stale-publish");
                        }
                    }
                    None => {
                        if (200..300).contains(&r.status) {
                            return Err(("C36:bad-signature-accepted".to_string(), format!("step {n}: PUT /pkarr/{} with a signature that does not verify for that key answered {} ({:?})", e.zs[step.path_key], r.status, step.classes)));
                        }
                        nontrivial = true;
                    }
                }
                classes.extend(step.classes.iter().copied());
                // the whole universe after every step: covers "changes nothing" and "never changes answers for any other key"
                for k in 0..NKEYS {
                    let g = http.pkarr_get(&e.zs[k]).await;
                    let ok = match &model.keys[k] {
                        None => g.status == 404,
                        Some(s) => g.status == 200 && g.body == s.payload,
                    };
                    if !ok {
                        return Err(("C36:stored-packet-changed".to_string(), format!("step {n} ({:?}): GET /pkarr for key {k} answered {} with a packet of ts {:?}; model has ts {:?}", step.classes, g.status, g.body.get(64..72).map(|t| u64::from_be_bytes(t.try_into().unwrap())), model.keys[k].as_ref().map(|s| s.ts))));
                    }
                }
                for (i, (qname, qtype)) in uni.iter().enumerate() {
                    let msg = if (i + n) % 3 == 0 {
                        http.doh(qname, *qtype, dnssrv::next_query_id()).await
                    } else {
                        dnssrv::udp_query(&udp, server.dns, qname, *qtype).await
                    };
                    judge(&model, &e.zs, qname, *qtype, &msg, &format!("step {n} ({:?})", step.classes))?;
                }
            }
            Ok(())
        }
        .await;
        drop(http);
        server.stop().await;
        res
    });
    match res {
        Err((sig, detail)) => Outcome::violation(sig, detail),
        Ok(()) => Outcome::pass_with(nontrivial, classes.into_iter().collect()),
    }
}

/// In process: the zone store itself, asked for every type (the DNS handler answers NS/SOA
/// from the static zone and never asks the zone store for them).
fn run_inproc(case: &Case) -> Outcome {
    if case.ops.is_empty() {
        return Outcome::Excluded("empty history");
    }
    let e = env(case.seed);
    let mut classes: BTreeSet<&'static str> = BTreeSet::new();
    let mut nontrivial = false;
    // relative names to ask per key, from every record of the case
    let mut asks: BTreeMap<usize, BTreeSet<String>> = BTreeMap::new();
    for (n, op) in case.ops.iter().enumerate() {
        for r in prepare_at(&case.ops, n, &e).all_records {
            if let Some((k, owner)) = split_qname(&e.zs, &dnssrv::canon_name(&r.owner)) {
                let rel = owner.strip_suffix(e.zs[k].as_str()).unwrap().trim_end_matches('.').to_string();
                asks.entry(k).or_default().insert(rel);
            }
        }
    }
    let res: Result<(), Fail> = engine::real_rt(async {
        let store = ZoneStoreHandle::in_memory(dnssrv::quiet_store_config()).expect("in-memory zone store");
        let mut model = Model { keys: (0..NKEYS).map(|_| None).collect() };
        let res = async {
            for (n, op) in case.ops.iter().enumerate() {
                let step = prepare_at(&case.ops, n, &e);
                let path_pk = PublicKey::from_bytes(&e.pks[step.path_key]).expect("harness key");
                let parsed = SignedPacket::from_relay_payload(&path_pk, &step.body);
                match (&step.valid, parsed) {
                    (Some((ts, dns, served)), Ok(packet)) => {
                        let k = step.path_key;
                        store.insert(packet).await.map_err(|err| ("C36:insert-failed".to_string(), format!("{err:?}")))?;
                        let newer = match &model.keys[k] {
                            None => true,
                            Some(cur) => dnssrv::newer((*ts, dns), (cur.ts, &cur.dns)),
                        };
                        if newer {
                            if step.classes.iter().any(|c| c.starts_with("out:") || c.starts_with("filtered-type")) {
                                nontrivial = true;
                            }
                            model.keys[k] = Some(Stored { ts: *ts, dns: dns.clone(), payload: step.body.clone(), served: served.clone() });
                        }
                    }
                    (Some(_), Err(err)) => return Err(("C36:valid-publish-rejected".to_string(), format!("step {n}: {err:?}"))),
                    (None, Ok(_)) => return Err(("C36:bad-signature-accepted".to_string(), format!("step {n}: from_relay_payload accepted {:?}", step.classes))),
                    (None, Err(_)) => {}
                }
                classes.extend(step.classes.iter().copied());
                for (&k, rels) in &asks {
                    for rel in rels {
                        for qtype in [TYPE_TXT, TYPE_A, TYPE_AAAA, TYPE_CNAME, TYPE_NS, TYPE_SOA] {
                            let wire = store.resolve_wire(&e.pks[k], rel, qtype).await.map_err(|err| ("C36:resolve-failed".to_string(), format!("{err:?}")))?;
                            let owner = if rel.is_empty() { e.zs[k].clone() } else { format!("{rel}.{}", e.zs[k]) };
                            let mut got: Vec<(u16, Vec<u8>)> = match wire {
                                None => vec![],
                                Some(w) => dnssrv::parse_msg(&w).expect("hook message parses").answers.into_iter().map(|r| (r.1, r.2)).collect(),
                            };
                            got.sort();
                            got.dedup();
                            let mut want: Vec<(u16, Vec<u8>)> = model.keys[k].iter().flat_map(|s| s.served.iter()).filter(|r| r.owner == owner && r.rd.rtype() == qtype).map(|r| (qtype, r.rd.canon())).collect();
                            want.sort();
                            want.dedup();
                            if got != want {
                                let sig = if got.iter().all(|g| want.contains(g)) { "C36:published-record-not-served" } else { "C36:record-not-from-signer" };
                                return Err((sig.to_string(), format!("step {n}: ZoneStore::resolve(key {k}, {rel:?}, type {qtype}) returned {:?}, the newest packet signed by the key allows {:?}", got.iter().map(|g| String::from_utf8_lossy(&g.1).to_string()).collect::<Vec<_>>(), want.iter().map(|g| String::from_utf8_lossy(&g.1).to_string()).collect::<Vec<_>>())));
                            }
                        }
                    }
                }
            }
            Ok(())
        }
        .await;
        drop(store);
        res
    });
    match res {
        Err((sig, detail)) => Outcome::violation(sig, detail),
        Ok(()) => Outcome::pass_with(nontrivial, classes.into_iter().collect()),
    }
}

fn rec_spec() -> impl Strategy<Value = RecSpec> {
    (0u8..12, any::<[u8; 3]>(), any::<u8>(), prop_oneof![3 => Just(0u8), 1 => Just(1u8), 1 => Just(2u8), 1 => Just(3u8), 2 => Just(4u8), 1 => Just(5u8)], 0u8..4)
        .prop_map(|(place, l, other, kind, val)| RecSpec { place, l: [l[0] % 4, l[1] % 4, l[2] % 4], other: other % 2, kind, val })
}

fn strategy() -> impl Strategy<Value = Case> {
    let publish = (0u8..3, 0u8..6, proptest::collection::vec(rec_spec(), 0..=6), any::<bool>())
        .prop_map(|(key, ts, recs, compressed)| Op::Publish { key, ts, recs, compressed });
    let bad = (0u8..3, prop_oneof![3 => 0u8..6, 2 => Just(6u8)], 0u8..2, any::<u16>(), proptest::collection::vec(rec_spec(), 1..=3))
        .prop_map(|(signer, how, other, at, recs)| Op::BadSig { signer, how, other, at, recs });
    let op = prop_oneof![3 => publish, 2 => bad];
    (any::<u64>(), proptest::collection::vec(op, 1..=8)).prop_map(|(seed, ops)| Case { seed, ops })
}

pub fn run(ctx: &Ctx) {
    ctx.rule("histories of 1..8 steps over 3 keys: correctly signed publishes (0..6 records of types TXT/A/AAAA/CNAME/NS/SOA under names inside the signer's zone at depth 0..3, under another key's zone, with the signer's z32 label not in last position, with the origin appended, unrelated) and publishes whose signature does not verify for the path key (foreign path key, forged packet for a victim's zone, edited dns/timestamp/signature, signature of other content); after every step GET /pkarr for all keys and every (name, type) of the case's universe is asked (UDP and DoH, both origins) and compared with the reference model (newest accepted packet per key, records of its zone, no SOA/NS); non-trivial = a bad-signature publish, or an accepted packet with a record outside the signer's zone or of a filtered type");
    ctx.assume("records of the server's own static zone (owner = a configured origin) may appear in any section; TTLs are not compared; one CNAME per owner and packet; names are lower case; records in other sections than answers may only be static zone data at an origin or records of the model; an ANY answer may be any subset");
    if dnssrv::part_enabled("zone_store_all_types") {
        ctx.explore("zone_store_all_types", ExploreOpts::new(ctx.tier.pick(600, 6000)).shrink(300), strategy, run_inproc);
    }
    if dnssrv::part_enabled("server_histories") {
        ctx.explore("server_histories", ExploreOpts::new(ctx.tier.pick(160, 1600)).shrink(150), strategy, run_blackbox);
    }
}
