//! C05 — no client can get another client disconnected from the relay.

use bytes::Bytes;
use iroh_relay::http::ProtocolVersion;
use proptest::prelude::*;
use serde::{Deserialize, Serialize};

use crate::{
    check,
    engine::{Ctx, ExploreOpts, Outcome, paused_rt},
    support::{
        gens::{self, Payload},
        memrelay::{self, Dgram, FromRelay, Relay},
    },
};

#[derive(Debug, Clone, Serialize, Deserialize)]
enum Dst { Victim, Absent, Attacker, Bystander, Garbage([u8; 32]) }

#[derive(Debug, Clone, Serialize, Deserialize)]
enum Frame {
    /// a datagram-shaped frame: tag, 32 destination bytes, ecn byte, optional segment bytes, contents
    Datagram { batch: bool, dst: Dst, ecn: u8, seg: u16, contents: Payload },
    Ping([u8; 8]),
    Pong([u8; 8]),
    /// any tag with an arbitrary body
    Raw { tag: u8, body: Vec<u8> },
    /// a valid datagram frame cut short
    Truncated { batch: bool, keep: u8 },
}

#[derive(Debug, Clone, Serialize, Deserialize)]
struct Case {
    victim_v2: bool,
    frames: Vec<Frame>,
}

fn frame() -> impl Strategy<Value = Frame> {
    let len = prop_oneof![
        4 => 0usize..5,
        6 => 65_490usize..65_540,
        2 => 5usize..3000,
        1 => 3000usize..65_490,
    ];
    let dst = prop_oneof![6 => Just(Dst::Victim), 1 => Just(Dst::Absent), 1 => Just(Dst::Attacker), 1 => Just(Dst::Bystander), 1 => any::<[u8; 32]>().prop_map(Dst::Garbage)];
    prop_oneof![
        10 => (any::<bool>(), dst, prop_oneof![3 => 0u8..4, 1 => any::<u8>()], prop_oneof![Just(0u16), Just(1), Just(1200), any::<u16>()], len, any::<u8>())
            .prop_map(|(batch, dst, ecn, seg, len, fill)| Frame::Datagram { batch, dst, ecn, seg, contents: Payload { len, fill } }),
        1 => any::<[u8; 8]>().prop_map(Frame::Ping),
        1 => any::<[u8; 8]>().prop_map(Frame::Pong),
        2 => (0u8..20, proptest::collection::vec(any::<u8>(), 0..80)).prop_map(|(tag, body)| Frame::Raw { tag, body }),
        1 => (any::<bool>(), 0u8..40).prop_map(|(batch, keep)| Frame::Truncated { batch, keep }),
    ]
}

fn strategy() -> impl Strategy<Value = Case> {
    (any::<bool>(), proptest::collection::vec(frame(), 1..6)).prop_map(|(victim_v2, frames)| Case { victim_v2, frames })
}

const A: u8 = 0;
const B: u8 = 1;
const C: u8 = 2;

fn encode(f: &Frame) -> Bytes {
    let id = |d: &Dst| -> [u8; 32] {
        match d {
            Dst::Victim => *memrelay::pool_key(B).public().as_bytes(),
            Dst::Attacker => *memrelay::pool_key(A).public().as_bytes(),
            Dst::Bystander => *memrelay::pool_key(C).public().as_bytes(),
            Dst::Absent => *memrelay::absent_id().as_bytes(),
            Dst::Garbage(g) => *g,
        }
    };
    match f {
        Frame::Datagram { batch, dst, ecn, seg, contents } => {
            let mut v = vec![if *batch { memrelay::T_C2R_BATCH } else { memrelay::T_C2R_DATAGRAM }];
            v.extend_from_slice(&id(dst));
            v.push(*ecn);
            if *batch { v.extend_from_slice(&seg.to_be_bytes()); }
            v.extend_from_slice(&contents.bytes());
            Bytes::from(v)
        }
        Frame::Ping(d) => memrelay::encode_ping(*d),
        Frame::Pong(d) => memrelay::encode_pong(*d),
        Frame::Raw { tag, body } => { let mut v = vec![*tag]; v.extend_from_slice(body); Bytes::from(v) }
        Frame::Truncated { batch, keep } => {
            let full = encode(&Frame::Datagram { batch: *batch, dst: Dst::Victim, ecn: 0, seg: 5, contents: Payload { len: 10, fill: 1 } });
            full.slice(..(*keep as usize).min(full.len()))
        }
    }
}

/// Does the relay's documented decoder accept this frame? (tag known for client->relay,
/// at most 65536 bytes after the tag, key bytes a valid id, header complete)
fn decoder_accepts(f: &Frame) -> bool {
    let b = encode(f);
    if b.is_empty() { return false; }
    let body = &b[1..];
    match b[0] {
        memrelay::T_C2R_DATAGRAM | memrelay::T_C2R_BATCH => {
            let hdr = if b[0] == memrelay::T_C2R_BATCH { 35 } else { 33 };
            body.len() <= 65_536 && body.len() >= hdr && iroh_base::PublicKey::try_from(&body[..32]).is_ok()
        }
        memrelay::T_PING | memrelay::T_PONG => body.len() == 8,
        _ => false,
    }
}

fn run_case(c: &Case) -> Outcome {
    paused_rt(async move {
        let relay = Relay::new();
        let version = if c.victim_v2 { ProtocolVersion::V2 } else { ProtocolVersion::V1 };
        let (mut b_end, _b_id) = relay.connect(memrelay::pool_key(B).public(), version, None);
        let (mut c_end, _) = relay.connect(memrelay::pool_key(C).public(), ProtocolVersion::V2, None);
        let (mut a_end, _) = relay.connect(memrelay::pool_key(A).public(), ProtocolVersion::V2, None);
        memrelay::settle().await;
        let mut boundary = false;
        let mut accepted = 0;
        for (i, f) in c.frames.iter().enumerate() {
            let acc = decoder_accepts(f);
            if acc { accepted += 1; }
            if let Frame::Datagram { contents, .. } = f {
                if acc && (contents.len == 0 || (65_460..=65_540).contains(&contents.len)) { boundary = true; }
            }
            if !a_end.send(encode(f)) {
                // attacker's own connection was ended by an earlier frame: reconnect and go on
                let (e, _) = relay.connect(memrelay::pool_key(A).public(), ProtocolVersion::V2, None);
                a_end = e;
                memrelay::settle().await;
                a_end.send(encode(f));
            }
            memrelay::settle().await;
            memrelay::settle().await;
            // the victim is still served
            let what = format!("after attacker frame #{i} {:?} (decoder accepts: {acc})", short(f));
            check!(!b_end.server_dropped(), "C05:victim-disconnected", "victim's connection was torn down {what}");
            // a probe from the bystander reaches the victim
            let probe = Dgram { ecn: 0, seg: None, contents: Payload { len: 9, fill: i as u8 } };
            c_end.send(memrelay::encode_c2r_datagram(memrelay::pool_key(B).public().as_bytes(), &probe, None));
            let ping = [i as u8, 1, 2, 3, 4, 5, 6, 7];
            b_end.send(memrelay::encode_ping(ping));
            memrelay::settle().await;
            memrelay::settle().await;
            let got = b_end.drain();
            let probe_seen = got.iter().any(|g| matches!(g, FromRelay::Datagrams { src, d } if src == memrelay::pool_key(C).public().as_bytes() && d.contents[..] == probe.contents.bytes()[..]));
            let pong_seen = got.iter().any(|g| matches!(g, FromRelay::Pong(p) if *p == ping));
            check!(probe_seen, "C05:victim-not-served", "probe datagram from a third client did not reach the victim {what}; victim read {} frames", got.len());
            check!(pong_seen, "C05:victim-not-served", "victim's ping was not answered {what}");
            // the bystander is unaffected as well
            check!(!c_end.server_dropped(), "C05:bystander-disconnected", "bystander's connection was torn down {what}");
            let _ = c_end.drain();
            let _ = a_end.drain();
        }
        check!(relay.clients.disconnect(memrelay::pool_key(B).public(), None), "C05:victim-unregistered", "victim has no registry entry at the end");
        relay.clients.shutdown().await;
        Outcome::pass_with(boundary, vec![if accepted > 0 { "some-accepted" } else { "none-accepted" }])
    })
}

fn short(f: &Frame) -> String {
    match f {
        Frame::Datagram { batch, dst, ecn, seg, contents } => format!("Datagram{{batch:{batch}, dst:{}, ecn:{ecn}, seg:{seg}, len:{}}}", match dst { Dst::Garbage(_) => "Garbage".to_string(), d => format!("{d:?}") }, contents.len),
        other => format!("{other:?}"),
    }
}

pub fn run(ctx: &Ctx) {
    ctx.rule("victim B, bystander C and attacker A connected to the real registry over in-memory streams; A sends 1-5 raw frames (datagram frames of every flag/ecn/segment value with contents length dense in 0..4 and 65490..65540, pings, pongs, unknown tags, truncated frames) addressed to B/absent/A/C/garbage ids; after every frame: B's stream still open, a probe datagram from C reaches B, B's ping is answered, C unaffected; at the end B still registered; non-trivial = a decoder-accepted datagram with empty contents or within the limit band");
    ctx.assume("A's own connection may end; it is reconnected so the search continues");
    let k = ctx.tier.pick(1, 10);
    let _ = gens::pick(0, 1);
    ctx.explore("attack", ExploreOpts::new(5_000 * k).shrink(300), strategy, run_case);
}
