//! C11 — relay protocol version negotiation picks the best common version.
//!
//! Server side: black-box over loopback TCP against a real `iroh_relay::server::Server`
//! (no TLS) with hand-written HTTP/1.1 upgrade requests; the response is parsed by hand.
//! Client side: the real `iroh_relay::client::ClientBuilder::connect` against a fake relay
//! written in the harness (hand-written 101 answer, then two version-specific frames).
//!
//! The reference negotiation is written from the statement and RFC 9110 list syntax only:
//! the offer is the comma-separated list of elements with SP/HTAB trimmed; supported versions
//! are exactly the strings `iroh-relay-v1` < `iroh-relay-v2`.

use std::{net::SocketAddr, time::Duration};

use futures_util::{SinkExt, StreamExt};
use iroh_base::{RelayUrl, SecretKey};
use iroh_relay::protos::relay::{RelayToClientMsg, Status};
use proptest::prelude::*;
use serde::{Deserialize, Serialize};
use tokio::io::{AsyncReadExt, AsyncWriteExt};

use crate::{
    check,
    engine::{self, Ctx, ExploreOpts, Outcome},
    support::{
        dns_script::ScriptedResolver,
        gens::pick,
        http1::{Conn, HttpError, trim_ows},
        relay_srv::RelayUnderTest,
        wsutil,
    },
};

/// Supported versions, oldest first (index = rank).
const SUPPORTED: [&str; 2] = ["iroh-relay-v1", "iroh-relay-v2"];

fn rank(token: &[u8]) -> Option<usize> {
    SUPPORTED.iter().position(|s| s.as_bytes() == token)
}

/// Elements of a comma-separated header value, each without surrounding SP/HTAB.
fn elements(value: &[u8]) -> Vec<&[u8]> {
    value.split(|b| *b == b',').map(trim_ows).collect()
}

/// Newest supported version among the elements of one header value.
fn best(value: &[u8]) -> Option<usize> {
    elements(value).into_iter().filter_map(rank).max()
}

// ---------------------------------------------------------------------------------------
// server side
// ---------------------------------------------------------------------------------------

/// The 8-token alphabet of the exhaustive part.
const ALPHABET: [&str; 8] = [
    "iroh-relay-v1",
    "iroh-relay-v2",
    "iroh-relay-v3",
    "iroh-relay-v",
    "IROH-RELAY-V2",
    "v2",
    "",
    "chat",
];

/// Further near misses used by the sampled part.
const NEAR: [&str; 14] = [
    "iroh-relay-v22",
    "iroh-relay-v02",
    "iroh-relay-v10",
    "iroh-relay-v0",
    "xiroh-relay-v2",
    "iroh-relay-v2;q=1",
    "iroh-relay-v1iroh-relay-v2",
    "iroh-relay-v1 iroh-relay-v2",
    "iroh_relay_v2",
    "Iroh-Relay-V1",
    "iroh-relay-V2",
    "\"iroh-relay-v2\"",
    "iroh-relay-v2\u{e9}",
    "\u{ff}",
];

const PADS: [&str; 6] = ["", "", " ", "\t", "  ", " \t "];

#[derive(Debug, Clone, Serialize, Deserialize)]
struct Elem {
    lpad: String,
    text: String,
    rpad: String,
}

#[derive(Debug, Clone, Serialize, Deserialize)]
struct Offer {
    /// One entry per `Sec-WebSocket-Protocol` header line (0 = header missing).
    lines: Vec<Vec<Elem>>,
    /// Spelling of the header name.
    name_style: u8,
}

const NAME_STYLES: [&str; 3] = ["Sec-WebSocket-Protocol", "sec-websocket-protocol", "SEC-WEBSOCKET-PROTOCOL"];

fn line_value(line: &[Elem]) -> Vec<u8> {
    let mut v = Vec::new();
    for (i, e) in line.iter().enumerate() {
        if i > 0 {
            v.push(b',');
        }
        v.extend_from_slice(e.lpad.as_bytes());
        v.extend_from_slice(e.text.as_bytes());
        v.extend_from_slice(e.rpad.as_bytes());
    }
    v
}

fn elem() -> impl Strategy<Value = Elem> {
    let text = prop_oneof![
        10 => any::<u16>().prop_map(|i| ALPHABET[pick(i, ALPHABET.len())].to_string()),
        3 => any::<u16>().prop_map(|i| NEAR[pick(i, NEAR.len())].to_string()),
        1 => "[a-z0-9.-]{1,12}",
    ];
    (any::<u16>(), text, any::<u16>()).prop_map(|(l, text, r)| Elem {
        lpad: PADS[pick(l, PADS.len())].to_string(),
        text,
        rpad: PADS[pick(r, PADS.len())].to_string(),
    })
}

fn offer() -> impl Strategy<Value = Offer> {
    let line = || proptest::collection::vec(elem(), 1..=6);
    let lines = prop_oneof![
        1 => Just(vec![]),
        14 => line().prop_map(|l| vec![l]),
        2 => (line(), line()).prop_map(|(a, b)| vec![a, b]),
    ];
    (lines, 0u8..3).prop_map(|(lines, name_style)| Offer { lines, name_style })
}

fn exhaustive_offers() -> Vec<Offer> {
    let mut out = vec![];
    let plain = |idx: &[usize]| Offer {
        lines: vec![idx.iter().map(|i| Elem { lpad: String::new(), text: ALPHABET[*i].to_string(), rpad: String::new() }).collect()],
        name_style: 0,
    };
    for a in 0..8 {
        out.push(plain(&[a]));
        for b in 0..8 {
            out.push(plain(&[a, b]));
            for c in 0..8 {
                out.push(plain(&[a, b, c]));
            }
        }
    }
    // header missing
    out.push(Offer { lines: vec![], name_style: 0 });
    out
}

fn show(v: &[u8]) -> String {
    v.iter().flat_map(|b| std::ascii::escape_default(*b)).map(|b| b as char).collect()
}

const WS_KEY: &str = "dGhlIHNhbXBsZSBub25jZQ==";
const WS_ACCEPT: &str = "s3pPLMBiTxaQ9kYGzzhZRbK+xOo=";

fn upgrade_request(o: &Offer) -> Vec<u8> {
    let mut req = format!(
        "GET /relay HTTP/1.1\r\nHost: relay.test\r\nConnection: Upgrade\r\nUpgrade: websocket\r\nSec-WebSocket-Version: 13\r\nSec-WebSocket-Key: {WS_KEY}\r\n"
    )
    .into_bytes();
    let name = NAME_STYLES[o.name_style as usize % NAME_STYLES.len()];
    for l in &o.lines {
        req.extend_from_slice(name.as_bytes());
        req.extend_from_slice(b": ");
        req.extend_from_slice(&line_value(l));
        req.extend_from_slice(b"\r\n");
    }
    req.extend_from_slice(b"\r\n");
    req
}

fn run_offer(o: &Offer, addr: SocketAddr) -> Outcome {
    let values: Vec<Vec<u8>> = o.lines.iter().map(|l| line_value(l)).collect();
    let mut conn = Conn::connect(addr);
    let req = upgrade_request(o);
    if let Err(e) = conn.send(&req) {
        return Outcome::violation("C11:no-answer", format!("cannot send: {e:?}"));
    }
    let resp = match conn.read_response() {
        Ok(r) => r,
        Err(HttpError::Closed { got }) => return Outcome::violation("C11:no-answer", format!("offer {:?}: connection closed, got {:?}", values.iter().map(|v| show(v)).collect::<Vec<_>>(), show(&got))),
        Err(e) => return Outcome::violation("C11:no-answer", format!("{e:?}")),
    };
    let upgraded = resp.status == 101;
    let answered = resp.all("sec-websocket-protocol");
    let shown: Vec<String> = values.iter().map(|v| show(v)).collect();
    let mut classes: Vec<&'static str> = vec![];

    // What the reference says.
    let ascii = values.iter().all(|v| v.is_ascii());
    let first_best = values.first().and_then(|v| best(v));
    let any_best = values.iter().filter_map(|v| best(v)).max();

    if upgraded {
        check!(answered.len() == 1, "C11:answer-header-count", "offer {shown:?}: 101 with {} Sec-WebSocket-Protocol headers", answered.len());
        let chosen = rank(answered[0]);
        check!(chosen.is_some(), "C11:answer-not-a-version", "offer {shown:?}: 101 answers {:?}", show(answered[0]));
        let chosen = chosen.unwrap();
        // sanity of the upgrade itself (also validates the harness's SHA-1)
        let accept = resp.all("sec-websocket-accept");
        check!(accept.len() == 1 && accept[0] == WS_ACCEPT.as_bytes(), "C11:bad-accept-key", "offer {shown:?}: Sec-WebSocket-Accept {:?}", accept.iter().map(|a| show(a)).collect::<Vec<_>>());
        match values.len() {
            0 => return Outcome::violation("C11:upgrade-without-offer", "101 although no Sec-WebSocket-Protocol header was sent".to_string()),
            1 => {
                check!(first_best.is_some(), "C11:upgrade-without-supported-version", "offer {shown:?} has no supported version but got 101 with {}", SUPPORTED[chosen]);
                check!(Some(chosen) == first_best, "C11:not-newest", "offer {shown:?}: relay chose {} but the newest offered is {}", SUPPORTED[chosen], SUPPORTED[first_best.unwrap()]);
            }
            _ => {
                // Repeated header lines: "the header" is either the first line or the
                // RFC 6455 combination of all lines; both readings are accepted.
                check!(any_best.is_some(), "C11:upgrade-without-supported-version", "offer {shown:?} has no supported version but got 101 with {}", SUPPORTED[chosen]);
                check!(Some(chosen) == first_best || Some(chosen) == any_best, "C11:not-newest", "offer {shown:?}: relay chose {}, newest in first line {:?}, newest overall {:?}", SUPPORTED[chosen], first_best, any_best);
            }
        }
        classes.push(if chosen == 1 { "101:v2" } else { "101:v1" });
    } else {
        check!((400..500).contains(&resp.status), "C11:refusal-status", "offer {shown:?}: status {} (neither 101 nor a 4xx refusal)", resp.status);
        // A refusal is required when nothing supported is offered; it is a violation when a
        // syntactically clean (ASCII) single header offers a supported version.
        if values.len() == 1 && ascii {
            check!(first_best.is_none(), "C11:supported-offer-refused", "offer {shown:?} contains {} but the relay answered {}", SUPPORTED[first_best.unwrap_or(0)], resp.status);
        } else if values.len() > 1 && ascii {
            check!(first_best.is_none(), "C11:supported-offer-refused", "offer {shown:?}: first line contains {} but the relay answered {}", SUPPORTED[first_best.unwrap_or(0)], resp.status);
        }
        classes.push("refused");
    }
    if values.is_empty() {
        classes.push("header-missing");
    }
    if values.len() > 1 {
        classes.push("header-repeated");
    }
    if !ascii {
        classes.push("non-ascii");
    }
    let all_elems: Vec<&[u8]> = values.iter().flat_map(|v| elements(v)).collect();
    let n_sup = all_elems.iter().filter(|e| rank(e).is_some()).count();
    let mixed = n_sup > 0 && n_sup < all_elems.len();
    if mixed {
        classes.push("mixed-supported-unsupported");
    }
    if all_elems.iter().any(|e| rank(e) == Some(0)) && all_elems.iter().any(|e| rank(e) == Some(1)) {
        classes.push("both-versions-offered");
    }
    if o.lines.iter().flatten().any(|e| rank(e.text.as_bytes()).is_some() && (!e.lpad.is_empty() || !e.rpad.is_empty())) {
        classes.push("padded-supported-token");
    }
    Outcome::pass_with(mixed, classes)
}

// ---------------------------------------------------------------------------------------
// server side, part 2: the relay *speaks* the version it announced
// ---------------------------------------------------------------------------------------

#[derive(Debug, Clone, Serialize, Deserialize)]
struct SpeakCase {
    /// Offer of the observed connection (single header line).
    offer: Vec<Elem>,
    /// Seed for the client key (each case uses its own key so cases are independent).
    key: [u8; 32],
}

fn speak_case() -> impl Strategy<Value = SpeakCase> {
    // three quarters of the offers get a supported version inserted somewhere, so that most
    // cases reach the upgraded state
    let offer = (proptest::collection::vec(elem(), 0..=4), proptest::option::weighted(0.75, (any::<u16>(), any::<bool>(), any::<u16>(), any::<u16>()))).prop_map(|(mut l, ins)| {
        if let Some((pos, v2, lp, rp)) = ins {
            let e = Elem { lpad: PADS[pick(lp, PADS.len())].to_string(), text: SUPPORTED[v2 as usize].to_string(), rpad: PADS[pick(rp, PADS.len())].to_string() };
            let p = pick(pos, l.len() + 1);
            l.insert(p, e);
        }
        if l.is_empty() {
            l.push(Elem { lpad: String::new(), text: String::new(), rpad: String::new() });
        }
        l
    });
    (offer, any::<[u8; 32]>()).prop_map(|(offer, key)| SpeakCase { offer, key })
}

enum Hs {
    Refused(u16),
    /// Upgraded; announced version rank and the websocket stream after authentication.
    Up(usize, tokio_websockets::WebSocketStream<tokio::net::TcpStream>),
}

fn inconclusive(what: &str) -> ! {
    eprintln!("INCONCLUSIVE: {what}");
    std::process::exit(2)
}

async fn bounded<F: Future>(what: &str, f: F) -> F::Output {
    match tokio::time::timeout(Duration::from_secs(30), f).await {
        Ok(v) => v,
        Err(_) => inconclusive(&format!("{what} exceeded the 30 s detector bound on loopback")),
    }
}

/// Upgrade by hand, then authenticate over websocket frames written by hand
/// (ServerChallenge -> ClientAuth -> ServerConfirmsAuth).
async fn raw_relay_client(addr: SocketAddr, value: &[u8], key: &SecretKey) -> Result<Hs, String> {
    let mut stream = bounded("tcp connect", tokio::net::TcpStream::connect(addr)).await.map_err(|e| e.to_string())?;
    let mut req = format!(
        "GET /relay HTTP/1.1\r\nHost: relay.test\r\nConnection: Upgrade\r\nUpgrade: websocket\r\nSec-WebSocket-Version: 13\r\nSec-WebSocket-Key: {WS_KEY}\r\nSec-WebSocket-Protocol: "
    )
    .into_bytes();
    req.extend_from_slice(value);
    req.extend_from_slice(b"\r\n\r\n");
    stream.write_all(&req).await.map_err(|e| e.to_string())?;
    // read the head byte by byte so nothing of the websocket stream is consumed
    let mut head = Vec::new();
    while !head.ends_with(b"\r\n\r\n") {
        let mut b = [0u8; 1];
        let n = bounded("upgrade response", stream.read(&mut b)).await.map_err(|e| e.to_string())?;
        if n == 0 {
            return Err(format!("closed during upgrade response: {:?}", show(&head)));
        }
        head.push(b[0]);
        if head.len() > 16384 {
            return Err("oversized response head".into());
        }
    }
    let text = String::from_utf8_lossy(&head).to_string();
    let mut lines = text.split("\r\n");
    let status: u16 = lines.next().and_then(|l| l.split(' ').nth(1)).and_then(|c| c.parse().ok()).ok_or("bad status line")?;
    if status != 101 {
        return Ok(Hs::Refused(status));
    }
    let mut announced = None;
    for l in lines {
        if let Some((n, v)) = l.split_once(':') {
            if n.eq_ignore_ascii_case("sec-websocket-protocol") {
                announced = rank(v.trim_matches([' ', '\t']).as_bytes());
            }
        }
    }
    let announced = announced.ok_or("101 without a supported Sec-WebSocket-Protocol")?;
    let mut ws = tokio_websockets::ClientBuilder::new().take_over(stream);
    // ServerChallenge: frame type 0, then 16 challenge bytes
    let msg = bounded("server challenge", ws.next()).await.ok_or("closed before challenge")?.map_err(|e| e.to_string())?;
    let payload: Vec<u8> = msg.into_payload().to_vec();
    if payload.len() != 17 || payload[0] != 0 {
        return Err(format!("expected a ServerChallenge frame, got {:?}", show(&payload)));
    }
    let to_sign = blake3::derive_key("iroh-relay handshake v1 challenge signature", &payload[1..]);
    let sig = key.sign(&to_sign).to_bytes();
    // ClientAuth: frame type 1, postcard { public_key: [u8; 32], signature: bytes(64) }
    let mut auth = vec![1u8];
    auth.extend_from_slice(key.public().as_bytes());
    auth.push(64);
    auth.extend_from_slice(&sig);
    ws.send(tokio_websockets::Message::binary(auth)).await.map_err(|e| e.to_string())?;
    let msg = bounded("auth confirmation", ws.next()).await.ok_or("closed before confirmation")?.map_err(|e| e.to_string())?;
    let payload: Vec<u8> = msg.into_payload().to_vec();
    if payload != [2u8] {
        return Err(format!("expected ServerConfirmsAuth, got {:?}", show(&payload)));
    }
    Ok(Hs::Up(announced, ws))
}

fn run_speak(c: &SpeakCase, addr: SocketAddr) -> Outcome {
    let value = line_value(&c.offer);
    if !value.is_ascii() {
        return Outcome::Excluded("non-ASCII offer (refusal allowed; covered by the negotiation part)");
    }
    let expected = best(&value);
    let key = SecretKey::from_bytes(&c.key);
    engine::real_rt(async move {
        let first = match raw_relay_client(addr, &value, &key).await {
            Ok(h) => h,
            Err(e) => return Outcome::violation("C11:handshake-after-upgrade", format!("offer {:?}: {e}", show(&value))),
        };
        let (announced, mut ws) = match first {
            Hs::Refused(status) => {
                check!(expected.is_none(), "C11:supported-offer-refused", "offer {:?} refused with {status}", show(&value));
                return Outcome::pass_with(false, vec!["speak:refused"]);
            }
            Hs::Up(a, ws) => (a, ws),
        };
        check!(Some(announced) == expected, "C11:not-newest", "offer {:?}: announced {} expected {:?}", show(&value), SUPPORTED[announced], expected.map(|e| SUPPORTED[e]));
        // A second connection with the same endpoint id (same offer, hence the same version)
        // makes the relay tell one of the two that it was displaced: normally the first, but
        // the relay confirms authentication *before* it registers a connection, so the second
        // may get registered first and then be the displaced one.  The notice is a `Health`
        // frame (type 11, UTF-8 text) in protocol v1 and a `Status` frame (type 13, one byte)
        // in protocol v2.
        let mut second = match raw_relay_client(addr, &value, &key).await {
            Ok(Hs::Up(a2, ws2)) => {
                check!(a2 == announced, "C11:not-newest", "offer {:?}: first connection announced {}, second {}", show(&value), SUPPORTED[announced], SUPPORTED[a2]);
                ws2
            }
            Ok(Hs::Refused(s)) => return Outcome::violation("C11:supported-offer-refused", format!("offer {:?} upgraded once and then refused with {s}", show(&value))),
            Err(e) => return Outcome::violation("C11:handshake-after-upgrade", format!("second connection: {e}")),
        };
        let mut notice = None;
        let mut open = [true, true];
        while notice.is_none() && (open[0] || open[1]) {
            let (which, item) = bounded("displacement notice", async {
                tokio::select! {
                    m = ws.next(), if open[0] => (0usize, m),
                    m = second.next(), if open[1] => (1usize, m),
                }
            })
            .await;
            match item {
                Some(Ok(msg)) if msg.is_binary() => {
                    let p: Vec<u8> = msg.into_payload().to_vec();
                    if matches!(p.first(), Some(11) | Some(13)) {
                        notice = Some(p);
                    }
                }
                Some(Ok(_)) => {}
                Some(Err(_)) | None => open[which] = false,
            }
        }
        drop(second);
        let Some(p) = notice else {
            return Outcome::violation("C11:no-version-specific-frame", format!("offer {:?}: both connections ended without a Health/Status notice", show(&value)));
        };
        let spoken = if p[0] == 11 { 0 } else { 1 };
        check!(spoken == announced, "C11:speaks-other-version", "offer {:?}: relay announced {} but sent frame type {} ({})", show(&value), SUPPORTED[announced], p[0], if spoken == 0 { "v1 Health" } else { "v2 Status" });
        let mixed = elements(&value).iter().any(|e| rank(e).is_none());
        Outcome::pass_with(mixed, vec![if announced == 1 { "speak:v2" } else { "speak:v1" }])
    })
}

// ---------------------------------------------------------------------------------------
// client side
// ---------------------------------------------------------------------------------------

#[derive(Debug, Clone, Serialize, Deserialize)]
struct Answer {
    /// Raw values of the `Sec-WebSocket-Protocol` lines of the fake relay's 101 answer.
    lines: Vec<String>,
    /// Order in which the fake relay sends the v2-only and the v1-only frame.
    status_first: bool,
}

const ANSWERS: [&str; 16] = [
    "iroh-relay-v1",
    "iroh-relay-v2",
    "iroh-relay-v3",
    "iroh-relay-v0",
    "iroh-relay-v",
    "iroh-relay-v22",
    "IROH-RELAY-V2",
    "Iroh-Relay-V1",
    "v2",
    "",
    "chat",
    "iroh-relay-v2, iroh-relay-v1",
    "iroh-relay-v1,iroh-relay-v2",
    "iroh-relay-v3, iroh-relay-v2",
    "iroh-relay-v2;q=1",
    "iroh-relay-v2\u{e9}",
];

fn enumerated_answers() -> Vec<Answer> {
    let mut out = vec![];
    for sf in [true, false] {
        out.push(Answer { lines: vec![], status_first: sf });
        for a in ANSWERS {
            out.push(Answer { lines: vec![a.to_string()], status_first: sf });
        }
    }
    out
}

fn answer() -> impl Strategy<Value = Answer> {
    let value = || {
        prop_oneof![
            5 => (any::<u16>(), any::<bool>(), any::<u16>()).prop_map(|(l, v2, r)| format!("{}{}{}", PADS[pick(l, PADS.len())], SUPPORTED[v2 as usize], PADS[pick(r, PADS.len())])),
            6 => (any::<u16>(), any::<u16>(), any::<u16>()).prop_map(|(l, i, r)| format!("{}{}{}", PADS[pick(l, PADS.len())], ANSWERS[pick(i, ANSWERS.len())], PADS[pick(r, PADS.len())])),
            2 => proptest::collection::vec(elem(), 1..=3).prop_map(|l| String::from_utf8_lossy(&line_value(&l)).to_string()),
        ]
    };
    let lines = prop_oneof![
        1 => Just(vec![]),
        10 => value().prop_map(|v| vec![v]),
        2 => (value(), value()).prop_map(|(a, b)| vec![a, b]),
    ];
    (lines, any::<bool>()).prop_map(|(lines, status_first)| Answer { lines, status_first })
}

/// What the fake relay saw.
struct FakeReport {
    offered: Option<Vec<u8>>,
}

async fn fake_relay(listener: tokio::net::TcpListener, a: Answer, done: tokio::sync::oneshot::Receiver<()>) -> Result<FakeReport, String> {
    let (mut stream, _) = bounded("accept", listener.accept()).await.map_err(|e| e.to_string())?;
    let mut head = Vec::new();
    while !head.ends_with(b"\r\n\r\n") {
        let mut b = [0u8; 1];
        let n = bounded("client request", stream.read(&mut b)).await.map_err(|e| e.to_string())?;
        if n == 0 {
            return Err("client closed before sending a request".into());
        }
        head.push(b[0]);
    }
    let mut key = None;
    let mut offered = None;
    for l in head.split(|b| *b == b'\n').skip(1) {
        let l = l.strip_suffix(b"\r").unwrap_or(l);
        if let Some(c) = l.iter().position(|b| *b == b':') {
            let name = String::from_utf8_lossy(&l[..c]).to_ascii_lowercase();
            let v = trim_ows(&l[c + 1..]).to_vec();
            match name.as_str() {
                "sec-websocket-key" => key = Some(v),
                "sec-websocket-protocol" => offered = Some(v),
                _ => {}
            }
        }
    }
    let key = key.ok_or("request without Sec-WebSocket-Key")?;
    let mut resp = format!(
        "HTTP/1.1 101 Switching Protocols\r\nUpgrade: websocket\r\nConnection: Upgrade\r\nSec-WebSocket-Accept: {}\r\n",
        wsutil::accept_key(&key)
    )
    .into_bytes();
    for l in &a.lines {
        resp.extend_from_slice(b"Sec-WebSocket-Protocol: ");
        resp.extend_from_slice(l.as_bytes());
        resp.extend_from_slice(b"\r\n");
    }
    resp.extend_from_slice(b"\r\n");
    stream.write_all(&resp).await.map_err(|e| e.to_string())?;
    let mut ws = tokio_websockets::ServerBuilder::new().serve(stream);
    // ServerConfirmsAuth (frame type 2, empty body): the client is admitted without challenge.
    // Then one frame that only exists in v2 (Status = type 13, Healthy = 0) and one that only
    // exists in v1 (Health = type 11, UTF-8 text).  Errors are ignored: a client that rejected
    // the answer has already closed.
    let status = vec![13u8, 0];
    let health = vec![11u8, b'o', b'k'];
    let (f1, f2) = if a.status_first { (status, health) } else { (health, status) };
    let _ = ws.send(tokio_websockets::Message::binary(vec![2u8])).await;
    let _ = ws.send(tokio_websockets::Message::binary(f1)).await;
    let _ = ws.send(tokio_websockets::Message::binary(f2)).await;
    let _ = bounded("client to finish", done).await;
    Ok(FakeReport { offered })
}

fn run_answer(a: &Answer) -> Outcome {
    let a = a.clone();
    engine::real_rt(async move {
        let listener = match tokio::net::TcpListener::bind(("127.0.0.1", 0)).await {
            Ok(l) => l,
            Err(e) => inconclusive(&format!("cannot bind a loopback listener: {e}")),
        };
        let addr = listener.local_addr().expect("local addr");
        let (done_tx, done_rx) = tokio::sync::oneshot::channel();
        let relay = tokio::spawn(fake_relay(listener, a.clone(), done_rx));

        let url: url::Url = format!("http://{addr}").parse().expect("url");
        let secret = SecretKey::from_bytes(&[7u8; 32]);
        let builder = iroh_relay::client::ClientBuilder::new(RelayUrl::from(url), secret, ScriptedResolver::empty().into_dns_resolver())
            .tls_client_config(iroh_relay::tls::make_dangerous_client_config());
        let res = bounded("ClientBuilder::connect", builder.connect()).await;

        // reference
        let all: Vec<&[u8]> = a.lines.iter().flat_map(|l| elements(l.as_bytes())).collect();
        let named: Vec<usize> = all.iter().filter_map(|e| rank(e)).collect();
        let exact = if a.lines.len() == 1 && all.len() == 1 { named.first().copied() } else { None };
        let shown = format!("{:?}", a.lines);

        let mut classes: Vec<&'static str> = vec![];
        let out = match res {
            Err(err) => {
                let bad_version = matches!(err, iroh_relay::client::ConnectError::BadVersionHeader { .. });
                if let Some(v) = exact {
                    Outcome::violation("C11:client-rejects-supported-answer", format!("answer {shown} names {} but connect failed: {err:#}", SUPPORTED[v]))
                } else {
                    classes.push(if bad_version { "client:rejected-bad-version" } else { "client:rejected-other" });
                    if named.is_empty() { classes.push("client:no-supported-name"); } else { classes.push("client:ambiguous-answer"); }
                    Outcome::pass_with(named.is_empty() && !a.lines.is_empty() && !a.lines.iter().all(|l| l.is_empty()), classes)
                }
            }
            Ok(mut client) => {
                if named.is_empty() {
                    Outcome::violation("C11:client-accepts-unsupported-answer", format!("answer {shown} names no supported version but connect succeeded"))
                } else if a.lines.len() == 1 && all.len() > 1 {
                    // one header line listing several elements is not "a version": there is no
                    // single version both ends could be said to speak
                    Outcome::violation("C11:client-accepts-answer-list", format!("answer {shown} is a list of several sub-protocols, not the name of one version, but connect succeeded"))
                } else {
                    // which version does the client speak?
                    let mut ok_status = false;
                    let mut ok_health = false;
                    let mut trouble = None;
                    for _ in 0..2 {
                        match bounded("relay frame", client.next()).await {
                            Some(Ok(RelayToClientMsg::Status(Status::Healthy))) => ok_status = true,
                            Some(Ok(RelayToClientMsg::Health { problem })) if problem == "ok" => ok_health = true,
                            Some(Ok(other)) => trouble = Some(format!("unexpected message {other:?}")),
                            Some(Err(_)) => {}
                            None => trouble = Some("stream ended early".to_string()),
                        }
                    }
                    if let Some(t) = trouble {
                        Outcome::violation("C11:client-frames", format!("answer {shown}: {t}"))
                    } else if ok_status == ok_health {
                        Outcome::violation("C11:client-speaks-no-single-version", format!("answer {shown}: v2-only frame accepted={ok_status}, v1-only frame accepted={ok_health}"))
                    } else {
                        let spoken = if ok_status { 1 } else { 0 };
                        if !named.contains(&spoken) {
                            Outcome::violation("C11:client-speaks-other-version", format!("answer {shown}: client speaks {}", SUPPORTED[spoken]))
                        } else {
                            classes.push(if spoken == 1 { "client:speaks-v2" } else { "client:speaks-v1" });
                            if exact.is_none() { classes.push("client:ambiguous-answer"); }
                            Outcome::pass_with(true, classes)
                        }
                    }
                }
            }
        };
        let _ = done_tx.send(());
        match bounded("fake relay task", relay).await {
            Ok(Ok(rep)) => {
                // the client must offer only versions from the supported set, else the
                // scenario (and the fake relay's answers) would be meaningless
                if let Some(off) = rep.offered {
                    if !elements(&off).iter().all(|e| rank(e).is_some()) {
                        return Outcome::violation("C11:client-offers-unknown-version", format!("client offered {:?}", show(&off)));
                    }
                } else {
                    return Outcome::violation("C11:client-offers-unknown-version", "client sent no Sec-WebSocket-Protocol header".to_string());
                }
            }
            Ok(Err(e)) => inconclusive(&format!("fake relay failed: {e}")),
            Err(e) => inconclusive(&format!("fake relay task: {e}")),
        }
        out
    })
}

pub fn run(ctx: &Ctx) {
    ctx.rule("server: upgrade requests to /relay of a real relay over loopback with 0/1/2 Sec-WebSocket-Protocol lines of 1..6 elements from {iroh-relay-v1, -v2, -v3, 'iroh-relay-v', upper-case, 'v2', empty, other token, 14 near misses incl. non-ASCII}, each padded with SP/HTAB; all 585 unpadded lists of length <=3 over the 8-token alphabet plus the missing header are enumerated; a second server part completes the relay handshake by hand and provokes a version-specific frame (Health=v1 / Status=v2) to see which version the relay speaks; client: the real ClientBuilder::connect against a fake relay answering 101 with 0/1/2 generated protocol lines, then one v2-only and one v1-only frame; non-trivial = offer mixing supported and unsupported elements / answer that names no supported version (rejected) or an accepted answer whose spoken version was observed");
    ctx.assume("offer elements are separated by ',' and trimmed of SP/HTAB (RFC 9110 lists); a refusal of a non-ASCII header value is tolerated (the statement only says 'upgrades only if'); for repeated header lines both 'first line' and 'all lines combined' (RFC 6455) are accepted readings; a server answer that comes in several header lines is ambiguous (the client may reject it, but if it accepts it must speak one of the named versions); a single header line listing several elements does not name a version and must be rejected");
    if wsutil::accept_key(WS_KEY.as_bytes()) != WS_ACCEPT {
        eprintln!("INCONCLUSIVE: harness SHA-1 self-test failed");
        std::process::exit(2);
    }
    let k = ctx.tier.pick(1, 10);
    let relay = RelayUnderTest::spawn(false);
    let addr = relay.http_addr;
    ctx.enumerate_par("server_exhaustive", exhaustive_offers(), 8, |o: &Offer| run_offer(o, addr));
    ctx.explore("server_sampled", ExploreOpts::new(40_000 * k).shrink(2000), offer, |o: &Offer| run_offer(o, addr));
    ctx.explore("server_speaks", ExploreOpts::new(4_000 * k).shrink(300), speak_case, |c: &SpeakCase| run_speak(c, addr));
    relay.shutdown();
    ctx.enumerate_par("client_enumerated", enumerated_answers(), 8, run_answer);
    ctx.explore("client_sampled", ExploreOpts::new(8_000 * k).shrink(300), answer, run_answer);
}
