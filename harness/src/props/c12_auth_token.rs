//! C12 — relay auth token extraction follows its documented rules.
//!
//! `ClientRequest::auth_token()` is compared with a reference written from the statement and
//! the method's documentation, over generated lists of `Authorization` header values combined
//! with generated request URIs.  A second part checks the two ways the relay *client* transmits
//! a token (header `Bearer <token>`, or `?token=` appended with the url crate) against the
//! server-side extraction.

use std::str::FromStr;

use http::{HeaderName, HeaderValue, Uri, header::AUTHORIZATION};
use iroh_base::SecretKey;
use iroh_relay::{http::ProtocolVersion, server::ClientRequest};
use proptest::prelude::*;
use serde::{Deserialize, Serialize};

use crate::{
    check,
    engine::{Ctx, ExploreOpts, Outcome},
};

#[derive(Debug, Clone, Serialize, Deserialize)]
enum Hdr {
    /// an `Authorization` header with these value bytes
    Auth(Vec<u8>),
    /// some other header (index into OTHER_NAMES) with these value bytes
    Other(u8, Vec<u8>),
}

const OTHER_NAMES: [&str; 4] = ["proxy-authorization", "x-authorization", "token", "cookie"];
const AUTH_NAME_SPELLINGS: [&str; 3] = ["authorization", "Authorization", "AUTHORIZATION"];

#[derive(Debug, Clone, Serialize, Deserialize)]
struct Case {
    headers: Vec<Hdr>,
    /// spelling of the header name used when building the request (names are case-insensitive)
    name_spelling: u8,
    /// 0 = origin form (`/relay?..`), 1 = absolute form (`https://host/relay?..`)
    absolute: bool,
    path: u8,
    query: Option<Vec<u8>>,
    version: u8,
}

fn token_bytes() -> impl Strategy<Value = Vec<u8>> + Clone {
    prop_oneof![
        6 => "[A-Za-z0-9._~+/=-]{0,12}".prop_map(|s| s.into_bytes()),
        2 => "[ A-Za-z0-9=,\"]{0,12}".prop_map(|s| s.into_bytes()),
        1 => "[ -~\t]{0,10}".prop_map(|s| s.into_bytes()),
        // opaque bytes (obs-text), which are legal in a header value but not text
        1 => ("[a-z]{0,4}", proptest::collection::vec(0x80u8..=0xFF, 1..4), "[a-z]{0,3}").prop_map(|(a, b, c)| {
            let mut v = a.into_bytes();
            v.extend(b);
            v.extend(c.into_bytes());
            v
        }),
    ]
}

fn auth_value() -> impl Strategy<Value = Vec<u8>> + Clone {
    let scheme = prop_oneof![
        6 => prop_oneof![Just("Bearer"), Just("bearer"), Just("BEARER"), Just("bEaReR")],
        3 => prop_oneof![Just("Basic"), Just("Digest"), Just("Token")],
        2 => prop_oneof![Just(""), Just("Bearer2"), Just("Bear"), Just("xBearer"), Just("Bearer:"), Just("Be arer")],
    ];
    let sep = prop_oneof![8 => Just(" "), 2 => Just("  "), 1 => Just("\t"), 2 => Just(""), 1 => Just(" \t"), 1 => Just("\t ")];
    prop_oneof![
        12 => (scheme, sep, token_bytes()).prop_map(|(s, sep, t)| {
            let mut v = s.as_bytes().to_vec();
            v.extend_from_slice(sep.as_bytes());
            v.extend(t);
            v
        }),
        1 => proptest::collection::vec(prop_oneof![Just(0x09u8), 0x20u8..=0x7E, 0x80u8..=0xFF], 0..12),
    ]
}

fn query_bytes() -> impl Strategy<Value = Vec<u8>> + Clone {
    let name = prop_oneof![
        8 => Just("token"),
        2 => prop_oneof![Just("%74oken"), Just("to%6ben"), Just("to%6Ben"), Just("toke%6e")],
        4 => prop_oneof![Just("Token"), Just("tok"), Just("token2"), Just("xtoken"), Just(""), Just("t+oken"), Just("token+"), Just("token%20"), Just("%zztoken"), Just("auth")],
    ];
    let piece = prop_oneof![
        6 => "[A-Za-z0-9._~-]{1,6}",
        1 => Just("+".to_string()),
        1 => Just("%20".to_string()),
        1 => Just("%zz".to_string()),
        1 => Just("%".to_string()),
        1 => Just("%4".to_string()),
        1 => Just("%e4".to_string()),
        1 => Just("%C3%A4".to_string()),
        1 => Just("%c3%a4".to_string()),
        1 => Just("%F0%9F".to_string()),
        1 => Just("=".to_string()),
        1 => Just("%26".to_string()),
        1 => Just("%3D".to_string()),
        1 => Just("%2B".to_string()),
        1 => Just("%00".to_string()),
        1 => Just("ä".to_string()),
        1 => Just(";".to_string()),
        1 => Just("?".to_string()),
        1 => Just("/".to_string()),
    ];
    let value = proptest::collection::vec(piece, 0..4).prop_map(|p| p.concat());
    let pair = (name, prop_oneof![6 => Just(true), 1 => Just(false)], value).prop_map(|(n, eq, v)| if eq { format!("{n}={v}") } else { format!("{n}{v}") });
    let sep = prop_oneof![9 => Just("&"), 1 => Just("&&"), 1 => Just(";")];
    prop_oneof![
        12 => (proptest::collection::vec((pair, sep), 0..4), any::<bool>()).prop_map(|(ps, trailing)| {
            let mut s = String::new();
            let n = ps.len();
            for (i, (p, sep)) in ps.into_iter().enumerate() {
                s.push_str(&p);
                if i + 1 < n || trailing {
                    s.push_str(sep);
                }
            }
            s.into_bytes()
        }),
        1 => proptest::collection::vec(prop_oneof![0x21u8..=0x7E, 0x80u8..=0xFF], 0..16),
    ]
}

fn strategy() -> impl Strategy<Value = Case> + Clone {
    let hdr = prop_oneof![
        8 => auth_value().prop_map(Hdr::Auth),
        1 => (0u8..4, auth_value()).prop_map(|(n, v)| Hdr::Other(n, v)),
    ];
    (proptest::collection::vec(hdr, 0..5), 0u8..3, any::<bool>(), 0u8..3, proptest::option::weighted(0.8, query_bytes()), 0u8..2)
        .prop_map(|(headers, name_spelling, absolute, path, query, version)| Case { headers, name_spelling, absolute, path, query, version })
}

// ---------- reference, written from the statement and the documentation ----------

fn hex(b: u8) -> Option<u8> {
    match b {
        b'0'..=b'9' => Some(b - b'0'),
        b'a'..=b'f' => Some(b - b'a' + 10),
        b'A'..=b'F' => Some(b - b'A' + 10),
        _ => None,
    }
}

/// application/x-www-form-urlencoded decoding of one name or value: `+` is a space, `%XX`
/// is a byte, a `%` not followed by two hex digits stands for itself; the bytes are read as
/// UTF-8 with replacement characters for ill-formed sequences.
fn form_decode(s: &[u8]) -> String {
    let mut out = Vec::with_capacity(s.len());
    let mut i = 0;
    while i < s.len() {
        match s[i] {
            b'+' => out.push(b' '),
            b'%' if i + 2 < s.len() && hex(s[i + 1]).is_some() && hex(s[i + 2]).is_some() => {
                out.push(hex(s[i + 1]).unwrap() << 4 | hex(s[i + 2]).unwrap());
                i += 2;
            }
            b => out.push(b),
        }
        i += 1;
    }
    String::from_utf8_lossy(&out).into_owned()
}

/// Form parsing: sequences separated by `&`, empty ones skipped, split at the first `=`.
fn form_parse(q: &[u8]) -> Vec<(String, String)> {
    q.split(|b| *b == b'&')
        .filter(|s| !s.is_empty())
        .map(|s| match s.iter().position(|b| *b == b'=') {
            Some(p) => (form_decode(&s[..p]), form_decode(&s[p + 1..])),
            None => (form_decode(s), String::new()),
        })
        .collect()
}

fn is_text(v: &[u8]) -> bool {
    v.iter().all(|b| *b == b'\t' || (0x20..0x7F).contains(b))
}

#[derive(Debug, PartialEq, Eq, Clone, Copy)]
enum Found {
    Header,
    Query,
    Nothing,
    MalformedHeader,
}

/// `bare_bearer_counts`: whether a header that is just `Bearer` (no space, no credentials)
/// counts as a Bearer header with an empty token.  The statement does not say; both readings
/// are accepted.
fn reference(auth_values: &[Vec<u8>], query: Option<&[u8]>, bare_bearer_counts: bool) -> (Option<String>, Found) {
    for v in auth_values {
        if !is_text(v) {
            return (None, Found::MalformedHeader);
        }
        let (scheme, rest) = match v.iter().position(|b| *b == b' ') {
            Some(p) => (&v[..p], Some(&v[p + 1..])),
            None => (&v[..], None),
        };
        if scheme.eq_ignore_ascii_case(b"bearer") {
            match rest {
                Some(r) => return (Some(String::from_utf8(r.to_vec()).expect("ascii")), Found::Header),
                None if bare_bearer_counts => return (Some(String::new()), Found::Header),
                None => {}
            }
        }
    }
    match form_parse(query.unwrap_or(b"")).into_iter().find(|(n, _)| n == "token") {
        Some((_, v)) => (Some(v), Found::Query),
        None => (None, Found::Nothing),
    }
}

fn endpoint_id() -> iroh_base::EndpointId {
    SecretKey::from_bytes(&[7u8; 32]).public()
}

fn build(headers: &[(HeaderName, HeaderValue)], uri: Uri, version: u8) -> ClientRequest {
    let mut b = http::Request::builder().method("GET").uri(uri);
    for (n, v) in headers {
        b = b.header(n.clone(), v.clone());
    }
    let (parts, ()) = b.body(()).expect("request").into_parts();
    ClientRequest::new(endpoint_id(), if version == 0 { ProtocolVersion::V1 } else { ProtocolVersion::V2 }, parts)
}

fn run_case(c: &Case) -> Outcome {
    // request line
    let path = ["/relay", "/", "/relay/sub"][c.path as usize % 3];
    let mut target = if c.absolute { format!("https://relay.example.org{path}").into_bytes() } else { path.as_bytes().to_vec() };
    if let Some(q) = &c.query {
        target.push(b'?');
        target.extend_from_slice(q);
    }
    let Ok(uri) = Uri::try_from(&target[..]) else {
        return Outcome::Excluded("request target rejected by the HTTP layer");
    };
    // What the HTTP layer hands over as the query: everything after the first '?'.
    let query: Option<Vec<u8>> = c.query.as_ref().map(|q| match q.iter().position(|b| *b == b'#') {
        Some(p) => q[..p].to_vec(),
        None => q.clone(),
    });
    if uri.query().map(|q| q.as_bytes().to_vec()) != query {
        return Outcome::Excluded("HTTP layer normalised the query");
    }
    // headers
    let mut headers = vec![];
    let mut auth_values: Vec<Vec<u8>> = vec![];
    for h in &c.headers {
        let (name, value) = match h {
            Hdr::Auth(v) => (AUTH_NAME_SPELLINGS[c.name_spelling as usize % 3], v),
            Hdr::Other(n, v) => (OTHER_NAMES[*n as usize % 4], v),
        };
        let Ok(hv) = HeaderValue::from_bytes(value) else {
            return Outcome::Excluded("header value rejected by the HTTP layer");
        };
        let hn = HeaderName::from_bytes(name.as_bytes()).expect("header name");
        if matches!(h, Hdr::Auth(_)) {
            check!(hn == AUTHORIZATION, "C12:harness", "header name {name} is not Authorization");
            // the HTTP layer trims nothing inside from_bytes; the value is what was given
            auth_values.push(hv.as_bytes().to_vec());
        }
        headers.push((hn, hv));
    }
    let req = build(&headers, uri, c.version);
    let got = req.auth_token();
    let (want_a, found_a) = reference(&auth_values, query.as_deref(), false);
    let (want_b, found_b) = reference(&auth_values, query.as_deref(), true);
    if got != want_a && got != want_b {
        let sig = match found_a {
            Found::MalformedHeader => "C12:malformed-header-not-final",
            Found::Header => "C12:header-token",
            Found::Query => "C12:query-token",
            Found::Nothing => "C12:token-invented",
        };
        return Outcome::violation(
            sig,
            format!("auth_token() = {got:?}, reference {want_a:?}{}; Authorization values {:?}, query {:?}",
                if want_b != want_a { format!(" (or {want_b:?} if a bare `Bearer` counts)") } else { String::new() },
                auth_values.iter().map(|v| String::from_utf8_lossy(v).into_owned()).collect::<Vec<_>>(),
                query.as_ref().map(|q| String::from_utf8_lossy(q).into_owned())),
        );
    }
    // query_pairs(): documented as ordered, percent-decoded pairs
    let pairs: Vec<(String, String)> = req.query_pairs().map(|(a, b)| (a.into_owned(), b.into_owned())).collect();
    let want_pairs = form_parse(query.as_deref().unwrap_or(b""));
    check!(pairs == want_pairs, "C12:query-pairs", "query_pairs() = {pairs:?}, reference {want_pairs:?} for query {:?}", query.as_ref().map(|q| String::from_utf8_lossy(q).into_owned()));
    // repeatable, and independent of the protocol version
    check!(req.auth_token() == got, "C12:not-repeatable", "second call differs");

    let n_auth = auth_values.len();
    let bearer_headers = auth_values.iter().filter(|v| is_text(v) && v.len() >= 6 && v[..6].eq_ignore_ascii_case(b"bearer")).count();
    let query_has_token = want_pairs.iter().any(|(n, _)| n == "token");
    let conflict = bearer_headers >= 1 && query_has_token;
    let mut classes = vec![match found_a {
        Found::Header => "token-from-header",
        Found::Query => "token-from-query",
        Found::Nothing => "no-token",
        Found::MalformedHeader => "malformed-header-ends-search",
    }];
    if found_a == Found::MalformedHeader && (query_has_token || bearer_headers > 0) {
        classes.push("malformed-header-before-usable-token");
    }
    if found_a != found_b {
        classes.push("bare-bearer(ambiguous)");
    }
    if conflict {
        classes.push("header-query-conflict");
    }
    if n_auth >= 2 {
        classes.push("multiple-authorization-headers");
    }
    if found_a == Found::Header && auth_values.iter().position(|v| is_text(v) && v.len() > 6 && v[..7].eq_ignore_ascii_case(b"bearer ")).is_some_and(|p| p > 0) {
        classes.push("bearer-not-first-header");
    }
    if want_pairs.iter().filter(|(n, _)| n == "token").count() >= 2 {
        classes.push("token-param-repeated");
    }
    if c.query.as_ref().is_some_and(|q| q.windows(2).any(|w| w == b"%7" || w == b"%6")) && found_a == Found::Query {
        classes.push("token-name-percent-encoded");
    }
    Outcome::pass_with(n_auth >= 2 || conflict, classes)
}

// ---------- client -> server agreement ----------

#[derive(Debug, Clone, Serialize, Deserialize)]
struct TokenCase {
    token: String,
}

fn token_strategy() -> impl Strategy<Value = TokenCase> + Clone {
    prop_oneof![
        4 => "[A-Za-z0-9._~+/=-]{0,24}",
        3 => "[ -~]{0,16}",
        2 => "\\PC{0,12}",
        1 => "[ &=%+#?;äß€𝄞\t]{0,8}",
    ]
    .prop_map(|token| TokenCase { token })
}

fn token_roundtrip(c: &TokenCase) -> Outcome {
    let mut classes = vec![];
    // native clients: `Authorization: Bearer {token}` if that is a legal header value
    if let Ok(hv) = HeaderValue::from_str(&format!("Bearer {}", c.token)) {
        let req = build(&[(AUTHORIZATION, hv)], Uri::from_static("/relay"), 1);
        let got = req.auth_token();
        if c.token.is_ascii() {
            check!(got.as_deref() == Some(c.token.as_str()), "C12:client-header-roundtrip", "token {:?} sent as Bearer header is extracted as {got:?}", c.token);
            classes.push("header-route");
        } else {
            // non-ASCII text in a header value is opaque to the server: no token, by the rule
            check!(got.is_none(), "C12:malformed-header-not-final", "non-text header yields {got:?}");
            classes.push("header-route-non-ascii");
        }
    }
    // browser clients: `?token=` appended with the url crate
    let mut u = url::Url::parse("wss://relay.example.org./relay").expect("url");
    u.query_pairs_mut().append_pair("token", &c.token);
    let target = format!("{}?{}", u.path(), u.query().unwrap_or(""));
    let Ok(uri) = Uri::from_str(&target) else {
        return Outcome::violation("C12:client-query-rejected", format!("request target {target:?} built by the client is rejected by the HTTP layer"));
    };
    let req = build(&[], uri, 1);
    let got = req.auth_token();
    check!(got.as_deref() == Some(c.token.as_str()), "C12:client-query-roundtrip", "token {:?} sent as {target:?} is extracted as {got:?}", c.token);
    classes.push("query-route");
    // the header wins over the query when both are present
    let special = c.token.chars().any(|ch| " &=%+#?;".contains(ch) || !ch.is_ascii());
    Outcome::pass_with(special, classes)
}

/// Fuzz entry: the bytes are split into header values and a query string at 0xff / 0xfe
/// separators: `<auth value> 0xff <auth value> .. 0xfe <query>`.
pub fn fuzz_request(data: &[u8]) -> Outcome {
    let (hdrs, query) = match data.iter().position(|b| *b == 0xfe) {
        Some(p) => (&data[..p], Some(data[p + 1..].to_vec())),
        None => (data, None),
    };
    let headers: Vec<Hdr> = if hdrs.is_empty() { vec![] } else { hdrs.split(|b| *b == 0xff).take(4).map(|v| Hdr::Auth(v.to_vec())).collect() };
    let c = Case { headers, name_spelling: 0, absolute: false, path: 0, query, version: 0 };
    match run_case(&c) {
        Outcome::Excluded(_) => Outcome::pass(false),
        o => o,
    }
}

pub fn fuzz_request_seeds() -> Vec<Vec<u8>> {
    vec![
        b"Bearer abc".to_vec(),
        b"Basic x\xffbearer tok en".to_vec(),
        b"\xfetoken=a%20b+c&x=1".to_vec(),
        b"Digest q\xfe%74oken=zz&token=%zz".to_vec(),
    ]
}

pub fn run(ctx: &Ctx) {
    ctx.rule("0..4 Authorization header values from a grammar (Bearer in several case mixes, other schemes, near misses; separators one/two spaces, tab, none; tokens incl. spaces, '=', opaque bytes >= 0x80), interleaved with other headers, combined with request targets in origin or absolute form with 0..3 query pairs (names token / percent-encoded spellings of token / near misses; values with '+', valid, truncated and invalid percent escapes, ill-formed UTF-8, '='; empty pairs) or raw query bytes; non-trivial = at least two Authorization headers, or both a Bearer header and a token parameter");
    ctx.rule("client_roundtrip: arbitrary Unicode tokens sent the two ways the relay client sends them; non-trivial = token with characters special to either encoding");
    ctx.assume("the reference form decoder follows the WHATWG application/x-www-form-urlencoded parser ('&' separates, '+' is a space, invalid escapes stand for themselves, lossy UTF-8)");
    ctx.assume("a header consisting of the bare word `Bearer` (no space) is ambiguous in the statement: both 'skipped' and 'empty token' are accepted");
    ctx.assume("header values and request targets rejected by the http crate never reach the relay and are excluded");
    let k = ctx.tier.pick(1, 10);
    ctx.explore("extraction", ExploreOpts::new(120_000 * k), strategy, run_case);
    ctx.explore("client_roundtrip", ExploreOpts::new(20_000 * k), token_strategy, token_roundtrip);
    ctx.fuzz_campaign("c12_request", ctx.tier.pick(0, 1_500_000), 256, fuzz_request_seeds(), &fuzz_request);
}
