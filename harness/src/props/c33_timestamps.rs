//! C33 — pkarr timestamps strictly increase across threads.
//!
//! Hooks: `iroh_dns::verif::set_thread_clock` (scripted wall-clock readings per thread) and the
//! pause point `pkarr.timestamp.before_cas` inside `Timestamp::now`.
//! (a) controlled schedules: every call is a sequence of atomic steps separated by the pause
//! point; small configurations have *all* interleavings enumerated, larger ones are sampled.
//! (b) free-running stress with the real and with backwards-stepping clocks.
//! The oracle is schedule independent: values pairwise distinct, and whenever call A returned
//! before call B started (global sequence counter taken outside the function), B > A.

use std::{
    cell::Cell,
    sync::{
        Arc, Condvar, Mutex,
        atomic::{AtomicU64, Ordering},
    },
};

use iroh_dns::pkarr::Timestamp;
use proptest::prelude::*;
use serde::{Deserialize, Serialize};

use crate::{
    check,
    engine::{Ctx, ExploreOpts, Outcome},
    support::gens,
};

const POINT: &str = "pkarr.timestamp.before_cas";

static SCHEDULES_RUN: AtomicU64 = AtomicU64::new(0);

thread_local! {
    static WORKER: Cell<Option<usize>> = const { Cell::new(None) };
}

#[derive(Debug, Clone, Copy, PartialEq, Eq)]
enum Status {
    Running,
    Paused,
    Done,
}

struct SchedState {
    status: Vec<Status>,
    granted: Option<usize>,
    /// pause points passed per worker
    steps: Vec<u32>,
}

/// Lets exactly one worker run between two pause points at a time.
struct Sched {
    state: Mutex<SchedState>,
    cv: Condvar,
}

impl Sched {
    fn new(n: usize) -> Arc<Self> {
        Arc::new(Self { state: Mutex::new(SchedState { status: vec![Status::Running; n], granted: None, steps: vec![0; n] }), cv: Condvar::new() })
    }

    /// Called by a worker at the pause point: park until the controller grants a step.
    fn pause(&self, me: usize) {
        let mut st = self.state.lock().unwrap();
        st.status[me] = Status::Paused;
        st.steps[me] += 1;
        self.cv.notify_all();
        while st.granted != Some(me) {
            st = self.cv.wait(st).unwrap();
        }
        st.granted = None;
        st.status[me] = Status::Running;
    }

    fn done(&self, me: usize) {
        let mut st = self.state.lock().unwrap();
        st.status[me] = Status::Done;
        self.cv.notify_all();
    }

    /// Controller: waits until no worker is running; returns the paused workers.
    fn quiescent(&self) -> Vec<usize> {
        let mut st = self.state.lock().unwrap();
        while st.granted.is_some() || st.status.iter().any(|s| *s == Status::Running) {
            st = self.cv.wait(st).unwrap();
        }
        st.status.iter().enumerate().filter(|(_, s)| **s == Status::Paused).map(|(i, _)| i).collect()
    }

    fn grant(&self, who: usize) {
        let mut st = self.state.lock().unwrap();
        st.granted = Some(who);
        self.cv.notify_all();
    }
}

/// One recorded call: sequence numbers taken before and after, the clock reading used, the value.
#[derive(Debug, Clone, Copy)]
struct Rec {
    thread: usize,
    start: u64,
    end: u64,
    clock: u64,
    value: u64,
}

/// Checks the statement on a set of recorded calls.  `Err((signature, detail))`.
fn check_records(recs: &mut [Rec]) -> Result<(), (&'static str, String)> {
    // pairwise distinct
    let mut by_value: Vec<&Rec> = recs.iter().collect();
    by_value.sort_by_key(|r| r.value);
    for w in by_value.windows(2) {
        if w[0].value == w[1].value {
            return Err(("C33:duplicate-timestamp", format!("timestamp {} returned twice: {:?} and {:?}", w[0].value, w[0], w[1])));
        }
    }
    // real-time order: sweep by start; every call that ended before this start must be smaller
    recs.sort_by_key(|r| r.start);
    let mut by_end: Vec<Rec> = recs.to_vec();
    by_end.sort_by_key(|r| r.end);
    let mut j = 0;
    let mut max_before: Option<Rec> = None;
    for r in recs.iter() {
        while j < by_end.len() && by_end[j].end < r.start {
            if max_before.map(|m| by_end[j].value > m.value).unwrap_or(true) {
                max_before = Some(by_end[j]);
            }
            j += 1;
        }
        if let Some(m) = max_before {
            if r.value <= m.value {
                return Err(("C33:not-increasing", format!("call {r:?} started after call {m:?} had returned but its timestamp is not greater")));
            }
        }
    }
    Ok(())
}

// ---------------- (a) controlled schedules ----------------

/// Per thread, per call: the scripted clock reading as an offset from the value the process
/// had last issued when the case started.
#[derive(Debug, Clone, Serialize, Deserialize)]
struct Config {
    threads: Vec<Vec<i64>>,
}

struct RunResult {
    recs: Vec<Rec>,
    /// number of paused workers to choose from at every decision
    options: Vec<usize>,
    overlapped: bool,
}

/// Runs `cfg`; at the k-th decision `choose(k, n)` picks one of the `n` paused workers.
fn run_controlled(cfg: &Config, choose: &dyn Fn(usize, usize) -> usize) -> RunResult {
    let n = cfg.threads.len();
    SCHEDULES_RUN.fetch_add(1, Ordering::Relaxed);
    let base = Timestamp::now().as_micros();
    let sched = Sched::new(n);
    let seq = Arc::new(AtomicU64::new(0));
    let handler_sched = sched.clone();
    iroh_base::verif_hooks::set_sync_handler(Some(Arc::new(move |name: &str, _detail: &str| {
        if name == POINT {
            if let Some(me) = WORKER.with(|w| w.get()) {
                handler_sched.pause(me);
            }
        }
    })));
    let mut handles = vec![];
    for (i, offsets) in cfg.threads.iter().cloned().enumerate() {
        let sched = sched.clone();
        let seq = seq.clone();
        handles.push(std::thread::spawn(move || {
            WORKER.with(|w| w.set(Some(i)));
            let mut out = vec![];
            for off in offsets {
                let clock = base.saturating_add_signed(off);
                iroh_dns::verif::set_thread_clock(Some(Box::new(move |_real| clock)));
                let start = seq.fetch_add(1, Ordering::SeqCst);
                let value = Timestamp::now().as_micros();
                let end = seq.fetch_add(1, Ordering::SeqCst);
                out.push(Rec { thread: i, start, end, clock, value });
            }
            iroh_dns::verif::set_thread_clock(None);
            WORKER.with(|w| w.set(None));
            sched.done(i);
            out
        }));
    }
    let mut options = vec![];
    let mut overlapped = false;
    loop {
        let paused = sched.quiescent();
        if paused.is_empty() {
            break;
        }
        if paused.len() > 1 {
            overlapped = true;
        }
        let choice = choose(options.len(), paused.len()).min(paused.len() - 1);
        options.push(paused.len());
        sched.grant(paused[choice]);
    }
    let mut recs = vec![];
    for h in handles {
        recs.extend(h.join().expect("worker thread"));
    }
    iroh_base::verif_hooks::set_sync_handler(None);
    RunResult { recs, options, overlapped }
}

fn classes_of(cfg: &Config, r: &RunResult) -> (bool, Vec<&'static str>) {
    let mut classes = vec![];
    let back = cfg.threads.iter().flatten().any(|o| *o <= 0);
    let retried = r.options.len() > cfg.threads.iter().map(|t| t.len()).sum::<usize>();
    if back {
        classes.push("clock-at-or-below-last");
    }
    if r.overlapped {
        classes.push("cas-windows-overlap");
    }
    if retried {
        classes.push("cas-retried");
    }
    if cfg.threads.iter().flatten().any(|o| *o > 1_000_000) {
        classes.push("clock-jumps-ahead");
    }
    (back || r.overlapped, classes)
}

/// All interleavings of one configuration (stateless enumeration by re-execution).
fn enumerate_config(cfg: &Config) -> Outcome {
    let mut choices: Vec<usize> = vec![];
    let mut runs = 0u32;
    let mut any_overlap = false;
    let mut any_retry = false;
    loop {
        let mut r = run_controlled(cfg, &|k, _n| choices.get(k).copied().unwrap_or(0));
        runs += 1;
        any_overlap |= r.overlapped;
        any_retry |= r.options.len() > cfg.threads.iter().map(|t| t.len()).sum::<usize>();
        if let Err((sig, detail)) = check_records(&mut r.recs) {
            return Outcome::violation(sig, format!("schedule {choices:?} (choice among the paused threads at each step): {detail}"));
        }
        // next schedule in lexicographic order
        let mut next: Vec<usize> = (0..r.options.len()).map(|i| choices.get(i).copied().unwrap_or(0)).collect();
        loop {
            match next.pop() {
                None => {
                    let mut classes = vec!["all-interleavings"];
                    if any_overlap {
                        classes.push("cas-windows-overlap");
                    }
                    if any_retry {
                        classes.push("cas-retried");
                    }
                    return Outcome::pass_with(true, classes);
                }
                Some(c) => {
                    let opts = r.options[next.len()];
                    if c + 1 < opts {
                        next.push(c + 1);
                        break;
                    }
                }
            }
        }
        choices = next;
        if runs > 20_000 {
            return Outcome::violation("C33:harness-enumeration-too-large", format!("more than 20000 schedules for {cfg:?}"));
        }
    }
}

#[derive(Debug, Clone, Serialize, Deserialize)]
struct SampledCase {
    cfg: Config,
    schedule: Vec<u16>,
}

fn offset_strategy() -> impl Strategy<Value = i64> + Clone {
    prop_oneof![
        3 => Just(0i64),
        3 => -5i64..=5,
        2 => -1_000_000i64..0,
        1 => Just(-3_600_000_000i64), // the clock was set back by an hour
        2 => 1i64..2000,
        1 => 1_000_000i64..2_000_000_000,
    ]
}

fn sampled_strategy() -> impl Strategy<Value = SampledCase> + Clone {
    (proptest::collection::vec(proptest::collection::vec(offset_strategy(), 1..=3), 2..=4), proptest::collection::vec(any::<u16>(), 0..24))
        .prop_map(|(threads, schedule)| SampledCase { cfg: Config { threads }, schedule })
}

fn sampled_oracle(c: &SampledCase) -> Outcome {
    let mut r = run_controlled(&c.cfg, &|k, n| gens::pick(c.schedule.get(k).copied().unwrap_or(0), n));
    let choices: Vec<usize> = r.options.iter().enumerate().map(|(k, n)| gens::pick(c.schedule.get(k).copied().unwrap_or(0), *n)).collect();
    if let Err((sig, detail)) = check_records(&mut r.recs) {
        return Outcome::violation(sig, format!("schedule {choices:?}: {detail}"));
    }
    let (nontrivial, classes) = classes_of(&c.cfg, &r);
    Outcome::pass_with(nontrivial, classes)
}

// ---------------- (b) free-running stress ----------------

#[derive(Debug, Clone, Serialize, Deserialize)]
struct StressCase {
    threads: u8,
    calls: u32,
    /// 0: real clock; 1: every thread sees a clock that steps back by `step` per call;
    /// 2: a frozen clock; 3: threads alternate between far behind and slightly ahead
    clock_mode: u8,
    step: u32,
}

fn stress_oracle(c: &StressCase) -> Outcome {
    let base = Timestamp::now().as_micros();
    let seq = Arc::new(AtomicU64::new(0));
    let barrier = Arc::new(std::sync::Barrier::new(c.threads as usize));
    let mut handles = vec![];
    for i in 0..c.threads as usize {
        let seq = seq.clone();
        let barrier = barrier.clone();
        let (mode, step, calls) = (c.clock_mode, c.step as u64, c.calls);
        handles.push(std::thread::spawn(move || {
            let mut n = 0u64;
            match mode {
                0 => iroh_dns::verif::set_thread_clock(None),
                1 => iroh_dns::verif::set_thread_clock(Some(Box::new(move |_| {
                    n += 1;
                    base.saturating_sub(n * step)
                }))),
                2 => iroh_dns::verif::set_thread_clock(Some(Box::new(move |_| base))),
                _ => iroh_dns::verif::set_thread_clock(Some(Box::new(move |real| {
                    n += 1;
                    if (n + i as u64) % 2 == 0 { real.saturating_sub(step * 1000) } else { real + step }
                }))),
            }
            let mut out = Vec::with_capacity(calls as usize);
            barrier.wait();
            for _ in 0..calls {
                let start = seq.fetch_add(1, Ordering::SeqCst);
                let value = Timestamp::now().as_micros();
                let end = seq.fetch_add(1, Ordering::SeqCst);
                out.push(Rec { thread: i, start, end, clock: 0, value });
            }
            iroh_dns::verif::set_thread_clock(None);
            out
        }));
    }
    let mut recs: Vec<Rec> = vec![];
    let mut bumped = 0u64;
    for h in handles {
        let v = h.join().expect("stress thread");
        for w in v.windows(2) {
            check!(w[1].value > w[0].value, "C33:not-increasing", "thread {}: {} then {}", w[0].thread, w[0].value, w[1].value);
            if w[1].value == w[0].value + 1 {
                bumped += 1;
            }
        }
        recs.extend(v);
    }
    let total = recs.len() as u64;
    if let Err((sig, detail)) = check_records(&mut recs) {
        return Outcome::violation(sig, detail);
    }
    let mut classes = vec![match c.clock_mode {
        0 => "stress-real-clock",
        1 => "stress-clock-steps-back",
        2 => "stress-clock-frozen",
        _ => "stress-clock-jitters",
    }];
    // the `last + 1` branch dominated (consecutive values within a thread differ by exactly 1)
    if bumped * 4 > total {
        classes.push("increment-branch-dominates");
    }
    Outcome::pass_with(c.threads > 1, classes)
}

pub fn run(ctx: &Ctx) {
    ctx.rule("(a) controlled: 2-4 threads x 1-3 calls of Timestamp::now, each call = [clock read + load] then one step per compare-exchange attempt; scripted clock readings relative to the last issued value (equal, below, an hour back, slightly ahead, far ahead); all interleavings of the small configurations are enumerated, larger ones sampled; (b) stress: up to 16 free-running threads with the real clock, a clock stepping back, a frozen clock and a jittering clock; non-trivial = two calls whose compare-exchange windows overlap, or a clock reading at or below the last issued value");
    ctx.assume("the sequence counter taken before and after each call is SeqCst, so 'A returned before B started' is decided conservatively; the process-global last timestamp carries over between cases (harmless for a monotonicity oracle); stress runs are not bit-reproducible, their configuration is the replay unit");
    // (a) exhaustive interleavings of small configurations
    let offsets = [-1_000_000i64, -1, 0, 1, 50];
    let mut configs = vec![];
    for a in offsets {
        for b in offsets {
            configs.push(Config { threads: vec![vec![a], vec![b]] });
        }
    }
    for (a, b, c3) in [(0i64, 0i64, 0i64), (-1, 0, 1), (5, -5, 0), (-1_000_000, 2, 2), (1, 1, 1)] {
        configs.push(Config { threads: vec![vec![a], vec![b], vec![c3]] });
        configs.push(Config { threads: vec![vec![a, b], vec![c3]] });
        configs.push(Config { threads: vec![vec![a, b], vec![c3, a]] });
    }
    if ctx.tier == crate::engine::Tier::Thorough {
        for (a, b, c3) in [(0i64, -3, 7), (-2, -2, -2), (3, 0, -1_000_000)] {
            configs.push(Config { threads: vec![vec![a, b, c3], vec![c3, a]] });
            configs.push(Config { threads: vec![vec![a], vec![b], vec![c3], vec![0]] });
        }
    }
    ctx.enumerate("interleavings", configs, enumerate_config);
    ctx.extra("interleavings_enumerated", serde_json::json!(SCHEDULES_RUN.load(Ordering::Relaxed)));
    // sampled schedules of larger configurations
    let k = ctx.tier.pick(1, 10);
    ctx.explore("sampled", ExploreOpts::new(600 * k).serial().shrink(200), sampled_strategy, sampled_oracle);
    // (b) stress
    let calls = ctx.tier.pick(25_000u32, 200_000u32);
    let mut stress = vec![];
    for mode in 0..4u8 {
        for threads in [2u8, 8, 16] {
            stress.push(StressCase { threads, calls, clock_mode: mode, step: 3 });
        }
    }
    ctx.enumerate("stress", stress, stress_oracle);
}
