//! C04 — relay forwards datagrams only to the addressed endpoint, with the true sender.

use crate::engine::{Ctx, ExploreOpts};

use super::relay_history::{Focus, history, run_history};

pub fn run(ctx: &Ctx) {
    ctx.rule("histories of connect/close/send/burst/disconnect over 4 endpoint ids (several connections per id, V1 and V2) against the real Clients registry over in-memory streams, harness speaks the wire format with its own codec; oracle after every settled step: each delivered batch matches exactly one outstanding send addressed to that id, on the connection that was active when sent, with the sender's authenticated id and identical ecn/segment size/contents; per (sender, destination) delivery order is a subsequence of send order; non-trivial = a delivered send to an id that had >=2 connections");
    ctx.assume("payloads that cannot be forwarded (empty, > 65502 bytes) are generated only in the C05 check; drops are allowed by the statement, duplicates/misdelivery/alteration are not");
    let k = ctx.tier.pick(1, 10);
    ctx.explore("history", ExploreOpts::new(12_000 * k).shrink(400), || history(Focus::Forwarding, 30), |h| run_history(h, Focus::Forwarding, "C04"));
}
