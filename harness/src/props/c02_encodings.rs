//! C02 — key and address encodings round-trip and parse totally.

use std::{
    collections::{BTreeSet, hash_map::DefaultHasher},
    hash::{Hash, Hasher},
    net::{IpAddr, Ipv4Addr, Ipv6Addr, SocketAddr, SocketAddrV4, SocketAddrV6},
    str::FromStr,
};

use curve25519_dalek::edwards::CompressedEdwardsY;
use iroh_base::{CustomAddr, EndpointAddr, PublicKey, RelayUrl, SecretKey, Signature, TransportAddr};
use proptest::prelude::*;
use serde::{Deserialize, Serialize};

use crate::{
    check,
    engine::{Ctx, ExploreOpts, Outcome},
    support::gens::{self, Payload},
};

fn h<T: Hash>(t: &T) -> u64 {
    let mut s = DefaultHasher::new();
    t.hash(&mut s);
    s.finish()
}

fn is_point(b: &[u8; 32]) -> bool {
    CompressedEdwardsY(*b).decompress().is_some()
}

/// All routes a public key can take; every one must give back the same value.
fn pk_routes(k: &PublicKey) -> Outcome {
    let b = *k.as_bytes();
    check!(is_point(&b), "C02:accepted-non-point", "accepted key {} does not decompress", gens::hex_lower(&b));
    check!(gens::is_curve_point_bigint(&b), "C02:accepted-non-point", "accepted key {} is not a point by the big-integer check", gens::hex_lower(&b));
    // formatters and accessors
    let disp = k.to_string();
    let _ = format!("{k:?} {k:#?} {}", k.fmt_short());
    let _ = k.as_verifying_key();
    check!(disp == gens::hex_lower(&b), "C02:pk-display", "Display {disp} is not lowercase hex of the bytes");
    check!(k.fmt_short().to_string() == gens::hex_lower(&b[..5]), "C02:pk-display", "fmt_short mismatch");
    let same = |k2: &PublicKey, route: &str| -> Option<Outcome> {
        if k2 != k || k2.as_bytes() != &b || h(k2) != h(k) || k2.cmp(k) != std::cmp::Ordering::Equal {
            Some(Outcome::violation("C02:pk-roundtrip", format!("route {route}: {k2:?} != {k:?}")))
        } else {
            None
        }
    };
    macro_rules! route {
        ($name:expr, $e:expr) => {
            match $e {
                Ok(k2) => {
                    if let Some(v) = same(&k2, $name) {
                        return v;
                    }
                }
                Err(e) => return Outcome::violation("C02:pk-roundtrip", format!("route {}: own encoding rejected: {e:?}", $name)),
            }
        };
    }
    route!("hex", PublicKey::from_str(&disp));
    let b32u = gens::b32_encode(gens::RFC4648_UPPER, &b);
    route!("base32-upper", PublicKey::from_str(&b32u));
    route!("base32-lower", PublicKey::from_str(&b32u.to_ascii_lowercase()));
    let z = k.to_z32();
    check!(z == gens::b32_encode(gens::ZBASE32, &b), "C02:pk-z32", "to_z32 {z} differs from reference");
    route!("z32", PublicKey::from_z32(&z));
    route!("from_bytes", PublicKey::from_bytes(&b));
    route!("try_from_slice", PublicKey::try_from(&b[..]));
    route!("try_from_array", PublicKey::try_from(&b));
    let pc = postcard::to_stdvec(k).expect("postcard ser");
    check!(pc == b, "C02:pk-postcard", "postcard encoding is not the 32 raw bytes");
    route!("postcard", postcard::from_bytes::<PublicKey>(&pc));
    let js = serde_json::to_string(k).expect("json ser");
    check!(js == format!("\"{disp}\""), "C02:pk-json", "json {js}");
    route!("json", serde_json::from_str::<PublicKey>(&js));
    route!("verifying_key", Ok::<_, ()>(PublicKey::from_verifying_key(k.as_verifying_key())));
    Outcome::pass(true)
}

#[derive(Debug, Clone, Serialize, Deserialize)]
struct PkBytes(Vec<u8>);

fn pk_bytes_strategy() -> impl Strategy<Value = PkBytes> + Clone {
    prop_oneof![
        8 => gens::key_candidate().prop_map(|b| b.to_vec()),
        1 => (gens::key_candidate(), 0usize..40).prop_map(|(b, n)| { let mut v = b.to_vec(); v.resize(n, 7); v }),
        1 => proptest::collection::vec(any::<u8>(), 0..70),
    ]
    .prop_map(PkBytes)
}

fn pk_bytes(case: &PkBytes) -> Outcome {
    let bytes = &case.0;
    let expect = bytes.len() == 32 && is_point(bytes[..].try_into().unwrap());
    let got = PublicKey::try_from(&bytes[..]);
    check!(got.is_ok() == expect, "C02:pk-accept", "TryFrom<&[u8]> accepted={} expected={} for {}", got.is_ok(), expect, gens::hex_lower(bytes));
    if bytes.len() == 32 {
        let arr: [u8; 32] = bytes[..].try_into().unwrap();
        check!(gens::is_curve_point_bigint(&arr) == expect, "C02:oracle-disagree", "dalek and big-integer point check disagree on {}", gens::hex_lower(bytes));
        check!(PublicKey::from_bytes(&arr).is_ok() == expect, "C02:pk-accept", "from_bytes accept mismatch");
        let pc = postcard::from_bytes::<PublicKey>(bytes);
        check!(pc.is_ok() == expect, "C02:pk-accept", "postcard accept mismatch for {}", gens::hex_lower(bytes));
        let js = serde_json::from_str::<PublicKey>(&format!("\"{}\"", gens::hex_lower(bytes)));
        check!(js.is_ok() == expect, "C02:pk-accept", "json accept mismatch");
        check!(PublicKey::from_z32(&gens::b32_encode(gens::ZBASE32, bytes)).is_ok() == expect, "C02:pk-accept", "z32 accept mismatch");
    } else {
        let _ = postcard::from_bytes::<PublicKey>(bytes);
    }
    match got {
        Ok(k) => {
            check!(k.as_bytes()[..] == bytes[..], "C02:pk-roundtrip", "accepted key bytes differ from input");
            pk_routes(&k)
        }
        Err(e) => {
            let _ = format!("{e} {e:?}");
            Outcome::pass(bytes.len() == 32)
        }
    }
}

#[derive(Debug, Clone, Serialize, Deserialize)]
struct PkString(String);

fn pk_string_strategy() -> impl Strategy<Value = PkString> + Clone {
    let base = (gens::key_candidate(), 0u8..4).prop_map(|(b, enc)| match enc {
        0 => gens::hex_lower(&b),
        1 => gens::b32_encode(gens::RFC4648_UPPER, &b),
        2 => gens::b32_encode(gens::RFC4648_UPPER, &b).to_ascii_lowercase(),
        _ => gens::hex_lower(&b).to_ascii_uppercase(),
    });
    let edits = proptest::collection::vec((any::<u16>(), 0u8..6, any::<char>(), "[0-9a-zA-Z=_ -]"), 0..3);
    prop_oneof![
        6 => (base, edits).prop_map(|(s, edits)| {
            let mut c: Vec<char> = s.chars().collect();
            for (i, kind, ch, ascii) in edits {
                let idx = gens::pick(i, c.len().max(1)).min(c.len().saturating_sub(1));
                match kind {
                    0 if !c.is_empty() => { c.remove(idx); }
                    1 => c.insert(idx.min(c.len()), ascii.chars().next().unwrap()),
                    2 if !c.is_empty() => c[idx] = ascii.chars().next().unwrap(),
                    3 if !c.is_empty() => c[idx] = ch,
                    4 if !c.is_empty() => c[idx] = if c[idx].is_ascii_uppercase() { c[idx].to_ascii_lowercase() } else { c[idx].to_ascii_uppercase() },
                    _ => c.push(ascii.chars().next().unwrap()),
                }
            }
            c.into_iter().collect::<String>()
        }),
        // multibyte strings whose byte length is exactly 64 or 52 (regression shape)
        1 => (proptest::collection::vec(prop_oneof![Just('é'), Just('a'), Just('€'), Just('0'), Just('𝄞')], 10..64), prop_oneof![Just(64usize), Just(52)]).prop_map(|(cs, target)| {
            let mut s = String::new();
            for c in cs { if s.len() + c.len_utf8() <= target { s.push(c); } }
            while s.len() < target { s.push('a'); }
            s
        }),
        1 => "[ -~]{0,70}",
        1 => "[0-9a-f]{60,68}",
        1 => "[A-Za-z2-7]{50,54}",
    ]
    .prop_map(PkString)
}

/// Reference parser for `PublicKey::from_str`, written from the documentation: 64 bytes ⇒
/// lowercase hex; otherwise unpadded RFC4648 base32, case-insensitive, of exactly 32 bytes.
fn ref_parse_32(s: &str) -> Option<[u8; 32]> {
    let v = if s.len() == 64 {
        gens::hex_lower_decode(s)?
    } else {
        gens::b32_decode(gens::RFC4648_UPPER, s.to_ascii_uppercase().as_bytes())?
    };
    v.try_into().ok()
}

fn pk_string(case: &PkString) -> Outcome {
    let s = &case.0;
    let reference = ref_parse_32(s).filter(is_point);
    let got = PublicKey::from_str(s);
    match (&got, &reference) {
        (Ok(k), Some(r)) => {
            check!(k.as_bytes() == r, "C02:pk-parse-value", "from_str({s:?}) = {k:?}, reference {}", gens::hex_lower(r));
        }
        (Ok(k), None) => return Outcome::violation("C02:pk-parse-accept", format!("from_str accepted {s:?} as {k:?}; reference rejects")),
        (Err(e), Some(r)) => return Outcome::violation("C02:pk-parse-reject", format!("from_str rejected {s:?} ({e}); reference decodes to {}", gens::hex_lower(r))),
        (Err(e), None) => {
            let _ = format!("{e} {e:?}");
        }
    }
    // secret keys take the same decoder, without point validation
    let sk = SecretKey::from_str(s);
    let sref = ref_parse_32(s);
    check!(sk.is_ok() == sref.is_some(), "C02:sk-parse-accept", "SecretKey::from_str({s:?}) ok={} reference={}", sk.is_ok(), sref.is_some());
    if let (Ok(sk), Some(r)) = (&sk, &sref) {
        check!(&sk.to_bytes() == r, "C02:sk-parse-value", "secret key bytes differ");
    }
    // z32 and json routes are total
    if let Ok(k) = PublicKey::from_z32(s) {
        let r = gens::b32_decode(gens::ZBASE32, s.as_bytes());
        check!(r.as_deref() == Some(&k.as_bytes()[..]), "C02:pk-z32", "from_z32({s:?}) = {k:?} but reference {:?}", r.map(|r| gens::hex_lower(&r)));
        if let o @ Outcome::Violation { .. } = pk_routes(&k) { return o; }
    } else if let Some(r) = gens::b32_decode(gens::ZBASE32, s.as_bytes()) {
        if let Ok(arr) = <[u8; 32]>::try_from(&r[..]) {
            check!(!is_point(&arr), "C02:pk-z32", "from_z32 rejected valid {s:?}");
        }
    }
    let js = serde_json::from_str::<PublicKey>(&serde_json::to_string(s).unwrap());
    check!(js.is_ok() == got.is_ok(), "C02:pk-json", "json and from_str disagree on {s:?}");
    let _ = CustomAddr::from_str(s).map(|c| format!("{c} {c:?}"));
    let _ = RelayUrl::from_str(s).map(|c| format!("{c} {c:?}"));
    match got {
        Ok(k) => pk_routes(&k),
        Err(_) => Outcome::pass(matches!(s.len(), 50..=54 | 62..=66)),
    }
}

#[derive(Debug, Clone, Serialize, Deserialize)]
struct SignCase {
    sk: [u8; 32],
    other_sk: [u8; 32],
    msg: Vec<u8>,
    msg_edit: (u16, u8),
    sig_bit: u16,
}

fn sign_strategy() -> impl Strategy<Value = SignCase> + Clone {
    (gens::secret_bytes(), gens::secret_bytes(), proptest::collection::vec(any::<u8>(), 0..200), (any::<u16>(), 1u8..=255), 0u16..512)
        .prop_map(|(sk, other_sk, msg, msg_edit, sig_bit)| SignCase { sk, other_sk, msg, msg_edit, sig_bit })
}

fn sign_case(c: &SignCase) -> Outcome {
    let sk = SecretKey::from_bytes(&c.sk);
    let pk = sk.public();
    // secret key routes
    check!(sk.to_bytes() == c.sk, "C02:sk-roundtrip", "to_bytes");
    check!(SecretKey::from(c.sk).to_bytes() == c.sk && SecretKey::from(&c.sk).to_bytes() == c.sk, "C02:sk-roundtrip", "From");
    check!(SecretKey::try_from(&c.sk[..]).map(|s| s.to_bytes()).ok() == Some(c.sk), "C02:sk-roundtrip", "TryFrom");
    check!(SecretKey::from_str(&gens::hex_lower(&c.sk)).map(|s| s.to_bytes()).ok() == Some(c.sk), "C02:sk-roundtrip", "hex");
    check!(SecretKey::from_str(&gens::b32_encode(gens::RFC4648_UPPER, &c.sk).to_ascii_lowercase()).map(|s| s.to_bytes()).ok() == Some(c.sk), "C02:sk-roundtrip", "base32");
    let pc = postcard::to_stdvec(&sk).unwrap();
    check!(postcard::from_bytes::<SecretKey>(&pc).map(|s| s.to_bytes()).ok() == Some(c.sk), "C02:sk-roundtrip", "postcard");
    let js = serde_json::to_string(&sk).unwrap();
    check!(serde_json::from_str::<SecretKey>(&js).map(|s| s.to_bytes()).ok() == Some(c.sk), "C02:sk-roundtrip", "json");
    check!(format!("{sk:?}") == "SecretKey(..)", "C02:sk-debug-leak", "Debug of a secret key shows {:?}", format!("{sk:?}"));
    // the public key agrees with ed25519-dalek used directly
    let dalek = ed25519_dalek::SigningKey::from_bytes(&c.sk);
    check!(pk.as_bytes() == dalek.verifying_key().as_bytes(), "C02:pk-derive", "public() differs from ed25519-dalek");
    if let o @ Outcome::Violation { .. } = pk_routes(&pk) { return o; }

    let sig = sk.sign(&c.msg);
    check!(pk.verify(&c.msg, &sig).is_ok(), "C02:sig-verify", "own signature does not verify");
    // signature routes
    let sb = sig.to_bytes();
    check!(Signature::from_bytes(&sb) == sig, "C02:sig-roundtrip", "from_bytes");
    check!(Signature::try_from(&sb[..]).ok() == Some(sig), "C02:sig-roundtrip", "try_from");
    let pc = postcard::to_stdvec(&sig).unwrap();
    check!(pc == sb, "C02:sig-roundtrip", "postcard encoding is not the raw 64 bytes");
    check!(postcard::from_bytes::<Signature>(&pc).ok() == Some(sig), "C02:sig-roundtrip", "postcard");
    let js = serde_json::to_string(&sig).unwrap();
    check!(serde_json::from_str::<Signature>(&js).ok() == Some(sig), "C02:sig-roundtrip", "json");
    let _ = format!("{sig} {sig:?}");
    for n in [0usize, 1, 63, 65, 128] {
        let v = vec![1u8; n];
        check!(Signature::try_from(&v[..]).is_err(), "C02:sig-length", "Signature accepted {n} bytes");
    }
    // fails for another message
    let mut m2 = c.msg.clone();
    if m2.is_empty() { m2.push(c.msg_edit.1); } else { let i = gens::pick(c.msg_edit.0, m2.len()); m2[i] ^= c.msg_edit.1; }
    check!(pk.verify(&m2, &sig).is_err(), "C02:sig-forgery", "signature verifies for a different message");
    // fails for another key
    if c.other_sk != c.sk {
        let other = SecretKey::from_bytes(&c.other_sk).public();
        check!(other.verify(&c.msg, &sig).is_err(), "C02:sig-forgery", "signature verifies under another key");
    }
    // fails for any single-bit change of the signature
    let mut s2 = sb;
    s2[(c.sig_bit / 8) as usize] ^= 1 << (c.sig_bit % 8);
    check!(pk.verify(&c.msg, &Signature::from_bytes(&s2)).is_err(), "C02:sig-forgery", "bit {} flipped signature verifies", c.sig_bit);
    Outcome::pass(true)
}

#[derive(Debug, Clone, Serialize, Deserialize)]
struct CustomCase {
    id: u64,
    data: Payload,
}

fn custom_strategy() -> impl Strategy<Value = CustomCase> + Clone {
    let id = prop_oneof![any::<u64>(), 0u64..20, Just(u64::MAX), (0u32..64).prop_map(|s| 1u64 << s)];
    (id, gens::payload(&[30, 31, 255, 256], 4096)).prop_map(|(id, data)| CustomCase { id, data })
}


/// A minimal serde data format that hands `CustomAddr`'s byte field to the visitor in each of
/// the ways a serde format may: borrowed bytes, transient bytes, an owned buffer, a sequence.
mod anyformat {
    use serde::de::{self, DeserializeSeed, Deserializer, IntoDeserializer, SeqAccess, Visitor, value::Error};

    #[derive(Debug, Clone, Copy, PartialEq)]
    pub enum BytesAs { Borrowed, Transient, Owned, Seq }
    pub const ALL: [BytesAs; 4] = [BytesAs::Borrowed, BytesAs::Transient, BytesAs::Owned, BytesAs::Seq];

    pub struct CustomAddrDe<'a> { pub id: u64, pub data: &'a [u8], pub mode: BytesAs }
    struct BytesDe<'a> { data: &'a [u8], mode: BytesAs }

    impl<'de> Deserializer<'de> for BytesDe<'de> {
        type Error = Error;
        fn deserialize_any<V: Visitor<'de>>(self, v: V) -> Result<V::Value, Error> {
            match self.mode {
                BytesAs::Borrowed => v.visit_borrowed_bytes(self.data),
                BytesAs::Transient => { let copy = self.data.to_vec(); v.visit_bytes(&copy) }
                BytesAs::Owned => v.visit_byte_buf(self.data.to_vec()),
                BytesAs::Seq => v.visit_seq(de::value::SeqDeserializer::new(self.data.iter().copied())),
            }
        }
        serde::forward_to_deserialize_any! { bool i8 i16 i32 i64 i128 u8 u16 u32 u64 u128 f32 f64 char str string bytes byte_buf option unit unit_struct newtype_struct seq tuple tuple_struct map struct enum identifier ignored_any }
    }

    struct Fields<'a> { id: Option<u64>, data: Option<&'a [u8]>, mode: BytesAs }
    impl<'de> SeqAccess<'de> for Fields<'de> {
        type Error = Error;
        fn next_element_seed<T: DeserializeSeed<'de>>(&mut self, seed: T) -> Result<Option<T::Value>, Error> {
            if let Some(id) = self.id.take() {
                return seed.deserialize(id.into_deserializer()).map(Some);
            }
            if let Some(data) = self.data.take() {
                return seed.deserialize(BytesDe { data, mode: self.mode }).map(Some);
            }
            Ok(None)
        }
    }

    impl<'de> Deserializer<'de> for CustomAddrDe<'de> {
        type Error = Error;
        fn deserialize_any<V: Visitor<'de>>(self, v: V) -> Result<V::Value, Error> {
            v.visit_seq(Fields { id: Some(self.id), data: Some(self.data), mode: self.mode })
        }
        fn is_human_readable(&self) -> bool { false }
        serde::forward_to_deserialize_any! { bool i8 i16 i32 i64 i128 u8 u16 u32 u64 u128 f32 f64 char str string bytes byte_buf option unit unit_struct newtype_struct seq tuple tuple_struct map struct enum identifier ignored_any }
    }
}

fn custom_routes(a: &CustomAddr, id: u64, data: &[u8]) -> Outcome {
    check!(a.id() == id && a.data() == data, "C02:custom-accessors", "id/data accessors: {a:?}");
    let v = a.to_vec();
    let mut expect = id.to_le_bytes().to_vec();
    expect.extend_from_slice(data);
    check!(v == expect, "C02:custom-binary", "to_vec differs from documented layout");
    let disp = a.to_string();
    check!(disp == format!("{id:x}_{}", gens::hex_lower(data)), "C02:custom-display", "Display {disp}");
    let _ = format!("{a:?} {a:#?}");
    let routes: Vec<(&str, Option<CustomAddr>)> = vec![
        ("from_bytes", CustomAddr::from_bytes(&v).ok()),
        ("from_str", CustomAddr::from_str(&disp).ok()),
        ("from_tuple", Some(CustomAddr::from((id, data)))),
        ("postcard", postcard::from_bytes(&postcard::to_stdvec(a).unwrap()).ok()),
        ("json", serde_json::from_str(&serde_json::to_string(a).unwrap()).ok()),
    ];
    let mut routes = routes;
    for mode in anyformat::ALL {
        let name: &'static str = match mode { anyformat::BytesAs::Borrowed => "serde-borrowed-bytes", anyformat::BytesAs::Transient => "serde-bytes", anyformat::BytesAs::Owned => "serde-byte-buf", anyformat::BytesAs::Seq => "serde-seq" };
        routes.push((name, <CustomAddr as serde::Deserialize>::deserialize(anyformat::CustomAddrDe { id, data, mode }).ok()));
    }
    for (name, r) in routes {
        match r {
            None => return Outcome::violation("C02:custom-roundtrip", format!("route {name} rejected own encoding of {a:?}")),
            Some(b) => {
                check!(&b == a && h(&b) == h(a) && b.cmp(a).is_eq() && b.data() == data && b.id() == id,
                    "C02:custom-roundtrip", "route {name}: {b:#?} != {a:#?}");
                check!(format!("{b:#?}") == format!("{a:#?}"), "C02:custom-canonical", "route {name} yields a different storage form: {b:#?} vs {a:#?}");
            }
        }
    }
    Outcome::pass(matches!(data.len(), 26..=34))
}

fn custom_case(c: &CustomCase) -> Outcome {
    let data = c.data.bytes();
    let a = CustomAddr::from_parts(c.id, &data);
    let o = custom_routes(&a, c.id, &data);
    if let Outcome::Violation { .. } = o { return o; }
    // ordering/equality is that of (id, bytes) whatever the storage form
    let mut d2 = data.clone();
    d2.push(0);
    let b = CustomAddr::from_parts(c.id, &d2);
    check!(a < b && a != b, "C02:custom-order", "prefix ordering broken at len {}", data.len());
    // TransportAddr / EndpointAddr wrappers
    let t = TransportAddr::Custom(a.clone());
    let pc = postcard::to_stdvec(&t).unwrap();
    check!(postcard::from_bytes::<TransportAddr>(&pc).ok().as_ref() == Some(&t), "C02:transport-roundtrip", "postcard");
    let js = serde_json::to_string(&t).unwrap();
    check!(serde_json::from_str::<TransportAddr>(&js).ok().as_ref() == Some(&t), "C02:transport-roundtrip", "json {js}");
    let _ = format!("{t} {t:?}");
    o
}

#[derive(Debug, Clone, Serialize, Deserialize)]
enum AddrSpec {
    Relay(String),
    V4([u8; 4], u16),
    V6([u8; 16], u16, u32, u32),
    Custom(u64, Payload),
}

#[derive(Debug, Clone, Serialize, Deserialize)]
struct EaCase {
    sk: [u8; 32],
    addrs: Vec<AddrSpec>,
    /// edits applied to the postcard encoding: (position, kind, byte)
    edits: Vec<(u16, u8, u8)>,
}

pub fn relay_url_string() -> BoxedStrategy<String> {
    ("(http|https)", "[a-z][a-z0-9]{0,8}(\\.[a-z][a-z0-9]{0,5}){0,2}\\.?", proptest::option::of(1u16..), "(/[a-z0-9._~-]{0,6}){0,2}", proptest::option::of("[a-z]{1,3}=[a-z0-9=&]{0,6}"))
        .prop_map(|(scheme, host, port, path, query)| {
            let mut s = format!("{scheme}://{host}");
            if let Some(p) = port { s.push_str(&format!(":{p}")); }
            s.push_str(&path);
            if let Some(q) = query { s.push('?'); s.push_str(&q); }
            s
        })
        .boxed()
}

fn addr_spec() -> impl Strategy<Value = AddrSpec> + Clone {
    prop_oneof![
        2 => relay_url_string().prop_map(AddrSpec::Relay),
        2 => (any::<[u8; 4]>(), any::<u16>()).prop_map(|(a, p)| AddrSpec::V4(a, p)),
        2 => (any::<[u8; 16]>(), any::<u16>(), prop_oneof![Just(0u32), any::<u32>()], prop_oneof![Just(0u32), any::<u32>()]).prop_map(|(a, p, f, s)| AddrSpec::V6(a, p, f, s)),
        2 => (any::<u64>(), gens::payload(&[30, 31], 200)).prop_map(|(i, d)| AddrSpec::Custom(i, d)),
    ]
}

fn build_addr(s: &AddrSpec) -> Option<TransportAddr> {
    Some(match s {
        AddrSpec::Relay(u) => TransportAddr::Relay(RelayUrl::from_str(u).ok()?),
        AddrSpec::V4(a, p) => TransportAddr::Ip(SocketAddr::V4(SocketAddrV4::new(Ipv4Addr::from(*a), *p))),
        AddrSpec::V6(a, p, f, sc) => TransportAddr::Ip(SocketAddr::V6(SocketAddrV6::new(Ipv6Addr::from(*a), *p, *f, *sc))),
        AddrSpec::Custom(i, d) => TransportAddr::Custom(CustomAddr::from_parts(*i, &d.bytes())),
    })
}

fn ea_strategy() -> impl Strategy<Value = EaCase> + Clone {
    (gens::secret_bytes(), proptest::collection::vec(addr_spec(), 0..6), proptest::collection::vec((any::<u16>(), 0u8..4, any::<u8>()), 0..4))
        .prop_map(|(sk, addrs, edits)| EaCase { sk, addrs, edits })
}

fn inspect_endpoint_addr(e: &EndpointAddr) -> Outcome {
    let _ = format!("{e:?} {e:#?}");
    let _ = e.is_empty();
    let ips: Vec<_> = e.ip_addrs().collect();
    let relays: Vec<_> = e.relay_urls().collect();
    let mut n_custom = 0;
    for a in &e.addrs {
        let _ = format!("{a} {a:?}");
        if let TransportAddr::Custom(c) = a {
            n_custom += 1;
            let _ = (c.id(), c.data().len(), c.to_vec(), c.to_string());
            let o = custom_routes(c, c.id(), &c.data().to_vec());
            if let Outcome::Violation { .. } = o { return o; }
        }
        check!(a.is_relay() as u8 + a.is_ip() as u8 + a.is_custom() as u8 == 1, "C02:transport-kind", "kind predicates not exclusive for {a:?}");
    }
    check!(ips.len() + relays.len() + n_custom == e.addrs.len(), "C02:endpoint-accessors", "ip_addrs/relay_urls do not partition addrs");
    if let o @ Outcome::Violation { .. } = pk_routes(&e.id) { return o; }
    // accepted value re-encodes and decodes to itself
    // serde's encodings of std::net::SocketAddrV6 carry (ip, port) only (binary) or the Display
    // string (human readable): IPv6 flow info / scope id are outside what any serde format of
    // a socket address represents, so addresses carrying them are outside the round-trip domain
    // (they must still encode and decode without panicking).
    let lossy = e.addrs.iter().any(|a| matches!(a, TransportAddr::Ip(SocketAddr::V6(v)) if v.flowinfo() != 0 || v.scope_id() != 0));
    let pc = postcard::to_stdvec(e).unwrap();
    let back = postcard::from_bytes::<EndpointAddr>(&pc);
    check!(back.is_ok(), "C02:endpoint-roundtrip", "postcard rejected its own encoding of {e:?}");
    check!(lossy || back.ok().as_ref() == Some(e), "C02:endpoint-roundtrip", "postcard re-encoding of accepted value {e:?}");
    let js = serde_json::to_string(e).unwrap();
    match serde_json::from_str::<EndpointAddr>(&js) {
        Ok(e2) => check!(lossy || &e2 == e, "C02:endpoint-roundtrip", "json: {e2:?} != {e:?}"),
        Err(err) => check!(lossy, "C02:endpoint-roundtrip", "json rejected own encoding {js}: {err}"),
    }
    Outcome::pass(true)
}

fn ea_case(c: &EaCase) -> Outcome {
    let id = SecretKey::from_bytes(&c.sk).public();
    let addrs: Vec<TransportAddr> = c.addrs.iter().filter_map(build_addr).collect();
    let e = EndpointAddr::from_parts(id, addrs.clone());
    check!(e.addrs == addrs.iter().cloned().collect::<BTreeSet<_>>(), "C02:endpoint-build", "from_parts lost addresses");
    let e2 = EndpointAddr::new(id).with_addrs(addrs.clone());
    check!(e == e2 && h(&e) == h(&e2), "C02:endpoint-build", "with_addrs differs from from_parts");
    check!(EndpointAddr::from(id) == EndpointAddr::new(id) && EndpointAddr::new(id).is_empty(), "C02:endpoint-build", "From<EndpointId>");
    let o = inspect_endpoint_addr(&e);
    if let Outcome::Violation { .. } = o { return o; }
    // json for flow-free addresses must round trip exactly
    // edited encodings: parse totally; accepted values are inspected
    let mut pc = postcard::to_stdvec(&e).unwrap();
    for (pos, kind, byte) in &c.edits {
        if pc.is_empty() { break; }
        let i = gens::pick(*pos, pc.len());
        match kind {
            0 => pc[i] ^= byte | 1,
            1 => pc.truncate(i),
            2 => pc.insert(i, *byte),
            _ => pc.push(*byte),
        }
    }
    let edited = !c.edits.is_empty();
    if let Ok(e3) = postcard::from_bytes::<EndpointAddr>(&pc) {
        let o = inspect_endpoint_addr(&e3);
        if let Outcome::Violation { .. } = o { return o; }
    }
    let _ = postcard::from_bytes::<TransportAddr>(&pc).map(|t| format!("{t} {t:?}"));
    let _ = postcard::from_bytes::<CustomAddr>(&pc).map(|t| format!("{t} {t:?} {t:#?}"));
    let _ = postcard::from_bytes::<Signature>(&pc).map(|t| format!("{t} {t:?}"));
    let _ = postcard::from_bytes::<SecretKey>(&pc).map(|t| t.public());
    let _ = CustomAddr::from_bytes(&pc).map(|t| format!("{t} {t:?} {t:#?}"));
    let _ = serde_json::from_slice::<EndpointAddr>(&pc);
    Outcome::pass_with(edited || e.addrs.len() >= 2, vec![if edited { "edited" } else { "unedited" }])
}

#[derive(Debug, Clone, Serialize, Deserialize)]
struct RawBytes(Vec<u8>);

fn raw_case(c: &RawBytes) -> Outcome {
    let b = &c.0;
    if let Ok(e) = postcard::from_bytes::<EndpointAddr>(b) {
        let o = inspect_endpoint_addr(&e);
        if let Outcome::Violation { .. } = o { return o; }
        return Outcome::pass(true);
    }
    if let Ok(t) = postcard::from_bytes::<TransportAddr>(b) { let _ = format!("{t} {t:?}"); }
    if let Ok(t) = serde_json::from_slice::<EndpointAddr>(b) { return inspect_endpoint_addr(&t); }
    if let Ok(t) = serde_json::from_slice::<CustomAddr>(b) { return custom_routes(&t, t.id(), &t.data().to_vec()); }
    if let Ok(t) = CustomAddr::from_bytes(b) {
        check!(b.len() >= 8, "C02:custom-binary", "from_bytes accepted {} bytes", b.len());
        return custom_routes(&t, u64::from_le_bytes(b[..8].try_into().unwrap()), &b[8..]);
    } else {
        check!(b.len() < 8, "C02:custom-binary", "from_bytes rejected {} bytes", b.len());
    }
    Outcome::pass(false)
}

fn raw_strategy() -> impl Strategy<Value = RawBytes> + Clone {
    prop_oneof![
        3 => proptest::collection::vec(any::<u8>(), 0..120),
        // a valid key followed by a plausible address list header
        3 => (gens::key_candidate(), proptest::collection::vec(any::<u8>(), 0..80)).prop_map(|(k, rest)| { let mut v = k.to_vec(); v.extend(rest); v }),
        2 => (gens::key_candidate(), 0u8..4, proptest::collection::vec(0u8..4, 0..4), proptest::collection::vec(any::<u8>(), 0..60)).prop_map(|(k, n, tags, rest)| {
            let mut v = k.to_vec(); v.push(n); for t in tags { v.push(t); } v.extend(rest); v }),
        1 => "\\{\"id\":\"[0-9a-f]{64}\",\"addrs\":\\[(\\{\"(Ip|Relay|Custom)\":\"[a-z0-9:./]{0,20}\"\\})?\\]\\}".prop_map(|s| s.into_bytes()),
        1 => (any::<u64>(), proptest::collection::vec(0u8..=255, 0..40)).prop_map(|(id, d)| format!("{{\"id\":{id},\"data\":{d:?}}}").into_bytes()),
    ]
    .prop_map(RawBytes)
}

/// Fuzz entry: raw bytes through every byte-level parser (and the string parsers when UTF-8).
pub fn fuzz_bytes(data: &[u8]) -> Outcome {
    if let o @ Outcome::Violation { .. } = raw_case(&RawBytes(data.to_vec())) { return o; }
    if let o @ Outcome::Violation { .. } = pk_bytes(&PkBytes(data.to_vec())) { return o; }
    if let Ok(s) = std::str::from_utf8(data) {
        if let o @ Outcome::Violation { .. } = pk_string(&PkString(s.to_string())) { return o; }
        if let Ok(c) = CustomAddr::from_str(s) {
            if let o @ Outcome::Violation { .. } = custom_routes(&c, c.id(), &c.data().to_vec()) { return o; }
        }
    }
    Outcome::pass(false)
}

fn fuzz_seeds() -> Vec<Vec<u8>> {
    let id = SecretKey::from_bytes(&[7; 32]).public();
    let e = EndpointAddr::from_parts(id, [
        TransportAddr::Relay(RelayUrl::from_str("https://relay.example./x?a=b").unwrap()),
        TransportAddr::Ip("[::1]:7".parse().unwrap()),
        TransportAddr::Ip("1.2.3.4:5".parse().unwrap()),
        TransportAddr::Custom(CustomAddr::from_parts(9, &[1; 31])),
    ]);
    vec![
        postcard::to_stdvec(&e).unwrap(),
        serde_json::to_vec(&e).unwrap(),
        id.as_bytes().to_vec(),
        id.to_string().into_bytes(),
        gens::b32_encode(gens::RFC4648_UPPER, id.as_bytes()).into_bytes(),
        id.to_z32().into_bytes(),
        CustomAddr::from_parts(0xabc, &[3; 30]).to_string().into_bytes(),
        CustomAddr::from_parts(0xabc, &[3; 40]).to_vec(),
    ]
}

pub fn run(ctx: &Ctx) {
    ctx.rule("cases: 32-byte key candidates (uniform, derived from secrets, near-p/non-canonical y, 1-bit edits), strings built from valid encodings with 0-2 edits, sign/verify tuples, custom addresses (id over u64, payload length dense around 30/31), endpoint addresses with postcard edits, raw byte strings; non-trivial = input accepted by a parser, or at a length boundary (32 bytes / 50-54 / 62-66 chars / 26-34 payload bytes), or an edited encoding");
    ctx.assume("ed25519-dalek/curve25519-dalek called directly and a num-bigint point check serve as independent references");
    let k = ctx.tier.pick(1, 10);
    ctx.explore("pk_bytes", ExploreOpts::new(40_000 * k), pk_bytes_strategy, pk_bytes);
    ctx.explore("pk_string", ExploreOpts::new(40_000 * k), pk_string_strategy, pk_string);
    ctx.explore("sign", ExploreOpts::new(8_000 * k), sign_strategy, sign_case);
    ctx.explore("custom_addr", ExploreOpts::new(40_000 * k), custom_strategy, custom_case);
    ctx.explore("endpoint_addr", ExploreOpts::new(24_000 * k), ea_strategy, ea_case);
    ctx.explore("raw_bytes", ExploreOpts::new(50_000 * k), raw_strategy, raw_case);
    ctx.fuzz_campaign("c02_bytes", ctx.tier.pick(0, 3_000_000), 512, fuzz_seeds(), &fuzz_bytes);
    let _ = IpAddr::V4(Ipv4Addr::LOCALHOST);
}
