//! C24 — path selection prefers primary paths and resists flapping.
//!
//! Real code: `BiasedRttPathSelector::default().select(ctx)` over a synthetic
//! `PathSelectionContext` (add-only constructor `for_verif`, sibling of the cfg(test) one).
//! Oracle: an independent reference written from the statement: key = (tier, rtt − 3 ms for
//! IPv6); the decision "switch or stay" and the set of acceptable targets are computed from the
//! generated entries, never from the selector.

use std::{
    net::{IpAddr, Ipv4Addr, Ipv6Addr, SocketAddr, SocketAddrV4, SocketAddrV6},
    time::Duration,
};

use iroh::verif_remote::{
    FourTuple, PathSelectionContext, PathSelectionData, default_path_selector, selection_selected,
};
use iroh_base::CustomAddr;
use proptest::prelude::*;
use serde::{Deserialize, Serialize};

use crate::{
    check,
    engine::{Ctx, ExploreOpts, Outcome},
    support::{gens, remote},
};

const MS: i128 = 1_000_000;

#[derive(Debug, Clone, Copy, PartialEq, Eq, Serialize, Deserialize)]
enum K {
    V4,
    V6,
    Relay,
    Custom,
}

#[derive(Debug, Clone, Serialize, Deserialize)]
struct Entry {
    kind: K,
    /// index into a small address pool: equal (kind, idx, local) = same path on another connection
    idx: u8,
    /// local address variant (0 = unknown); a different local address is a different path
    local: u8,
    rtt_ns: u64,
    readable: bool,
}

#[derive(Debug, Clone, Serialize, Deserialize)]
enum Current {
    None,
    /// one of the entries (readable or not)
    Entry(u16),
    /// a path that is not necessarily among the candidates
    Other { kind: K, idx: u8, local: u8 },
}

#[derive(Debug, Clone, Serialize, Deserialize)]
struct Case {
    entries: Vec<Entry>,
    current: Current,
}

fn kind() -> impl Strategy<Value = K> + Clone {
    prop_oneof![4 => Just(K::V4), 4 => Just(K::V6), 2 => Just(K::Relay), 1 => Just(K::Custom)]
}

fn strategy() -> impl Strategy<Value = Case> {
    // RTTs: a per-case base plus per-entry deltas dense around 0, 2, 3, 5, 8 ms (±1 ns), so that
    // the 5 ms threshold and the 3 ms IPv6 credit are hit exactly and just missed.
    let delta = prop_oneof![
        6 => (prop::sample::select(vec![0i64, 2, 3, 5, 8, 10, -2, -3, -5, -8, 1, 4, 6, 7, -10]), -1i64..=1).prop_map(|(ms, j)| ms * 1_000_000 + j),
        2 => -12_000_000i64..=12_000_000,
        1 => -500_000_000i64..=500_000_000,
    ];
    let entry = (kind(), 0u8..4, prop_oneof![4 => Just(0u8), 1 => 1u8..3], delta, prop::bool::weighted(0.85));
    let base = prop_oneof![
        3 => 10u64..400,
        1 => 0u64..10,
        1 => 400u64..=500,
    ];
    let current = prop_oneof![
        2 => Just(Current::None),
        8 => any::<u16>().prop_map(Current::Entry),
        2 => (kind(), 0u8..5, 0u8..2).prop_map(|(kind, idx, local)| Current::Other { kind, idx, local }),
    ];
    // optional "threshold pin": one other same-tier entry is placed exactly 5 ms (+ -1/0/+1 ns)
    // of biased RTT below the current entry
    let pin = prop_oneof![3 => Just(None), 1 => (any::<u16>(), -1i64..=1).prop_map(Some)];
    (base, proptest::collection::vec(entry, 0..=8), current, pin).prop_map(|(base_ms, es, current, pin)| {
        let mut entries: Vec<Entry> = es
            .into_iter()
            .map(|(kind, idx, local, d, readable)| {
                let rtt = (base_ms as i64 * 1_000_000 + d).clamp(0, 500_000_000) as u64;
                Entry { kind, idx, local, rtt_ns: rtt, readable }
            })
            .collect();
        if let (Some((j, jitter)), Current::Entry(i)) = (pin, &current) {
            if entries.len() >= 2 {
                let i = gens::pick(*i, entries.len());
                let j = gens::pick(j, entries.len());
                let (ki, kj) = (entries[i].kind, entries[j].kind);
                let same_path = ki == kj && entries[i].idx == entries[j].idx && entries[i].local == entries[j].local;
                if i != j && !same_path && (ki == K::Relay) == (kj == K::Relay) {
                    let credit = |k: K| if k == K::V6 { 3_000_000i64 } else { 0 };
                    // key_j = key_i - 5ms + jitter  =>  rtt_j = rtt_i - credit_i + credit_j - 5ms + jitter
                    let want = entries[i].rtt_ns as i64 - credit(ki) + credit(kj) - 5_000_000 + jitter;
                    if (0..=500_000_000).contains(&want) {
                        entries[j].rtt_ns = want as u64;
                    }
                }
            }
        }
        Case { entries, current }
    })
}

fn four_tuple(kind: K, idx: u8, local: u8) -> FourTuple {
    let port = 4000 + idx as u16;
    match kind {
        K::V4 => FourTuple::Ip {
            remote: SocketAddr::V4(SocketAddrV4::new(Ipv4Addr::new(10, 1, 2, 3), port)),
            local: (local > 0).then(|| IpAddr::V4(Ipv4Addr::new(192, 168, 0, local))),
        },
        K::V6 => FourTuple::Ip {
            remote: SocketAddr::V6(SocketAddrV6::new(Ipv6Addr::new(0x2001, 0xdb8, 0, 0, 0, 0, 0, 1), port, 0, 0)),
            local: (local > 0).then(|| IpAddr::V6(Ipv6Addr::new(0xfd00, 0, 0, 0, 0, 0, 0, local as u16))),
        },
        K::Relay => FourTuple::Relay { url: remote::relay_url(idx as usize), endpoint_id: remote::endpoint_id(2) },
        K::Custom => FourTuple::Custom {
            remote: CustomAddr::from_parts(40 + (idx % 2) as u64, &[idx]),
            local: (local > 0).then(|| CustomAddr::from_parts(40 + (idx % 2) as u64, &[200, local])),
        },
    }
}

/// Reference key from the statement: (tier, biased rtt in ns). Lower is better.
fn key(kind: K, rtt_ns: u64) -> (u8, i128) {
    let tier = if kind == K::Relay { 1 } else { 0 };
    let credit = if kind == K::V6 { 3 * MS } else { 0 };
    (tier, rtt_ns as i128 - credit)
}

fn run_case(c: &Case) -> Outcome {
    let tuples: Vec<FourTuple> = c.entries.iter().map(|e| four_tuple(e.kind, e.idx, e.local)).collect();
    let current_ft: Option<FourTuple> = match &c.current {
        Current::None => None,
        Current::Entry(i) => {
            if tuples.is_empty() {
                None
            } else {
                Some(tuples[gens::pick(*i, tuples.len())].clone())
            }
        }
        Current::Other { kind, idx, local } => Some(four_tuple(*kind, *idx, *local)),
    };
    let data: Vec<PathSelectionData<'_>> = c
        .entries
        .iter()
        .zip(&tuples)
        .map(|(e, ft)| {
            let stats = e.readable.then(|| {
                let mut s = noq::PathStats::default();
                s.rtt = Duration::from_nanos(e.rtt_ns);
                s
            });
            PathSelectionData::for_verif(ft, stats)
        })
        .collect();
    let ctx = PathSelectionContext::for_verif(current_ft.as_ref(), data);
    let selector = default_path_selector();
    let got = selection_selected(&selector.select(&ctx));
    // the selector is a pure function of its context: a second call agrees
    let again = selection_selected(&selector.select(&ctx));
    check!(got == again, "C24:not-deterministic", "two selections over the same context differ: {got:?} vs {again:?}");

    // ---- reference ----
    let readable: Vec<(usize, (u8, i128))> = c
        .entries
        .iter()
        .enumerate()
        .filter(|(_, e)| e.readable)
        .map(|(i, e)| (i, key(e.kind, e.rtt_ns)))
        .collect();
    let mut classes: Vec<&'static str> = vec![];
    if c.entries.len() != readable.len() {
        classes.push("some-unreadable");
    }
    if (0..tuples.len()).any(|i| (0..i).any(|j| tuples[i] == tuples[j])) {
        classes.push("duplicate-path");
    }

    // clause: only ever picks a live path with readable statistics
    if let Some(g) = &got {
        check!(
            readable.iter().any(|(i, _)| &tuples[*i] == g),
            "C24:selected-unreadable-or-foreign",
            "selected {g} which is not a candidate with readable stats"
        );
    }
    if readable.is_empty() {
        classes.push("no-readable");
        check!(got.is_none(), "C24:selected-without-candidates", "selected {got:?} although no candidate has readable stats");
        return Outcome::pass_with(false, classes);
    }
    // clause: a direct path is always preferred over a relay path
    let any_direct = readable.iter().any(|(_, k)| k.0 == 0);
    if let Some(g) = &got {
        check!(!(any_direct && g.is_relay()), "C24:relay-over-direct", "relay path {g} selected while a readable direct path exists");
    }

    let best = readable.iter().map(|(_, k)| *k).min().expect("non-empty");
    let current_key = current_ft
        .as_ref()
        .and_then(|cur| readable.iter().filter(|(i, _)| &tuples[*i] == cur).map(|(_, k)| *k).min());
    match (&c.current, current_key) {
        (Current::None, _) => classes.push("current:none"),
        (_, Some(_)) => classes.push("current:readable"),
        (_, None) => {
            if current_ft.as_ref().is_some_and(|cur| tuples.iter().any(|t| t == cur)) {
                classes.push("current:unreadable")
            } else {
                classes.push("current:not-a-candidate")
            }
        }
    }
    let expect_switch = match current_key {
        None => true,
        Some(ck) => ck.0 != best.0 || best.1 + 5 * MS <= ck.1,
    };
    if let Some(ck) = current_key {
        if ck.0 != best.0 {
            classes.push("cross-tier");
        } else if best.1 + 5 * MS == ck.1 {
            classes.push("exactly-5ms-better");
        } else if best.1 + 5 * MS - 1 == ck.1 {
            classes.push("1ns-short-of-5ms");
        } else if expect_switch {
            classes.push("same-tier-switch");
        } else if best != ck {
            classes.push("same-tier-stay-despite-better");
        } else {
            classes.push("current-is-best");
        }
    }
    // does the IPv6 credit decide who is best?  (the unbiased minimum is not an acceptable target)
    let unbiased_best = c.entries.iter().filter(|e| e.readable).map(|e| (if e.kind == K::Relay { 1 } else { 0 }, e.rtt_ns)).min().expect("non-empty");
    let credit_decides = !c
        .entries
        .iter()
        .filter(|e| e.readable)
        .any(|e| (if e.kind == K::Relay { 1u8 } else { 0 }, e.rtt_ns) == unbiased_best && key(e.kind, e.rtt_ns) == best);
    if credit_decides {
        classes.push("ipv6-credit-decides");
    }

    if expect_switch {
        let Some(g) = &got else {
            return Outcome::violation(
                "C24:missed-switch",
                format!("nothing selected; current key {current_key:?}, best key {best:?}: expected a switch to a best path"),
            );
        };
        let ok = readable.iter().any(|(i, k)| &tuples[*i] == g && *k == best);
        check!(ok, "C24:not-best", "selected {g} whose best readable key is {:?}, but the minimal key is {best:?} (current key {current_key:?})",
            readable.iter().filter(|(i, _)| &tuples[*i] == g).map(|(_, k)| *k).min());
    } else {
        check!(got.is_none(), "C24:flapping", "selected {got:?} although the best key {best:?} is not >=5ms better than the current path's {current_key:?} in the same tier");
    }

    // non-trivial: a readable current with another same-tier readable path within 10 ms of it
    let nontrivial = current_key.is_some_and(|ck| {
        readable.iter().any(|(i, k)| Some(&tuples[*i]) != current_ft.as_ref() && k.0 == ck.0 && (k.1 - ck.1).abs() <= 10 * MS)
    });
    Outcome::pass_with(nontrivial, classes)
}

pub fn run(ctx: &Ctx) {
    ctx.rule("0..=8 candidate entries, each IPv4|IPv6|relay|custom x address from a pool of 4 (duplicates = same path on several connections, differing RTTs) x optional local address x RTT 0..500 ms at ns resolution (per-case base + deltas dense at 0/±2/±3/±5/±8/±10 ms ±1 ns) x stats readable or not; current = none | one of the entries (possibly unreadable) | a path not among the candidates; non-trivial = readable current with another same-tier readable path within 10 ms (biased)");
    ctx.assume("'switches iff >=5 ms better / other tier / no readable current' (not only 'only if'): grounded in the selector docs ('lowest biased RTT wins, with stickiness') and the unit test pinning the <= threshold");
    ctx.assume("the actor-level clause (empty selection keeps the current path) needs live connections and is left to the e2e checks; here the selector returning an empty selection is what is checked");
    let k = ctx.tier.pick(1, 10);
    ctx.explore("select", ExploreOpts::new(400_000 * k), strategy, run_case);
}
