//! C18 — mapped addresses form a stable bijection.
//!
//! (a) free-running threads hammer the three production `AddrMap` instantiations with
//!     generated `get` / reverse-lookup lists; the oracle is schedule-independent.
//! (b) classification of arbitrary socket addresses against a reference classifier.

use std::{
    collections::HashMap,
    net::{IpAddr, Ipv4Addr, Ipv6Addr, SocketAddr, SocketAddrV6},
    sync::{
        Mutex,
        atomic::{AtomicUsize, Ordering},
    },
};

use iroh::verif::socket::{Addr, VerifAddrKind, VerifMappedAddrs, VerifResolved, classify};
use iroh_base::{CustomAddr, EndpointId, RelayUrl, SecretKey};
use proptest::prelude::*;
use serde::{Deserialize, Serialize};

use crate::{
    check,
    engine::{Ctx, ExploreOpts, Outcome},
};

/// fd15:070a:510b::/48
const PREFIX: [u8; 6] = [0xfd, 0x15, 0x07, 0x0a, 0x51, 0x0b];
const MAPPED_PORT: u16 = 12345;
const KEYS: usize = 12;

fn reference_kind(addr: &SocketAddr) -> VerifAddrKind {
    match addr.ip() {
        IpAddr::V4(_) => VerifAddrKind::Ip,
        IpAddr::V6(ip) => {
            let o = ip.octets();
            if o[..6] != PREFIX {
                return VerifAddrKind::Ip;
            }
            match (o[6], o[7]) {
                (0, 0) => VerifAddrKind::Mixed,
                (0, 1) => VerifAddrKind::Relay,
                (0, 3) => VerifAddrKind::Custom,
                _ => VerifAddrKind::Ip,
            }
        }
    }
}

fn subnet_of(map: u8) -> [u8; 2] {
    match map {
        0 => [0, 0],
        1 => [0, 1],
        _ => [0, 3],
    }
}

fn kind_of(map: u8) -> VerifAddrKind {
    match map {
        0 => VerifAddrKind::Mixed,
        1 => VerifAddrKind::Relay,
        _ => VerifAddrKind::Custom,
    }
}

// ---------- keys ----------

fn endpoint_key(k: u8) -> EndpointId {
    let mut b = [0x42u8; 32];
    b[0] = k;
    SecretKey::from_bytes(&b).public()
}

/// Relay keys: 3 urls x 4 endpoint ids, so keys share either component with other keys.
fn relay_key(k: u8) -> (RelayUrl, EndpointId) {
    let urls = ["https://relay-a.example./", "https://relay-b.example./", "https://relay-a.example.:8443/"];
    let url: RelayUrl = urls[(k as usize) % 3].parse().expect("url");
    (url, endpoint_key(k / 3))
}

/// Custom keys: ids and payloads overlap between keys (same id different data, same data
/// different id, empty data).
fn custom_key(k: u8) -> CustomAddr {
    let id = (k % 3) as u64;
    let data: Vec<u8> = match k / 3 {
        0 => vec![],
        1 => vec![1],
        2 => vec![1, 0],
        _ => vec![k; 40],
    };
    CustomAddr::from_parts(id, &data)
}

struct Keys {
    endpoint: Vec<EndpointId>,
    relay: Vec<(RelayUrl, EndpointId)>,
    custom: Vec<CustomAddr>,
}

fn keys() -> Keys {
    Keys {
        endpoint: (0..KEYS as u8).map(endpoint_key).collect(),
        relay: (0..KEYS as u8).map(relay_key).collect(),
        custom: (0..KEYS as u8).map(custom_key).collect(),
    }
}

// ---------- (a) concurrency ----------

#[derive(Debug, Clone, Copy, PartialEq, Eq, Serialize, Deserialize)]
enum Op {
    /// `get(key)` on map 0 (endpoint) / 1 (relay) / 2 (custom); publishes the address
    Get { map: u8, key: u8 },
    /// reverse lookup of the address some thread published for (map, key), if any yet
    Lookup { map: u8, key: u8 },
    /// reverse lookup of an address of the map's subnet that was never issued
    LookupFresh { map: u8, host: u64 },
}

#[derive(Debug, Clone, Serialize, Deserialize)]
struct ConcCase {
    threads: Vec<Vec<Op>>,
}

fn op_strategy() -> impl Strategy<Value = Op> {
    prop_oneof![
        6 => (0u8..3, 0u8..KEYS as u8).prop_map(|(map, key)| Op::Get { map, key }),
        3 => (0u8..3, 0u8..KEYS as u8).prop_map(|(map, key)| Op::Lookup { map, key }),
        1 => (0u8..3, any::<u64>()).prop_map(|(map, host)| Op::LookupFresh { map, host }),
    ]
}

fn conc_strategy(max_threads: usize) -> impl Strategy<Value = ConcCase> {
    let nthreads = prop_oneof![5 => 2usize..=3, 3 => 4usize..=6, 1 => 7usize..=max_threads.max(7)];
    (nthreads, 0u8..6).prop_flat_map(|(n, mode)| {
        let list = proptest::collection::vec(op_strategy(), 1..40);
        match mode {
            // every thread runs the same list: all of them race on each fresh key in turn
            0..=2 => list.prop_map(move |l| ConcCase { threads: vec![l; n] }).boxed(),
            // same list, rotated per thread
            3 => list
                .prop_map(move |l| ConcCase {
                    threads: (0..n)
                        .map(|i| {
                            let mut r = l.clone();
                            let k = i % r.len();
                            r.rotate_left(k);
                            r
                        })
                        .collect(),
                })
                .boxed(),
            // independent lists
            _ => proptest::collection::vec(list, n..=n).prop_map(|threads| ConcCase { threads }).boxed(),
        }
    })
}

#[derive(Debug, Clone)]
enum Event {
    Got { map: u8, key: u8, addr: SocketAddr },
    Looked { map: u8, key: u8, addr: SocketAddr, res: VerifResolved },
    Fresh { map: u8, addr: SocketAddr, res: VerifResolved },
}

/// Spinning barrier: releases all threads within nanoseconds of each other (a futex barrier
/// wakes them one by one, which hides narrow races).
struct SpinBarrier {
    n: usize,
    count: AtomicUsize,
    generation: AtomicUsize,
}

impl SpinBarrier {
    fn new(n: usize) -> Self {
        Self { n, count: AtomicUsize::new(0), generation: AtomicUsize::new(0) }
    }
    fn wait(&self) {
        let generation = self.generation.load(Ordering::Acquire);
        if self.count.fetch_add(1, Ordering::AcqRel) + 1 == self.n {
            self.count.store(0, Ordering::Release);
            self.generation.fetch_add(1, Ordering::AcqRel);
            return;
        }
        let mut spins = 0u32;
        while self.generation.load(Ordering::Acquire) == generation {
            spins += 1;
            if spins < 2_000 {
                std::hint::spin_loop();
            } else {
                std::thread::yield_now();
            }
        }
    }
}

fn get(maps: &VerifMappedAddrs, keys: &Keys, map: u8, key: u8) -> SocketAddr {
    match map {
        0 => maps.endpoint_get(&keys.endpoint[key as usize]),
        1 => {
            let (u, e) = &keys.relay[key as usize];
            maps.relay_get(u, e)
        }
        _ => maps.custom_get(&keys.custom[key as usize]),
    }
}

fn expected_resolved(keys: &Keys, map: u8, key: Option<u8>) -> VerifResolved {
    match map {
        0 => VerifResolved::Mixed(key.map(|k| keys.endpoint[k as usize])),
        1 => VerifResolved::Relay(key.map(|k| keys.relay[k as usize].clone())),
        _ => VerifResolved::Custom(key.map(|k| keys.custom[k as usize].clone())),
    }
}

fn fresh_addr(map: u8, host: u64) -> SocketAddr {
    let mut o = [0u8; 16];
    o[..6].copy_from_slice(&PREFIX);
    o[6..8].copy_from_slice(&subnet_of(map));
    o[8..].copy_from_slice(&host.to_be_bytes());
    SocketAddr::new(IpAddr::V6(Ipv6Addr::from(o)), MAPPED_PORT)
}

fn slot(map: u8, key: u8) -> usize {
    map as usize * KEYS + key as usize
}

fn check_rep(keys: &Keys, maps: &VerifMappedAddrs, logs: &[Vec<Event>]) -> Result<(), (String, String)> {
    let fail = |sig: &str, d: String| Err((sig.to_string(), d));
    // all addresses ever returned per key
    let mut issued: HashMap<(u8, u8), SocketAddr> = HashMap::new();
    for (t, log) in logs.iter().enumerate() {
        for ev in log {
            if let Event::Got { map, key, addr } = ev {
                match issued.get(&(*map, *key)) {
                    None => {
                        issued.insert((*map, *key), *addr);
                    }
                    Some(prev) if prev != addr => {
                        return fail(
                            "C18:unstable-address",
                            format!("map {map} key {key}: get returned {prev} and (thread {t}) {addr}"),
                        );
                    }
                    _ => {}
                }
            }
        }
    }
    // injective across keys of all maps
    let mut owner: HashMap<SocketAddr, (u8, u8)> = HashMap::new();
    for (&(map, key), addr) in &issued {
        if let Some(other) = owner.insert(*addr, (map, key)) {
            return fail("C18:shared-address", format!("address {addr} issued to {other:?} and {:?}", (map, key)));
        }
        // shape and kind
        let SocketAddr::V6(v6) = addr else {
            return fail("C18:address-shape", format!("{addr} is not IPv6"));
        };
        let o = v6.ip().octets();
        if o[..6] != PREFIX || o[6..8] != subnet_of(map) {
            return fail("C18:address-shape", format!("address {addr} of map {map} is outside its reserved subnet"));
        }
        if classify(*addr) != kind_of(map) || reference_kind(addr) != kind_of(map) {
            return fail("C18:misclassified", format!("address {addr} of map {map} classifies as {:?}", classify(*addr)));
        }
    }
    // concurrent reverse lookups
    for log in logs {
        for ev in log {
            match ev {
                Event::Looked { map, key, addr, res } => {
                    if *res != expected_resolved(keys, *map, Some(*key)) {
                        return fail(
                            "C18:reverse-lookup",
                            format!("lookup of {addr} (issued for map {map} key {key}) gave {res:?}"),
                        );
                    }
                }
                Event::Fresh { map, addr, res } => {
                    if owner.contains_key(addr) {
                        continue; // 2^-64 collision with an issued address: not a never-issued one
                    }
                    if *res != expected_resolved(keys, *map, None) {
                        return fail("C18:phantom-lookup", format!("never-issued address {addr} resolved to {res:?}"));
                    }
                }
                Event::Got { .. } => {}
            }
        }
    }
    // afterwards (sequential): still the same address, translates back to exactly its key
    for (&(map, key), addr) in &issued {
        let again = get(maps, keys, map, key);
        if again != *addr {
            return fail("C18:unstable-address", format!("map {map} key {key}: {addr} earlier, {again} afterwards"));
        }
        let res = maps.resolve(*addr);
        if res != expected_resolved(keys, map, Some(key)) {
            return fail("C18:reverse-lookup", format!("afterwards: lookup of {addr} (map {map} key {key}) gave {res:?}"));
        }
        let ta = maps.to_transport_addr(*addr);
        let want = match map {
            0 => None,
            1 => {
                let (u, e) = keys.relay[key as usize].clone();
                Some(Addr::Relay(u, e))
            }
            _ => Some(Addr::Custom(keys.custom[key as usize].clone())),
        };
        if ta != want {
            return fail("C18:to-transport-addr", format!("to_transport_addr({addr}) = {ta:?}, expected {want:?}"));
        }
    }
    Ok(())
}

fn run_conc(c: &ConcCase, reps: usize, keys: &Keys) -> Outcome {
    let n = c.threads.len();
    if n == 0 || c.threads.iter().any(|t| t.is_empty()) {
        return Outcome::Excluded("empty thread list");
    }
    let maps: Vec<VerifMappedAddrs> = (0..reps).map(|_| VerifMappedAddrs::new()).collect();
    let published: Vec<Vec<Mutex<Option<SocketAddr>>>> =
        (0..reps).map(|_| (0..3 * KEYS).map(|_| Mutex::new(None)).collect()).collect();
    let barrier = SpinBarrier::new(n);
    let failure: Mutex<Option<(String, String)>> = Mutex::new(None);
    let logs: Vec<Mutex<Vec<Vec<Event>>>> = (0..n).map(|_| Mutex::new(Vec::new())).collect();
    std::thread::scope(|scope| {
        for (t, ops) in c.threads.iter().enumerate() {
            let maps = &maps;
            let published = &published;
            let barrier = &barrier;
            let logs = &logs;
            scope.spawn(move || {
                let mut mine: Vec<Vec<Event>> = Vec::with_capacity(reps);
                for rep in 0..reps {
                    let m = &maps[rep];
                    let publ = &published[rep];
                    let mut log = Vec::with_capacity(ops.len());
                    barrier.wait();
                    for op in ops {
                        match *op {
                            Op::Get { map, key } => {
                                let addr = get(m, keys, map, key);
                                *publ[slot(map, key)].lock().unwrap() = Some(addr);
                                log.push(Event::Got { map, key, addr });
                            }
                            Op::Lookup { map, key } => {
                                let a = *publ[slot(map, key)].lock().unwrap();
                                if let Some(addr) = a {
                                    let res = m.resolve(addr);
                                    log.push(Event::Looked { map, key, addr, res });
                                }
                            }
                            Op::LookupFresh { map, host } => {
                                let addr = fresh_addr(map, host);
                                let res = m.resolve(addr);
                                log.push(Event::Fresh { map, addr, res });
                            }
                        }
                    }
                    mine.push(log);
                }
                *logs[t].lock().unwrap() = mine;
            });
        }
    });
    let logs: Vec<Vec<Vec<Event>>> = logs.into_iter().map(|m| m.into_inner().unwrap()).collect();
    let mut looked = 0usize;
    for rep in 0..reps {
        let rep_logs: Vec<Vec<Event>> = logs.iter().map(|l| l[rep].clone()).collect();
        looked += rep_logs.iter().flatten().filter(|e| matches!(e, Event::Looked { .. })).count();
        if let Err(e) = check_rep(keys, &maps[rep], &rep_logs) {
            *failure.lock().unwrap() = Some(e);
            break;
        }
    }
    if let Some((sig, detail)) = failure.into_inner().unwrap() {
        return Outcome::violation(sig, detail);
    }
    // classification of the case (static, from the lists)
    let first_gets: Vec<(u8, u8)> = c
        .threads
        .iter()
        .filter_map(|t| match t[0] {
            Op::Get { map, key } => Some((map, key)),
            _ => None,
        })
        .collect();
    let racing_first = first_gets.iter().any(|k| first_gets.iter().filter(|o| *o == k).count() >= 2);
    let mut shared_keys = 0;
    for map in 0..3u8 {
        for key in 0..KEYS as u8 {
            let users = c.threads.iter().filter(|t| t.contains(&Op::Get { map, key })).count();
            if users >= 2 {
                shared_keys += 1;
            }
        }
    }
    let mut classes = vec![];
    if racing_first {
        classes.push("same-fresh-key-first-op-in>=2-threads");
    }
    if shared_keys >= 1 {
        classes.push("key-requested-by>=2-threads");
    }
    if looked > 0 {
        classes.push("cross-thread-lookups-observed");
    }
    if n >= 9 {
        classes.push("threads>=9");
    }
    let maps_used: std::collections::BTreeSet<u8> = c
        .threads
        .iter()
        .flatten()
        .filter_map(|o| match o {
            Op::Get { map, .. } => Some(*map),
            _ => None,
        })
        .collect();
    if maps_used.len() == 3 {
        classes.push("all-three-maps");
    }
    Outcome::pass_with(racing_first, classes)
}

// ---------- (b) classification ----------

#[derive(Debug, Clone, Serialize, Deserialize)]
struct ClassCase {
    addr: SocketAddr,
}

fn class_strategy() -> impl Strategy<Value = ClassCase> {
    let port = prop_oneof![2 => Just(MAPPED_PORT), 1 => any::<u16>()];
    let reserved = (0u8..6, any::<u8>(), any::<u64>(), 0u8..5).prop_map(|(sub, hi, host, use_hi)| {
        let mut o = [0u8; 16];
        o[..6].copy_from_slice(&PREFIX);
        o[6] = if use_hi == 0 { hi } else { 0 };
        o[7] = sub;
        o[8..].copy_from_slice(&host.to_be_bytes());
        o
    });
    let edited = (0u8..4, any::<u64>(), 0usize..8, 0u8..8, any::<u8>(), any::<bool>()).prop_map(|(sub, host, pos, bit, val, flip)| {
        let mut o = [0u8; 16];
        o[..6].copy_from_slice(&PREFIX);
        o[7] = sub;
        o[8..].copy_from_slice(&host.to_be_bytes());
        if flip {
            o[pos] ^= 1 << bit;
        } else {
            o[pos] = val;
        }
        o
    });
    let v6 = prop_oneof![
        8 => reserved,
        4 => edited,
        1 => any::<[u8; 4]>().prop_map(|v4| Ipv4Addr::from(v4).to_ipv6_mapped().octets()),
        2 => any::<[u8; 16]>(),
        1 => any::<u64>().prop_map(|h| { let mut o = [0u8; 16]; o[0] = 0xfd; o[8..].copy_from_slice(&h.to_be_bytes()); o }),
        1 => Just(Ipv6Addr::LOCALHOST.octets()),
    ];
    prop_oneof![
        1 => (any::<[u8; 4]>(), port.clone()).prop_map(|(a, p)| ClassCase { addr: SocketAddr::new(IpAddr::V4(Ipv4Addr::from(a)), p) }),
        6 => (v6, port, any::<u32>(), any::<u32>(), any::<bool>()).prop_map(|(o, p, flow, scope, plain)| {
            let (flow, scope) = if plain { (0, 0) } else { (flow, scope) };
            ClassCase { addr: SocketAddr::V6(SocketAddrV6::new(Ipv6Addr::from(o), p, flow, scope)) }
        }),
    ]
}

fn run_class(c: &ClassCase) -> Outcome {
    let want = reference_kind(&c.addr);
    let got = classify(c.addr);
    check!(got == want, "C18:misclassified", "{} classified as {got:?}, reference {want:?}", c.addr);
    // on empty maps: a synthetic address of any kind translates to nothing; an ordinary
    // address translates to itself (canonical IP)
    let maps = VerifMappedAddrs::new();
    let res = maps.resolve(c.addr);
    let want_res = match want {
        VerifAddrKind::Mixed => VerifResolved::Mixed(None),
        VerifAddrKind::Relay => VerifResolved::Relay(None),
        VerifAddrKind::Custom => VerifResolved::Custom(None),
        VerifAddrKind::Ip => VerifResolved::Ip(c.addr),
    };
    check!(res == want_res, "C18:phantom-lookup", "{} resolves to {res:?} on empty maps, expected {want_res:?}", c.addr);
    let ta = maps.to_transport_addr(c.addr);
    match want {
        VerifAddrKind::Ip => {
            let ok = matches!(&ta, Some(Addr::Ip(a)) if a.ip() == c.addr.ip().to_canonical() && a.port() == c.addr.port());
            check!(ok, "C18:to-transport-addr", "ordinary address {} translated to {ta:?}", c.addr);
        }
        _ => {
            check!(ta.is_none(), "C18:to-transport-addr", "unknown synthetic address {} translated to {ta:?}", c.addr);
        }
    }
    let o = match c.addr.ip() {
        IpAddr::V6(ip) => Some(ip.octets()),
        _ => None,
    };
    let mut classes = vec![match want {
        VerifAddrKind::Mixed => "kind:mixed",
        VerifAddrKind::Relay => "kind:relay",
        VerifAddrKind::Custom => "kind:custom",
        VerifAddrKind::Ip => "kind:ip",
    }];
    // near miss: an ordinary address that differs from the reserved range in one byte of the
    // first eight
    let mut near = false;
    if let Some(o) = o {
        if want == VerifAddrKind::Ip {
            let diff6 = (0..6).filter(|&i| o[i] != PREFIX[i]).count();
            let sub_ok = o[6] == 0 && matches!(o[7], 0 | 1 | 3);
            near = (diff6 == 1 && sub_ok) || (diff6 == 0 && !sub_ok);
            if near {
                classes.push("near-miss");
            }
        }
        if want != VerifAddrKind::Ip && c.addr.port() != MAPPED_PORT {
            classes.push("mapped-other-port");
        }
    }
    Outcome::pass_with(near || want != VerifAddrKind::Ip, classes)
}

// ---------- (c) receive path of a live endpoint ----------

#[derive(Debug, Clone, Serialize, Deserialize)]
enum Src {
    /// relay path `relay_key(k)`
    Relay(u8),
    /// plain IPv4 source
    Ip(u8),
}

#[derive(Debug, Clone, Serialize, Deserialize)]
struct RecvCase {
    /// batches of datagram sources, as the transports hand them to the socket
    batches: Vec<Vec<Src>>,
}

fn recv_strategy() -> impl Strategy<Value = RecvCase> {
    // few keys, so that the same endpoint over different relays and the same relay for different
    // endpoints meet in adjacent slots
    let src = prop_oneof![5 => (0u8..KEYS as u8).prop_map(Src::Relay), 3 => prop_oneof![Just(0u8), Just(1), Just(3), Just(4), Just(6)].prop_map(Src::Relay), 1 => (0u8..4).prop_map(Src::Ip)];
    proptest::collection::vec(proptest::collection::vec(src, 1..8), 1..5).prop_map(|batches| RecvCase { batches })
}

fn run_recv(c: &RecvCase) -> Outcome {
    use crate::support::e2e;
    e2e::run(1, async {
        let ep = e2e::bind(e2e::builder()).await;
        let maps = iroh::verif::socket::endpoint_mapped_addrs(&ep);
        let mut seen: HashMap<(RelayUrl, EndpointId), SocketAddr> = HashMap::new();
        let mut adjacent_same_endpoint = false;
        let mut out = None;
        'outer: for (bi, batch) in c.batches.iter().enumerate() {
            let sources: Vec<Addr> = batch
                .iter()
                .map(|s| match s {
                    Src::Relay(k) => { let (u, e) = relay_key(*k); Addr::Relay(u, e) }
                    Src::Ip(i) => Addr::Ip(SocketAddr::from((Ipv4Addr::new(192, 0, 2, 1 + *i), 4000 + *i as u16))),
                })
                .collect();
            for w in batch.windows(2) {
                if let (Src::Relay(a), Src::Relay(b)) = (&w[0], &w[1]) {
                    if a != b && relay_key(*a).1 == relay_key(*b).1 { adjacent_same_endpoint = true; }
                }
            }
            let shown = iroh::verif::socket::process_batch(&ep, &sources, 32);
            for (i, (src, addr)) in sources.iter().zip(shown.iter()).enumerate() {
                match src {
                    Addr::Relay(url, id) => {
                        if classify(*addr) != VerifAddrKind::Relay {
                            out = Some(Outcome::violation("C18:recv-kind", format!("batch {bi} slot {i}: a datagram from relay path ({url}, {}) is shown to QUIC under {addr}, which is not a relay mapped address", id.fmt_short())));
                            break 'outer;
                        }
                        let back = maps.to_transport_addr(*addr);
                        if back != Some(Addr::Relay(url.clone(), *id)) {
                            out = Some(Outcome::violation("C18:recv-shared-address", format!("batch {bi} slot {i}: a datagram from relay path ({url}, {}) is shown under {addr}, which translates back to {back:?}", id.fmt_short())));
                            break 'outer;
                        }
                        if let Some(prev) = seen.insert((url.clone(), *id), *addr) {
                            if prev != *addr {
                                out = Some(Outcome::violation("C18:unstable-address", format!("relay path ({url}, {}) was shown under {prev} and later under {addr}", id.fmt_short())));
                                break 'outer;
                            }
                        }
                    }
                    // plain IP datagrams keep the address the IP transport put into the meta
                    _ => {}
                }
            }
        }
        if out.is_none() {
            let mut by_addr: HashMap<SocketAddr, (RelayUrl, EndpointId)> = HashMap::new();
            for (k, a) in &seen {
                if let Some(other) = by_addr.insert(*a, k.clone()) {
                    out = Some(Outcome::violation("C18:recv-shared-address", format!("relay paths {other:?} and {k:?} share the address {a}")));
                    break;
                }
            }
        }
        ep.close().await;
        out.unwrap_or_else(|| Outcome::pass_with(adjacent_same_endpoint, vec![if adjacent_same_endpoint { "same-endpoint-two-relays-adjacent" } else { "no-adjacent-pair" }]))
    })
}

pub fn run(ctx: &Ctx) {
    ctx.rule("part recv_path: batches of datagram sources (relay paths over 3 urls x 4 endpoint ids, plain IPs) pushed through the receive-path address translation of a live endpoint; every relay datagram must be shown to QUIC under a relay mapped address that translates back to exactly its (url, endpoint id), stays the same across batches and is shared with no other path; non-trivial = the same endpoint id over two different relays in adjacent slots | part concurrent: 2..8 (thorough: 2..16) free-running threads released from a spinning barrier, each with a generated list (1..40) of get(key) / lookup(published address of key) / lookup(never-issued address) over the three production maps and 12 keys per map (keys overlap in components), lists identical / rotated / independent; each case repeated on fresh maps (quick 60x, thorough 150x; a replay 5000x); oracle per repetition: all get(k) equal, different keys different addresses (across maps too), address in the map's reserved /64 and classified as its kind, every lookup of an issued address yields exactly its key, never-issued addresses yield nothing, sequential re-check afterwards incl. to_transport_addr; non-trivial = at least two threads start with get of the same fresh key | part classify: IPv4, addresses in fd15:070a:510b::/48 with subnet 0..5 (and non-zero high subnet byte), single-bit/byte edits of the first 8 bytes, IPv4-mapped, random; any port/flowinfo/scope; reference classifier on the first 8 bytes; non-trivial = mapped kind or near miss");
    ctx.assume("a freshly generated never-issued address collides with an issued one with probability 2^-64 per lookup; such an event is skipped, not judged");
    ctx.assume("the generate-until-unique retry loop of AddrMap::get is not reachable by testing (2^-64)");
    let k = ctx.tier.pick(1, 10);
    let reps = ctx.tier.pick(60, 150);
    let max_threads = ctx.tier.pick(8, 16);
    let keys = keys();
    ctx.explore(
        "concurrent",
        ExploreOpts::new(ctx.tier.pick(160, 600)).workers(2).shrink(40),
        move || conc_strategy(max_threads),
        |c: &ConcCase| run_conc(c, if ctx.is_replay() { 5_000 } else { reps }, &keys),
    );
    ctx.explore("classify", ExploreOpts::new(60_000 * k), class_strategy, run_class);
    ctx.explore("recv_path", ExploreOpts::new(200 * k).workers(4).shrink(60), recv_strategy, run_recv);
}
