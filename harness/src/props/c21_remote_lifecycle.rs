//! C21 — per-remote state never loses requests across idle shutdown and restart.
//!
//! The harness plays the socket actor (the only owner of `RemoteMap`) on a paused clock and
//! drives histories of resolve requests for two remotes interleaved with idle-timeout expiry,
//! `cleanup()` polls and holds of a stopping actor before `inbox.close()`.  Oracle (see
//! `support::remote_actor`): every request is processed exactly once by the remote's state and
//! answered exactly once with the model-correct reply at the model-correct virtual instant;
//! per remote the processing order is the request order; lifecycle events show at most one
//! live instance per remote at any time.

use crate::{
    engine::Ctx,
    support::remote_actor::{self, Emphasis},
};

pub fn run(ctx: &Ctx) {
    ctx.rule("histories (1..28 ops) over 2 remotes of Resolve(with / without an address; the address carries a distinguishing port) | RemoteInfo (sent through the read-only sender map like Socket::remote_info) | Advance(2 ms .. 130 s, dense around the 60 s idle timeout) | Cleanup (one poll of RemoteMap::cleanup) | HoldStop(remote) (the next stopping actor of that remote is held before inbox.close()) | ReleaseStop, with 0..2 scripted lookup services; a final quiesce releases holds, polls cleanup and lets lookups finish; non-trivial = a request that landed in a closing inbox (leftover hand-off) or hit a closed sender (restart from SendError)");
    ctx.assume("connection-registration requests need live noq connections and are not generated here (they take the same send_to_actor path as resolve requests)");
    ctx.assume("at most 10 messages are queued for a held actor (the inbox holds 16; a full inbox blocks the sender until release, which is back-pressure, not loss)");
    ctx.assume("messages queued at an instant are handled before a lookup event of the same instant (the actor's select! is biased, inbox first)");
    let k = ctx.tier.pick(1, 10);
    remote_actor::explore(ctx, "lifecycle", Emphasis::Lifecycle, 24_000 * k);
    remote_actor::explore(ctx, "lifecycle+lookup", Emphasis::Lookup, 6_000 * k);
}
