//! C39 — packet store survives crashes consistently and evicts only expired packets.
//!
//! (a) fault enumeration: the store runs on a recording `redb::StorageBackend`; every prefix of
//!     the backend's operation log (a crash after each write / set_len / sync) is materialised,
//!     reopened with a fresh `redb::Database` (redb's own recovery) and both tables are read
//!     directly and compared with what was published and what was durably committed.
//! (b) eviction: histories with timestamps on both sides of the retention cut-off.

use std::{
    collections::{BTreeMap, BTreeSet, HashMap},
    sync::{Arc, Mutex, Once},
    thread::ThreadId,
    time::Duration,
};

use iroh_dns::pkarr::SignedPacket;
use iroh_dns_server::verif::ZoneStoreHandle;
use proptest::prelude::*;
use redb::{MultimapTableDefinition, ReadableDatabase, ReadableMultimapTable, ReadableTable, StorageBackend, TableDefinition};
use serde::{Deserialize, Serialize};

use crate::{
    engine::{self, Ctx, ExploreOpts, Outcome},
    support::dnssrv::{self, RD, Rec, T0},
};

const PACKETS: TableDefinition<&[u8; 32], &[u8]> = TableDefinition::new("signed-packets-1");
const INDEX: MultimapTableDefinition<[u8; 8], [u8; 32]> = MultimapTableDefinition::new("update-time-1");

// ------------------------------------------------------------------ recording backend

#[derive(Debug, Clone)]
enum LogOp {
    Write(u64, Vec<u8>),
    SetLen(u64),
    Sync,
}

#[derive(Debug, Default)]
struct RecState {
    data: Vec<u8>,
    log: Vec<LogOp>,
    /// log lengths at which the store reported a committed batch
    commits: Vec<usize>,
}

#[derive(Debug, Clone)]
struct RecBackend {
    state: Arc<Mutex<RecState>>,
}

/// crash points reopened / of those strictly inside a commit (for the evidence)
static REOPENED: std::sync::atomic::AtomicU64 = std::sync::atomic::AtomicU64::new(0);
static REOPENED_INSIDE: std::sync::atomic::AtomicU64 = std::sync::atomic::AtomicU64::new(0);

static ACTORS: Mutex<Option<HashMap<ThreadId, Arc<Mutex<RecState>>>>> = Mutex::new(None);
static INSTALL: Once = Once::new();

fn install_commit_handler() {
    INSTALL.call_once(|| {
        iroh_base::verif_hooks::set_sync_handler(Some(Arc::new(|name: &str, _detail: &str| {
            if name != "store:batch_committed" {
                return;
            }
            // the event is raised on the store's actor thread, which also performs the commit's
            // backend operations: that is how the backend of this store is found
            let st = ACTORS.lock().unwrap().as_ref().and_then(|m| m.get(&std::thread::current().id()).cloned());
            if let Some(st) = st {
                let mut s = st.lock().unwrap();
                let n = s.log.len();
                s.commits.push(n);
            }
        })));
    });
}

impl RecBackend {
    fn new() -> Self {
        RecBackend { state: Arc::new(Mutex::new(RecState::default())) }
    }
    fn note_thread(&self) {
        ACTORS.lock().unwrap().get_or_insert_with(HashMap::new).insert(std::thread::current().id(), self.state.clone());
    }
    fn forget_threads(&self) {
        if let Some(m) = ACTORS.lock().unwrap().as_mut() {
            m.retain(|_, v| !Arc::ptr_eq(v, &self.state));
        }
    }
}

impl StorageBackend for RecBackend {
    fn len(&self) -> Result<u64, std::io::Error> {
        Ok(self.state.lock().unwrap().data.len() as u64)
    }
    fn read(&self, offset: u64, out: &mut [u8]) -> Result<(), std::io::Error> {
        let s = self.state.lock().unwrap();
        let o = offset as usize;
        let Some(src) = s.data.get(o..o + out.len()) else {
            return Err(std::io::Error::new(std::io::ErrorKind::UnexpectedEof, "read past end"));
        };
        out.copy_from_slice(src);
        Ok(())
    }
    fn set_len(&self, len: u64) -> Result<(), std::io::Error> {
        self.note_thread();
        let mut s = self.state.lock().unwrap();
        s.data.resize(len as usize, 0);
        s.log.push(LogOp::SetLen(len));
        Ok(())
    }
    fn sync_data(&self) -> Result<(), std::io::Error> {
        self.note_thread();
        self.state.lock().unwrap().log.push(LogOp::Sync);
        Ok(())
    }
    fn write(&self, offset: u64, data: &[u8]) -> Result<(), std::io::Error> {
        self.note_thread();
        let mut s = self.state.lock().unwrap();
        let o = offset as usize;
        if o + data.len() > s.data.len() {
            return Err(std::io::Error::new(std::io::ErrorKind::UnexpectedEof, "write past end"));
        }
        s.data[o..o + data.len()].copy_from_slice(data);
        s.log.push(LogOp::Write(offset, data.to_vec()));
        Ok(())
    }
}

/// Plain in-memory backend over an image (for reopening).
#[derive(Debug)]
struct ImageBackend(Mutex<Vec<u8>>);

impl StorageBackend for ImageBackend {
    fn len(&self) -> Result<u64, std::io::Error> {
        Ok(self.0.lock().unwrap().len() as u64)
    }
    fn read(&self, offset: u64, out: &mut [u8]) -> Result<(), std::io::Error> {
        let s = self.0.lock().unwrap();
        let o = offset as usize;
        let Some(src) = s.get(o..o + out.len()) else {
            return Err(std::io::Error::new(std::io::ErrorKind::UnexpectedEof, "read past end"));
        };
        out.copy_from_slice(src);
        Ok(())
    }
    fn set_len(&self, len: u64) -> Result<(), std::io::Error> {
        self.0.lock().unwrap().resize(len as usize, 0);
        Ok(())
    }
    fn sync_data(&self) -> Result<(), std::io::Error> {
        Ok(())
    }
    fn write(&self, offset: u64, data: &[u8]) -> Result<(), std::io::Error> {
        let mut s = self.0.lock().unwrap();
        let o = offset as usize;
        if o + data.len() > s.len() {
            return Err(std::io::Error::new(std::io::ErrorKind::UnexpectedEof, "write past end"));
        }
        s[o..o + data.len()].copy_from_slice(data);
        Ok(())
    }
}

fn apply(image: &mut Vec<u8>, op: &LogOp) {
    match op {
        LogOp::Write(o, d) => {
            let o = *o as usize;
            if image.len() < o + d.len() {
                image.resize(o + d.len(), 0);
            }
            image[o..o + d.len()].copy_from_slice(d);
        }
        LogOp::SetLen(l) => image.resize(*l as usize, 0),
        LogOp::Sync => {}
    }
}

// ------------------------------------------------------------------ packets

const NKEYS: usize = 3;

#[derive(Debug, Clone, PartialEq, Eq, Serialize, Deserialize)]
struct P {
    key: u8,
    ts: u8,
    pay: u8,
}

struct Built {
    ts: u64,
    dns: Vec<u8>,
    full: Vec<u8>,
}

fn build_at(seed: u64, p: &P, ts: u64) -> Built {
    let k = p.key as u32 % NKEYS as u32;
    let sk = dnssrv::secret(seed, k);
    let z = dnssrv::z32(sk.public().as_bytes());
    let recs = vec![
        Rec { owner: format!("_iroh.{z}"), ttl: 30, rd: RD::Txt(format!("relay=https://r{}.example./", p.pay % 5)) },
        Rec { owner: z.clone(), ttl: 30, rd: RD::A([10, 0, p.pay % 5, 1]) },
    ];
    let dns = dnssrv::build_dns(&recs[..1 + (p.pay as usize % 2)], true);
    let payload = dnssrv::sign_payload(&sk, ts, &dns);
    let full = dnssrv::full_packet(sk.public().as_bytes(), &payload);
    Built { ts, dns, full }
}

fn pk_of(seed: u64, key: u8) -> [u8; 32] {
    *dnssrv::secret(seed, key as u32 % NKEYS as u32).public().as_bytes()
}

// ------------------------------------------------------------------ (a) crash points

#[derive(Debug, Clone, Serialize, Deserialize)]
enum WOp {
    Upsert(P),
    Get(u8),
}

#[derive(Debug, Clone, Serialize, Deserialize)]
struct Workload {
    seed: u64,
    /// `max_batch_size` of the store
    batch: u8,
    /// rows written into the tables before the store opens: (packet, legacy format without the 8-byte prefix)
    preexisting: Vec<(P, bool)>,
    ops: Vec<WOp>,
    /// thorough: additionally lose a subset of the writes after the last sync (bit i of
    /// hash(torn, prefix, index) decides); 0 = plain prefixes only
    torn: u64,
}

fn crash_ts(p: &P) -> u64 {
    T0 + (p.ts as u64 % 4) * 1_000_000
}

type Fail = (String, String);

struct TableState {
    packets: BTreeMap<[u8; 32], Vec<u8>>,
    index: BTreeSet<([u8; 8], [u8; 32])>,
}

/// Reopens an image with a fresh redb database and reads both tables.
fn reopen(image: Vec<u8>) -> Result<(redb::Database, TableState), String> {
    let db = redb::Database::builder().create_with_backend(ImageBackend(Mutex::new(image))).map_err(|e| format!("database does not open: {e}"))?;
    let mut st = TableState { packets: BTreeMap::new(), index: BTreeSet::new() };
    {
        let tx = db.begin_read().map_err(|e| format!("begin_read: {e}"))?;
        match tx.open_table(PACKETS) {
            Ok(t) => {
                for row in t.iter().map_err(|e| format!("iterate packets: {e}"))? {
                    let (k, v) = row.map_err(|e| format!("packet row: {e}"))?;
                    st.packets.insert(*k.value(), v.value().to_vec());
                }
            }
            Err(redb::TableError::TableDoesNotExist(_)) => {}
            Err(e) => return Err(format!("open packets table: {e}")),
        }
        match tx.open_multimap_table(INDEX) {
            Ok(t) => {
                for row in t.iter().map_err(|e| format!("iterate index: {e}"))? {
                    let (time, keys) = row.map_err(|e| format!("index row: {e}"))?;
                    for key in keys {
                        let key = key.map_err(|e| format!("index value: {e}"))?;
                        st.index.insert((time.value(), key.value()));
                    }
                }
            }
            Err(redb::TableError::TableDoesNotExist(_)) => {}
            Err(e) => return Err(format!("open index table: {e}")),
        }
    }
    Ok((db, st))
}

/// The packet bytes of a stored row: the store writes `<8 bytes><packet>`, older rows are the bare packet.
fn row_packet<'a>(value: &'a [u8], published: &[&Built]) -> Option<(&'a [u8], usize)> {
    if value.len() >= 8 {
        if let Some(i) = published.iter().position(|b| b.full == value[8..]) {
            return Some((&value[8..], i));
        }
    }
    published.iter().position(|b| b.full == value).map(|i| (value, i))
}

fn run_workload(w: &Workload) -> Outcome {
    install_commit_handler();
    if w.ops.is_empty() {
        return Outcome::Excluded("empty workload");
    }
    let seed = w.seed;
    // everything ever published, per key index
    let mut published: Vec<Vec<Built>> = (0..NKEYS).map(|_| vec![]).collect();
    // (key index, index into published[key], log length after which it is durable)
    let mut durable: Vec<(usize, usize, usize)> = vec![];
    let backend = RecBackend::new();
    let mut classes: Vec<&'static str> = vec![];

    let run: Result<usize, Fail> = engine::real_rt(async {
        let db = redb::Database::builder().create_with_backend(backend.clone()).map_err(|e| ("C39:harness".to_string(), format!("create: {e}")))?;
        let created_at = backend.state.lock().unwrap().log.len();
        if !w.preexisting.is_empty() {
            let tx = db.begin_write().map_err(|e| ("C39:harness".to_string(), format!("{e}")))?;
            {
                let mut packets = tx.open_table(PACKETS).map_err(|e| ("C39:harness".to_string(), format!("{e}")))?;
                let mut index = tx.open_multimap_table(INDEX).map_err(|e| ("C39:harness".to_string(), format!("{e}")))?;
                let mut seen = BTreeSet::new();
                for (p, legacy) in &w.preexisting {
                    let k = p.key as usize % NKEYS;
                    if !seen.insert(k) {
                        continue; // one row per key
                    }
                    let b = build_at(seed, p, crash_ts(p));
                    let mut value = if *legacy { vec![] } else { 1_690_000_000_000_000u64.to_be_bytes().to_vec() };
                    value.extend_from_slice(&b.full);
                    let pk = pk_of(seed, p.key);
                    packets.insert(&pk, value.as_slice()).map_err(|e| ("C39:harness".to_string(), format!("{e}")))?;
                    index.insert(b.ts.to_be_bytes(), pk).map_err(|e| ("C39:harness".to_string(), format!("{e}")))?;
                    published[k].push(b);
                }
            }
            tx.commit().map_err(|e| ("C39:harness".to_string(), format!("{e}")))?;
            let n = backend.state.lock().unwrap().log.len();
            for k in 0..NKEYS {
                if !published[k].is_empty() {
                    durable.push((k, 0, n));
                }
            }
        }
        let mut cfg = dnssrv::quiet_store_config();
        cfg.max_batch_size = (w.batch as usize % 8) + 1;
        cfg.max_batch_time = Duration::from_secs(3600);
        let store = ZoneStoreHandle::open(db, cfg).map_err(|e| ("C39:store-does-not-open".to_string(), format!("{e:?}")))?;
        let _opened_at = backend.state.lock().unwrap().log.len();
        // model of the live store: newest packet per key
        let mut live: Vec<Option<usize>> = published.iter().map(|v| if v.is_empty() { None } else { Some(0) }).collect();
        // acknowledged updates waiting for the next commit event: (key, idx, number of commit events seen at the ack)
        let mut pending: Vec<(usize, usize, usize)> = vec![];
        let r: Result<(), Fail> = async {
            for (i, op) in w.ops.iter().enumerate() {
                match op {
                    WOp::Upsert(p) => {
                        let k = p.key as usize % NKEYS;
                        let b = build_at(seed, p, crash_ts(p));
                        let packet = SignedPacket::from_bytes(&b.full).expect("harness-signed packet verifies");
                        let updated = store.insert(packet).await.map_err(|e| ("C39:insert-failed".to_string(), format!("op {i}: {e:?}")))?;
                        let idx = match published[k].iter().position(|x| x.full == b.full) {
                            Some(j) => j,
                            None => {
                                published[k].push(b);
                                published[k].len() - 1
                            }
                        };
                        let newer = match live[k] {
                            None => true,
                            Some(c) => c != idx && dnssrv::newer((published[k][idx].ts, &published[k][idx].dns), (published[k][c].ts, &published[k][c].dns)),
                        };
                        let same = live[k] == Some(idx);
                        if !same && updated != newer {
                            return Err(("C39:update-report".to_string(), format!("op {i}: insert returned {updated}, model says {newer}")));
                        }
                        if newer {
                            live[k] = Some(idx);
                        }
                        if updated {
                            // Commit events of earlier batches were all raised before this
                            // acknowledgement was sent (a batch begins after the previous commit),
                            // so the next event raised from now on is the commit of this packet's
                            // batch or of a later one.
                            let events_seen = backend.state.lock().unwrap().commits.len();
                            pending.push((k, live[k].unwrap(), events_seen));
                        }
                    }
                    WOp::Get(key) => {
                        let k = *key as usize % NKEYS;
                        let got = store.get_signed_packet(&pk_of(seed, *key)).await.map_err(|e| ("C39:get-failed".to_string(), format!("op {i}: {e:?}")))?;
                        let want = live[k].map(|c| published[k][c].full.clone());
                        if got.as_ref().map(|g| g.as_bytes().to_vec()) != want {
                            return Err(("C39:read-back".to_string(), format!("op {i}: get for key {k} returned ts {:?}, model has ts {:?}", got.map(|g| g.timestamp().as_micros()), live[k].map(|c| published[k][c].ts))));
                        }
                    }
                }
                // attribute pending acknowledgements to the first commit event after they were seen
                let commits = backend.state.lock().unwrap().commits.clone();
                pending.retain(|&(k, idx, events_seen)| match commits.get(events_seen) {
                    Some(&c) => {
                        durable.push((k, idx, c));
                        false
                    }
                    None => true,
                });
            }
            Ok(())
        }
        .await;
        drop(store); // cancels the actor, which commits the open batch, and joins both threads
        let end = backend.state.lock().unwrap().log.len();
        let commits = backend.state.lock().unwrap().commits.clone();
        for (k, idx, events_seen) in pending {
            let c = commits.get(events_seen).copied().unwrap_or(end);
            durable.push((k, idx, c));
        }
        r.map(|_| created_at)
    });
    backend.forget_threads();
    let opened_at = match run {
        Ok(n) => n,
        Err((sig, detail)) => return Outcome::violation(sig, detail),
    };

    let (log, commits) = {
        let s = backend.state.lock().unwrap();
        (s.log.clone(), s.commits.clone())
    };
    // every prefix of the log
    let mut image: Vec<u8> = vec![];
    let mut last_sync = 0usize;
    let mut inside_commit_prefixes = 0u32;
    let mut states_seen: BTreeSet<Vec<u8>> = BTreeSet::new();
    for k in 0..=log.len() {
        if k > 0 {
            apply(&mut image, &log[k - 1]);
            if matches!(log[k - 1], LogOp::Sync) {
                last_sync = k;
            }
        }
        // prefixes before `create_with_backend` returned belong to redb's creation of a brand-new file
        let creating = k < opened_at;
        let variants: u32 = if w.torn != 0 && k > last_sync + 1 { 2 } else { 1 };
        for variant in 0..variants {
            let img = if variant == 0 {
                image.clone()
            } else {
                // lose a subset of the operations after the last sync
                let mut img: Vec<u8> = vec![];
                for (j, op) in log[..k].iter().enumerate() {
                    if j >= last_sync {
                        let mut h = blake3::Hasher::new();
                        h.update(&w.torn.to_le_bytes());
                        h.update(&(k as u64).to_le_bytes());
                        h.update(&(j as u64).to_le_bytes());
                        if h.finalize().as_bytes()[0] & 1 == 1 {
                            continue;
                        }
                    }
                    apply(&mut img, op);
                }
                img
            };
            let what = format!("crash after backend operation {k} of {} (last sync at {last_sync}{})", log.len(), if variant == 1 { ", some later writes lost" } else { "" });
            let (db, st) = match reopen(img) {
                Ok(x) => x,
                Err(e) => {
                    if creating {
                        continue; // a crash while redb creates the file; nothing was ever published
                    }
                    return Outcome::violation("C39:reopen-failed", format!("{what}: {e}"));
                }
            };
            // durable bound per key at this crash point
            let limit = if variant == 0 { k } else { last_sync };
            let mut fp: Vec<u8> = vec![];
            for key in 0..NKEYS {
                let pk = pk_of(seed, key as u8);
                let refs: Vec<&Built> = published[key].iter().collect();
                let stored = match st.packets.get(&pk) {
                    None => None,
                    Some(v) => match row_packet(v, &refs) {
                        Some((_, i)) => Some(i),
                        None => {
                            return Outcome::violation("C39:stored-packet-not-published", format!("{what}: the row of key {key} ({} bytes) is not byte-for-byte any packet published for it", v.len()));
                        }
                    },
                };
                fp.push(stored.map(|i| i as u8 + 1).unwrap_or(0));
                let bound = durable
                    .iter()
                    .filter(|(dk, _, at)| *dk == key && *at <= limit)
                    .map(|(_, idx, _)| *idx)
                    .reduce(|a, b| if dnssrv::newer((published[key][b].ts, &published[key][b].dns), (published[key][a].ts, &published[key][a].dns)) { b } else { a });
                if let Some(b) = bound {
                    let ok = match stored {
                        None => false,
                        Some(s) => s == b || dnssrv::newer((published[key][s].ts, &published[key][s].dns), (published[key][b].ts, &published[key][b].dns)),
                    };
                    if !ok {
                        return Outcome::violation(
                            "C39:committed-packet-lost",
                            format!("{what}: key {key}: a packet with ts {} was acknowledged and its batch committed before this point, the reopened store holds {:?}", published[key][b].ts, stored.map(|s| published[key][s].ts)),
                        );
                    }
                }
            }
            // keys in the table that are not ours
            let ours: BTreeSet<[u8; 32]> = (0..NKEYS).map(|k| pk_of(seed, k as u8)).collect();
            if let Some(k) = st.packets.keys().find(|k| !ours.contains(*k)) {
                return Outcome::violation("C39:stored-packet-not-published", format!("{what}: a row for an unknown key {:?}", &k[..4]));
            }
            // the index is exactly {(timestamp, key)} of the stored packets
            let mut want: BTreeSet<([u8; 8], [u8; 32])> = BTreeSet::new();
            for (pk, v) in &st.packets {
                let key = (0..NKEYS).find(|k| pk_of(seed, *k as u8) == *pk).unwrap();
                let refs: Vec<&Built> = published[key].iter().collect();
                let (_, i) = row_packet(v, &refs).unwrap();
                want.insert((published[key][i].ts.to_be_bytes(), *pk));
            }
            if let Some(m) = want.difference(&st.index).next() {
                return Outcome::violation("C39:index-missing", format!("{what}: stored packet with ts {} has no expiry index entry (index has {} entries)", u64::from_be_bytes(m.0), st.index.len()));
            }
            if let Some(m) = st.index.difference(&want).next() {
                return Outcome::violation("C39:index-dangling", format!("{what}: expiry index entry ts {} refers to no stored packet with that timestamp", u64::from_be_bytes(m.0)));
            }
            // through the store's own read path, on a sample of the crash points and on the last one
            if variant == 0 && (k % 16 == 5 || k == log.len()) {
                let res: Result<(), Fail> = engine::real_rt(async {
                    let store = ZoneStoreHandle::open(db, dnssrv::quiet_store_config()).map_err(|e| ("C39:store-does-not-open".to_string(), format!("{what}: {e:?}")))?;
                    let mut r = Ok(());
                    for key in 0..NKEYS {
                        let pk = pk_of(seed, key as u8);
                        let got = store.get_signed_packet(&pk).await.map_err(|e| ("C39:get-failed".to_string(), format!("{what}: {e:?}")));
                        let got = match got {
                            Ok(g) => g,
                            Err(e) => {
                                r = Err(e);
                                break;
                            }
                        };
                        let refs: Vec<&Built> = published[key].iter().collect();
                        let want = st.packets.get(&pk).and_then(|v| row_packet(v, &refs)).map(|(b, _)| b.to_vec());
                        if got.as_ref().map(|g| g.as_bytes().to_vec()) != want {
                            r = Err(("C39:read-back".to_string(), format!("{what}: key {key}: the reopened store does not return the stored row byte-for-byte")));
                            break;
                        }
                    }
                    drop(store);
                    r
                });
                if let Err((sig, detail)) = res {
                    return Outcome::violation(sig, detail);
                }
            }
            if variant == 0 {
                let inside = k > opened_at && !commits.contains(&k) && k != last_sync && k < log.len();
                if inside {
                    inside_commit_prefixes += 1;
                }
                states_seen.insert(fp);
            }
        }
    }
    REOPENED.fetch_add(log.len() as u64 + 1, std::sync::atomic::Ordering::Relaxed);
    REOPENED_INSIDE.fetch_add(inside_commit_prefixes as u64, std::sync::atomic::Ordering::Relaxed);
    if w.preexisting.iter().any(|(_, l)| *l) {
        classes.push("legacy-row-format");
    }
    if !w.preexisting.is_empty() {
        classes.push("preexisting-rows");
    }
    if commits.len() >= 3 {
        classes.push("many-commits");
    }
    if states_seen.len() >= 4 {
        classes.push(">=4-distinct-recovered-states");
    }
    if w.torn != 0 {
        classes.push("torn-tail");
    }
    classes.push(match log.len() {
        0..=99 => "log<100",
        100..=299 => "log100-299",
        300..=999 => "log300-999",
        _ => "log>=1000",
    });
    Outcome::pass_with(inside_commit_prefixes > 0 && commits.len() >= 2, classes)
}

fn workload_strategy(torn: bool) -> impl Strategy<Value = Workload> {
    let p = || (0u8..3, 0u8..4, 0u8..10).prop_map(|(key, ts, pay)| P { key, ts, pay });
    let op = prop_oneof![5 => p().prop_map(WOp::Upsert), 1 => (0u8..3).prop_map(WOp::Get)];
    (
        any::<u64>(),
        0u8..8,
        proptest::collection::vec((p(), any::<bool>()), 0..=3),
        proptest::collection::vec(op, 10..=60),
        any::<u64>(),
    )
        .prop_map(move |(seed, batch, preexisting, ops, t)| Workload { seed, batch, preexisting, ops, torn: if torn { t | 1 } else { 0 } })
}

// ------------------------------------------------------------------ (b) eviction

/// Offsets from "now" in minutes: clearly expired, clearly fresh (retention is 60 minutes).
const OFFSETS_MIN: [i64; 7] = [-14400, -120, -65, -55, -10, 0, 1440];

#[derive(Debug, Clone, Serialize, Deserialize)]
struct EvictCase {
    seed: u64,
    /// first round of publishes: (key, offset index, payload)
    first: Vec<(u8, u8, u8)>,
    /// second round, after the expired packets of the first were evicted
    second: Vec<(u8, u8, u8)>,
}

fn now_micros() -> u64 {
    // eviction compares packet timestamps with the real clock; the offsets are an hour wide
    std::time::SystemTime::now().duration_since(std::time::UNIX_EPOCH).expect("clock").as_micros() as u64
}

fn run_evict(c: &EvictCase) -> Outcome {
    if c.first.is_empty() {
        return Outcome::Excluded("empty history");
    }
    let base = now_micros();
    let retention = Duration::from_secs(3600);
    let backend = RecBackend::new();
    let mut classes: BTreeSet<&'static str> = BTreeSet::new();
    let mut any_expired = false;
    let mut any_fresh = false;
    // model: per key the newest published packet (None when evicted)
    let mut live: Vec<Option<Built>> = (0..NKEYS).map(|_| None).collect();
    let res: Result<(), Fail> = engine::real_rt(async {
        let db = redb::Database::builder().create_with_backend(backend.clone()).map_err(|e| ("C39:harness".to_string(), format!("create: {e}")))?;
        let mut cfg = dnssrv::quiet_store_config();
        cfg.eviction = retention;
        cfg.eviction_interval = Duration::from_millis(20);
        cfg.max_batch_time = Duration::from_millis(20);
        let store = ZoneStoreHandle::open(db, cfg).map_err(|e| ("C39:store-does-not-open".to_string(), format!("{e:?}")))?;
        let r: Result<(), Fail> = async {
            for (round, ops) in [&c.first, &c.second].into_iter().enumerate() {
                for &(key, off, pay) in ops.iter() {
                    let k = key as usize % NKEYS;
                    let ts = (base as i64 + OFFSETS_MIN[off as usize % OFFSETS_MIN.len()] * 60_000_000) as u64;
                    let b = build_at(c.seed, &P { key, ts: 0, pay }, ts);
                    let packet = SignedPacket::from_bytes(&b.full).expect("harness-signed packet verifies");
                    store.insert(packet).await.map_err(|e| ("C39:insert-failed".to_string(), format!("{e:?}")))?;
                    // the store may already have evicted an expired predecessor; the model only
                    // needs the newest of what is (possibly) still there
                    let newer = match &live[k] {
                        None => true,
                        Some(cur) => dnssrv::newer((b.ts, &b.dns), (cur.ts, &cur.dns)),
                    };
                    if newer {
                        live[k] = Some(b);
                    } else if live[k].as_ref().is_some_and(|cur| expired(cur.ts, base)) {
                        // the older packet may have been accepted if the (expired) newer one was
                        // evicted in between; both are expired, both have to disappear
                        classes.insert("publish-behind-expired");
                    }
                }
                // every expired packet has to disappear; 20 s are 1000 eviction intervals
                let deadline = std::time::Instant::now() + Duration::from_secs(20);
                for k in 0..NKEYS {
                    let Some(cur) = &live[k] else { continue };
                    if !expired(cur.ts, base) {
                        continue;
                    }
                    any_expired = true;
                    loop {
                        let got = store.get_signed_packet(&pk_of(c.seed, k as u8)).await.map_err(|e| ("C39:get-failed".to_string(), format!("{e:?}")))?;
                        if got.is_none() {
                            break;
                        }
                        if std::time::Instant::now() > deadline {
                            return Err(("C39:expired-not-evicted".to_string(), format!("round {round}: key {k}: a packet {} minutes older than now (retention 60 min) is still stored after 20 s of 20 ms eviction intervals", (base - cur.ts) / 60_000_000)));
                        }
                        tokio::time::sleep(Duration::from_millis(10)).await;
                    }
                    live[k] = None;
                }
                // a few more eviction rounds, then the fresh ones must still be there, byte for byte
                tokio::time::sleep(Duration::from_millis(100)).await;
                for k in 0..NKEYS {
                    let got = store.get_signed_packet(&pk_of(c.seed, k as u8)).await.map_err(|e| ("C39:get-failed".to_string(), format!("{e:?}")))?;
                    match (&live[k], got) {
                        (None, None) => {}
                        (Some(cur), Some(g)) if g.as_bytes() == cur.full.as_slice() => {
                            any_fresh = true;
                        }
                        (Some(cur), g) => {
                            return Err(("C39:fresh-packet-evicted".to_string(), format!("round {round}: key {k}: the packet with timestamp now{:+} min (retention 60 min) is not stored any more; store returns ts {:?}", (cur.ts as i64 - base as i64) / 60_000_000, g.map(|g| g.timestamp().as_micros()))));
                        }
                        (None, Some(g)) => {
                            return Err(("C39:expired-not-evicted".to_string(), format!("round {round}: key {k}: evicted packet is back: ts {}", g.timestamp().as_micros())));
                        }
                    }
                }
            }
            Ok(())
        }
        .await;
        drop(store);
        r
    });
    backend.forget_threads();
    if let Err((sig, detail)) = res {
        return Outcome::violation(sig, detail);
    }
    // tables after shutdown: exactly the fresh packets, index consistent
    let image = backend.state.lock().unwrap().data.clone();
    let st = match reopen(image) {
        Ok((_, st)) => st,
        Err(e) => return Outcome::violation("C39:reopen-failed", format!("after eviction scenario: {e}")),
    };
    let mut want_index = BTreeSet::new();
    for k in 0..NKEYS {
        let pk = pk_of(c.seed, k as u8);
        match (&live[k], st.packets.get(&pk)) {
            (None, None) => {}
            (Some(cur), Some(v)) if v.len() >= 8 && v[8..] == cur.full[..] => {
                want_index.insert((cur.ts.to_be_bytes(), pk));
            }
            (l, s) => {
                return Outcome::violation("C39:table-after-eviction", format!("key {k}: model has packet: {}, table has row: {}", l.is_some(), s.is_some()));
            }
        }
    }
    if st.index != want_index {
        return Outcome::violation(
            if st.index.is_superset(&want_index) { "C39:index-dangling" } else { "C39:index-missing" },
            format!("after eviction the expiry index has {} entries, the stored packets need {}", st.index.len(), want_index.len()),
        );
    }
    if any_expired {
        classes.insert("expired-evicted");
    }
    if any_fresh {
        classes.insert("fresh-kept");
    }
    if !c.second.is_empty() {
        classes.insert("republish-after-eviction");
    }
    Outcome::pass_with(any_expired && any_fresh, classes.into_iter().collect())
}

fn expired(ts: u64, base: u64) -> bool {
    // offsets are at least 5 minutes away from the cut-off
    ts + 3600 * 1_000_000 < base
}

fn evict_strategy() -> impl Strategy<Value = EvictCase> {
    let op = || (0u8..3, 0u8..7, 0u8..10);
    (any::<u64>(), proptest::collection::vec(op(), 1..=6), proptest::collection::vec(op(), 0..=4)).prop_map(|(seed, first, second)| EvictCase { seed, first, second })
}

pub fn run(ctx: &Ctx) {
    ctx.rule("(a) workloads of 10..60 upserts/gets over 3 keys (timestamps from a pool of 4, equal timestamps with different payloads), batch size 1..8, optionally rows already in the tables (current and legacy value format) on a recording storage backend; EVERY prefix of the backend's write/set_len/sync log is reopened with a fresh redb database and both tables are read directly: each row byte-for-byte a packet published for its key and at least as recent as the newest acknowledged update whose batch commit was reported before the crash point, index == {(timestamp,key)} of the rows; a sample of crash points is also read through the store; thorough: also with a subset of the writes after the last sync lost. (b) publish histories with timestamps now-10d..now+1d (retention 60 min, eviction every 20 ms): every expired packet disappears within 20 s (1000 intervals), fresh ones stay byte-for-byte, re-publishes after eviction are kept, tables and index consistent after shutdown. non-trivial (a) = crash points inside a commit with >=2 commits, (b) = both an expired and a fresh packet");
    ctx.assume("crash model: the operations before the crash point reached the medium in order (process crash); the torn variant drops writes after the last sync only. A crash while redb creates a brand-new file may leave a file redb refuses; nothing was published then. Eviction compares with the real clock; offsets keep 5 minutes distance from the cut-off.");
    let thorough = ctx.tier == engine::Tier::Thorough;
    if dnssrv::part_enabled("crash_points") {
        ctx.explore("crash_points", ExploreOpts::new(ctx.tier.pick(40, 400)).workers(8).shrink(30), || workload_strategy(false), run_workload);
    }
    if thorough && dnssrv::part_enabled("crash_points_torn") {
        ctx.explore("crash_points_torn", ExploreOpts::new(120).workers(8).shrink(30), || workload_strategy(true), run_workload);
    }
    ctx.extra("crash_points_reopened", serde_json::json!(REOPENED.load(std::sync::atomic::Ordering::Relaxed)));
    ctx.extra("crash_points_inside_a_commit", serde_json::json!(REOPENED_INSIDE.load(std::sync::atomic::Ordering::Relaxed)));
    if dnssrv::part_enabled("eviction") {
        // few shrink steps: a missed eviction costs the whole detector bound per evaluation
        ctx.explore("eviction", ExploreOpts::new(ctx.tier.pick(200, 2000)).workers(8).shrink(8), evict_strategy, run_evict);
    }
}
