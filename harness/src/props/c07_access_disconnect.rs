//! C07 — access control sees exactly one disconnect per admitted relay connection.
//!
//! Level: fault_enumeration.  Part (a): every I/O failure point of the handshake, the admission
//! exchange and the first operations of the relay phase, over an in-memory stream with a
//! fault plan, combined with every disconnection cause.  Part (b): the real `Server` over
//! loopback TCP with raw clients that abort at generated points.

use std::{
    collections::HashSet,
    sync::{Arc, Mutex},
    time::Duration,
};

use ed25519_dalek::Signer;
use http::HeaderValue;
use iroh_base::EndpointId;
use iroh_relay::{
    http::ProtocolVersion,
    protos::handshake,
    server::{
        Access, AccessControl, ClientRequest, ConnectionId, DynAccessControl,
        client::Config, streams::RelayedStream,
    },
};
use proptest::prelude::*;
use serde::{Deserialize, Serialize};

use crate::{
    engine::{Ctx, ExploreOpts, Outcome, paused_rt},
    support::{
        gens::Payload,
        memrelay::{self, ClientEnd, Dgram, Fault, FaultKind, FromRelay, MemIo, Relay},
    },
};

#[derive(Debug, Clone, PartialEq, Eq)]
pub enum Ev {
    Connect { ep: EndpointId, conn: ConnectionId, allow: bool },
    Disconnect { ep: EndpointId, conn: ConnectionId },
}

/// Access control that records every callback and decides by a table keyed on endpoint id.
#[derive(Debug)]
pub struct Recorder {
    pub deny: Mutex<HashSet<EndpointId>>,
    pub events: Mutex<Vec<Ev>>,
}

impl Recorder {
    pub fn new() -> Arc<Self> {
        Arc::new(Self { deny: Mutex::new(HashSet::new()), events: Mutex::new(vec![]) })
    }
}

impl AccessControl for Recorder {
    async fn on_connect(&self, request: &ClientRequest) -> Access {
        let allow = !self.deny.lock().unwrap().contains(&request.endpoint_id());
        self.events.lock().unwrap().push(Ev::Connect { ep: request.endpoint_id(), conn: request.connection_id(), allow });
        if allow { Access::Allow } else { Access::Deny { reason: Some("denied by policy".into()) } }
    }
    fn on_disconnect(&self, endpoint_id: EndpointId, connection_id: ConnectionId) {
        self.events.lock().unwrap().push(Ev::Disconnect { ep: endpoint_id, conn: connection_id });
    }
}

static ALL_IDS: Mutex<Option<HashSet<ConnectionId>>> = Mutex::new(None);

/// The invariant over a finished history.  `registry_probe(ep, conn)` must return whether the
/// relay still has that connection registered.
pub fn check_events(events: &[Ev], prop: &str) -> Result<(usize, usize), (String, String)> {
    let mut admitted = 0;
    let mut denied = 0;
    let mut seen = HashSet::new();
    for (i, e) in events.iter().enumerate() {
        match e {
            Ev::Connect { ep, conn, allow } => {
                if !seen.insert(*conn) {
                    return Err((format!("{prop}:connection-id-reused"), format!("connection id {conn} passed to on_connect twice")));
                }
                {
                    let mut g = ALL_IDS.lock().unwrap();
                    if !g.get_or_insert_with(HashSet::new).insert(*conn) {
                        return Err((format!("{prop}:connection-id-reused"), format!("connection id {conn} was already used by an earlier connection of this process")));
                    }
                }
                let n = events.iter().enumerate().filter(|(j, d)| matches!(d, Ev::Disconnect { ep: e2, conn: c2 } if c2 == conn && e2 == ep) && *j > i).count();
                let before = events.iter().enumerate().filter(|(j, d)| matches!(d, Ev::Disconnect { conn: c2, .. } if c2 == conn) && *j < i).count();
                if before > 0 {
                    return Err((format!("{prop}:disconnect-before-connect"), format!("on_disconnect for {conn} before its on_connect")));
                }
                if *allow {
                    admitted += 1;
                    if n == 0 {
                        return Err((format!("{prop}:missing-disconnect"), format!("admitted connection {conn} of {} never reported as disconnected; events: {events:?}", ep.fmt_short())));
                    }
                    if n > 1 {
                        return Err((format!("{prop}:duplicate-disconnect"), format!("admitted connection {conn} reported disconnected {n} times")));
                    }
                } else {
                    denied += 1;
                    if n > 0 {
                        return Err((format!("{prop}:disconnect-for-denied"), format!("denied connection {conn} produced a disconnect notification")));
                    }
                }
            }
            Ev::Disconnect { ep, conn } => {
                if !events.iter().any(|c| matches!(c, Ev::Connect { ep: e2, conn: c2, .. } if c2 == conn && e2 == ep)) {
                    return Err((format!("{prop}:disconnect-unknown"), format!("on_disconnect({}, {conn}) without a matching on_connect", ep.fmt_short())));
                }
            }
        }
    }
    Ok((admitted, denied))
}

// ------------------------------------------------------------------------------------------
// part (a)
// ------------------------------------------------------------------------------------------

#[derive(Debug, Clone, Copy, Serialize, Deserialize, PartialEq, Eq, Hash)]
pub enum Cause {
    ClientEof,
    ClientErr,
    AdminByEndpoint,
    AdminByConn,
    /// a second connection for the same id registers, then the first one closes
    DisplacedThenOldCloses,
    /// a second connection registers and closes again, then the first closes
    DisplacedThenNewCloses,
    ServerShutdown,
    /// nothing: the registry is shut down at quiescence
    None,
}

pub const CAUSES: [Cause; 8] = [Cause::ClientEof, Cause::ClientErr, Cause::AdminByEndpoint, Cause::AdminByConn, Cause::DisplacedThenOldCloses, Cause::DisplacedThenNewCloses, Cause::ServerShutdown, Cause::None];

#[derive(Debug, Clone, Serialize, Deserialize)]
pub struct FaultCase {
    pub fault: Option<Fault>,
    pub km_path: bool,
    pub allow: bool,
    pub cause: Cause,
    pub v2: bool,
}

/// The glue of `Inner::accept` (public API only): authenticate, authorize, register.
async fn accept(mut io: MemIo, header: Option<HeaderValue>, access: Arc<dyn DynAccessControl>, relay: &Relay, version: ProtocolVersion) -> Result<(EndpointId, ConnectionId), String> {
    let auth = handshake::serverside(&mut io, header).await.map_err(|e| format!("{e:#}"))?;
    let parts = http::Request::builder().uri("/relay").body(()).unwrap().into_parts().0;
    let request = ClientRequest::new(auth.client_key, version, parts);
    let guard = auth.authorize_with(&request, &access, &mut io).await.map_err(|e| format!("{e:#}"))?;
    let stream = RelayedStream::new(io, relay.key_cache.clone());
    let config = Config::new(guard, stream, version);
    relay.clients.register(config, relay.metrics.clone());
    Ok((request.endpoint_id(), request.connection_id()))
}

async fn recv_t(end: &mut ClientEnd) -> Option<FromRelay> {
    tokio::time::timeout(Duration::from_secs(2), end.recv()).await.ok().flatten()
}

/// Honest client: answers the challenge if one comes, returns whether it was confirmed.
async fn honest_handshake(end: &mut ClientEnd, key: u8) -> bool {
    let sk = ed25519_dalek::SigningKey::from_bytes(&memrelay::pool_key(key).to_bytes());
    let mut f = recv_t(end).await;
    if let Some(FromRelay::Challenge(ch)) = f {
        let sig = sk.sign(&memrelay::challenge_message(&ch)).to_bytes();
        end.send(memrelay::encode_client_auth(&sk.verifying_key().to_bytes(), &sig));
        f = recv_t(end).await;
    }
    matches!(f, Some(FromRelay::Confirms))
}

fn km_header(key: u8, secret: &[u8; 32]) -> HeaderValue {
    let sk = ed25519_dalek::SigningKey::from_bytes(&memrelay::pool_key(key).to_bytes());
    let pk = sk.verifying_key().to_bytes();
    let km = memrelay::export_km(secret, memrelay::DOMAIN_SEP_TLS_EXPORT_LABEL, Some(&pk));
    let sig = sk.sign(&km[..16]).to_bytes();
    HeaderValue::from_str(&memrelay::encode_km_header(&pk, &sig, km[16..].try_into().unwrap())).unwrap()
}

const K: u8 = 0;
const PEER: u8 = 1;

pub fn run_fault_case(c: &FaultCase) -> Outcome {
    let c = c.clone();
    paused_rt(async move {
        let relay = Relay::new();
        let rec = Recorder::new();
        if !c.allow { rec.deny.lock().unwrap().insert(memrelay::pool_key(K).public()); }
        let access: Arc<dyn DynAccessControl> = rec.clone();
        let version = if c.v2 { ProtocolVersion::V2 } else { ProtocolVersion::V1 };
        let secret = [0x33u8; 32];
        let (peer_end, _) = relay.connect(memrelay::pool_key(PEER).public(), ProtocolVersion::V2, None);

        let (io, mut end) = memrelay::mem_pair(Some(secret), c.fault);
        let header = c.km_path.then(|| km_header(K, &secret));
        let relay = Arc::new(relay);
        let r2 = relay.clone();
        let a2 = access.clone();
        let server = tokio::spawn(async move { accept(io, header, a2, &r2, version).await });
        let confirmed = honest_handshake(&mut end, K).await;
        let accepted = server.await.expect("accept task");
        let mut fault_after_admission = false;
        let mut second: Option<ClientEnd> = None;
        if let Ok((ep, conn)) = &accepted {
            // relay phase: a little traffic so that later fault indices are reached
            if confirmed {
                end.send(memrelay::encode_ping([1; 8]));
                let _ = recv_t(&mut end).await;
                let d = Dgram { ecn: 0, seg: None, contents: Payload { len: 20, fill: 3 } };
                peer_end.send(memrelay::encode_c2r_datagram(ep.as_bytes(), &d, None));
                let _ = recv_t(&mut end).await;
                end.send(memrelay::encode_c2r_datagram(memrelay::pool_key(PEER).public().as_bytes(), &d, None));
                memrelay::settle().await;
            }
            match c.cause {
                Cause::ClientEof => end.close_write(),
                Cause::ClientErr => { end.send_error(); end.close_write(); }
                Cause::AdminByEndpoint => { relay.clients.disconnect(*ep, None); }
                Cause::AdminByConn => { relay.clients.disconnect(*ep, Some(*conn)); }
                Cause::DisplacedThenOldCloses | Cause::DisplacedThenNewCloses => {
                    let (io2, mut end2) = memrelay::mem_pair(None, None);
                    let r3 = relay.clone();
                    let a3 = access.clone();
                    let s2 = tokio::spawn(async move { accept(io2, None, a3, &r3, ProtocolVersion::V2).await });
                    let _ = honest_handshake(&mut end2, K).await;
                    let _ = s2.await;
                    memrelay::settle().await;
                    if c.cause == Cause::DisplacedThenNewCloses {
                        end2.close_write();
                        memrelay::settle().await;
                        end.close_write();
                    } else {
                        end.close_write();
                        memrelay::settle().await;
                        second = Some(end2);
                    }
                }
                Cause::ServerShutdown => relay.clients.shutdown().await,
                Cause::None => {}
            }
            fault_after_admission = c.fault.is_some();
        }
        for _ in 0..3 { memrelay::settle().await; }
        // a denied or failed connection must not be in the registry
        let events_now = rec.events.lock().unwrap().clone();
        for e in &events_now {
            if let Ev::Connect { ep, conn, allow: false } = e {
                if relay.clients.disconnect(*ep, Some(*conn)) {
                    return Outcome::violation("C07:denied-registered", format!("denied connection {conn} is registered"));
                }
            }
        }
        // quiescence
        drop(second);
        drop(end);
        drop(peer_end);
        relay.clients.shutdown().await;
        for _ in 0..3 { memrelay::settle().await; }
        let events = rec.events.lock().unwrap().clone();
        match check_events(&events, "C07") {
            Err((sig, detail)) => Outcome::violation(sig, format!("{detail} [case {c:?}, accept result {accepted:?}]")),
            Ok((admitted, denied)) => {
                let mut classes = vec![];
                if admitted > 0 { classes.push("admitted"); }
                if denied > 0 { classes.push("denied"); }
                if accepted.is_err() { classes.push("setup-failed"); }
                if accepted.is_err() && admitted > 0 { classes.push("admitted-then-setup-failed"); }
                Outcome::pass_with(c.fault.is_some() && admitted > 0 || fault_after_admission, classes)
            }
        }
    })
}

pub fn all_fault_cases(max_at: u32) -> Vec<FaultCase> {
    let mut v = vec![];
    let kinds = [FaultKind::ReadErr, FaultKind::ReadEof, FaultKind::SendErr, FaultKind::FlushErr];
    for km_path in [false, true] {
        for allow in [true, false] {
            for v2 in [true, false] {
                for cause in CAUSES {
                    // without a fault, every cause; with a fault, every (kind, index)
                    v.push(FaultCase { fault: None, km_path, allow, cause, v2 });
                }
                for kind in kinds {
                    for at in 0..max_at {
                        for cause in [Cause::ClientEof, Cause::AdminByConn, Cause::DisplacedThenOldCloses, Cause::None] {
                            v.push(FaultCase { fault: Some(Fault { kind, at }), km_path, allow, cause, v2 });
                        }
                    }
                }
            }
        }
    }
    v
}

fn random_fault_case() -> impl Strategy<Value = FaultCase> {
    let kind = prop_oneof![Just(FaultKind::ReadErr), Just(FaultKind::ReadEof), Just(FaultKind::SendErr), Just(FaultKind::FlushErr)];
    (proptest::option::weighted(0.9, (kind, 0u32..40)), any::<bool>(), prop::bool::weighted(0.8), 0usize..CAUSES.len(), any::<bool>())
        .prop_map(|(f, km_path, allow, cause, v2)| FaultCase { fault: f.map(|(kind, at)| Fault { kind, at }), km_path, allow, cause: CAUSES[cause], v2 })
}

pub fn run(ctx: &Ctx) {
    ctx.rule("(a) exhaustive: fault kind {read error, read eof, send error, flush error} x operation index 0..12 (the honest exchange plus the first relay-phase operations) x {key-material, challenge} x {allow, deny} x {V1, V2} x disconnection cause {client eof/error, admin disconnect by endpoint/by connection id, displaced then old closes, displaced then new closes, registry shutdown, none}; glue authenticate->authorize_with->Config::new->register replicated from Inner::accept with public API; then random (kind, index<40). (b) real Server over loopback TCP, see part tcp. Oracle at quiescence over the recorded access-control callbacks: every admitted (endpoint id, connection id) has exactly one later on_disconnect with the same pair, denied ones none and are not registered, connection ids pairwise distinct (also across all cases of the process); non-trivial = a fault that hit a connection the policy had admitted");
    ctx.assume("MemIo fault indices count read/send/flush calls on the server side of the stream");
    let max_at = ctx.tier.pick(12, 24);
    ctx.enumerate_par("faults", all_fault_cases(max_at), 8, run_fault_case);
    let k = ctx.tier.pick(1, 10);
    ctx.explore("faults_random", ExploreOpts::new(1_000 * k).shrink(200), random_fault_case, run_fault_case);
    super::c07_tcp::run_tcp(ctx);
}
