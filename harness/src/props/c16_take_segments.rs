//! C16 — splitting a relay datagram batch partitions it exactly.

use std::num::NonZeroU16;

use bytes::Bytes;
use iroh_relay::protos::relay::Datagrams;
use proptest::prelude::*;
use serde::{Deserialize, Serialize};

use crate::{
    check,
    engine::{Ctx, ExploreOpts, Outcome},
    support::gens::{self, Payload},
};

#[derive(Debug, Clone, Serialize, Deserialize)]
struct Case {
    contents: Payload,
    segment_size: Option<u16>,
    ecn: u8,
    /// the sequence of `n` values; the last one repeats until the batch is empty
    ns: Vec<u64>,
}

fn strategy() -> impl Strategy<Value = Case> + Clone {
    let contents = prop_oneof![
        6 => (0usize..200, any::<u8>()).prop_map(|(len, fill)| Payload { len, fill }),
        3 => gens::payload(&[1200, 1472, 65535], 70_000),
    ];
    (contents, any::<u8>(), 0u8..4, proptest::collection::vec(prop_oneof![6 => 1u64..9, 1 => 1u64..200, 1 => 1u64..=(1u64 << 32)], 1..8), 0u8..8, any::<u16>())
        .prop_map(|(contents, _f, ecn, ns, kind, raw)| {
            let len = contents.len;
            let segment_size = match kind {
                0 => None,
                1 => Some(raw.max(1)),
                2 => Some((len as u64).clamp(1, 65535) as u16),
                3 => Some((len as u64 + 1).clamp(1, 65535) as u16),
                4 => Some((len as u64).saturating_sub(1).clamp(1, 65535) as u16),
                // a size that divides or nearly divides the length
                5 => Some(((len / (raw as usize % 7 + 2)).clamp(1, 65535)) as u16),
                _ => Some((raw % 64).max(1)),
            };
            Case { contents, segment_size, ecn, ns }
        })
}

fn cut(contents: &[u8], seg: Option<NonZeroU16>) -> Vec<Vec<u8>> {
    if contents.is_empty() {
        return vec![];
    }
    match seg {
        None => vec![contents.to_vec()],
        Some(s) => contents.chunks(u16::from(s) as usize).map(|c| c.to_vec()).collect(),
    }
}

fn run_case(c: &Case) -> Outcome {
    let contents = c.contents.bytes();
    let seg = c.segment_size.and_then(NonZeroU16::new);
    let ecn = noq_ecn(c.ecn);
    let reference = cut(&contents, seg);
    let mut d = Datagrams { ecn, segment_size: seg, contents: Bytes::from(contents.clone()) };
    let mut got: Vec<Vec<u8>> = vec![];
    let mut steps = 0usize;
    let mut short_takes = false;
    while !d.contents.is_empty() {
        let n = c.ns[steps.min(c.ns.len() - 1)];
        steps += 1;
        check!(steps <= reference.len() + 1, "C16:no-progress", "loop did not terminate after {steps} takes");
        let before = d.contents.len();
        let t = d.take_segments(n as usize);
        check!(t.ecn == ecn && d.ecn == ecn, "C16:ecn-lost", "ecn changed: taken {:?} rest {:?}", t.ecn, d.ecn);
        check!(t.contents.len() + d.contents.len() == before, "C16:bytes-lost", "lengths do not add up");
        let parts = cut(&t.contents, t.segment_size);
        check!(parts.len() as u64 <= n, "C16:too-many-segments", "taken batch has {} datagrams for n={n}", parts.len());
        check!(t.segment_size.is_some() == (parts.len() > 1), "C16:segment-size-flag", "taken batch with {} datagrams has segment_size {:?}", parts.len(), t.segment_size);
        check!(!t.contents.is_empty(), "C16:no-progress", "empty take for n={n}");
        if !d.contents.is_empty() { short_takes = true; }
        got.extend(parts);
    }
    check!(got == reference, "C16:partition", "datagrams differ: got {} pieces, reference {} (lens got {:?} ref {:?})",
        got.len(), reference.len(), got.iter().map(|g| g.len()).take(12).collect::<Vec<_>>(), reference.iter().map(|g| g.len()).take(12).collect::<Vec<_>>());
    let short_last = reference.len() >= 3 && reference.last().map(|l| l.len()) != reference.first().map(|l| l.len());
    let mut classes = vec![];
    if short_last { classes.push("short-last"); }
    if short_takes { classes.push("multi-take"); }
    if seg.is_some_and(|s| u16::from(s) as usize > contents.len()) { classes.push("seg>len"); }
    Outcome::pass_with(reference.len() >= 3 && short_takes, classes)
}

fn noq_ecn(b: u8) -> Option<noq::EcnCodepoint> {
    noq::EcnCodepoint::from_bits(b)
}

pub fn run(ctx: &Ctx) {
    ctx.rule("contents 0..70000 bytes (dense small), segment size None/1..65535 incl. > length and non-dividing, ecn 0..3, a sequence of n>=1 values applied until empty; reference = contents cut every segment_size bytes; non-trivial = >=3 datagrams taken in more than one step");
    ctx.assume("n == 0 is outside the property's domain (n >= 1)");
    let k = ctx.tier.pick(1, 10);
    ctx.explore("take_segments", ExploreOpts::new(200_000 * k), strategy, run_case);
}
