//! C19 — outgoing datagrams go out the transport their address designates.
//!
//! A real `TransportsSender` is built (hook) over IP sockets bound on loopback through the
//! production `IpTransports::bind`, relay transports whose send queue the harness reads, and
//! recording custom senders.
//!
//! * `ip_selection`: which bound socket a datagram leaves on, observed end to end (the UDP
//!   source port seen by a loopback listener identifies the socket);
//! * `predicates`: `ip::Config::is_valid_send_addr` / `is_valid_default_addr` for what
//!   loopback cannot express (IPv6 scopes, family mismatches, /0 and /128);
//! * `synthetic`: relay and custom paths reach exactly their sender, unknown ones are dropped.

use std::{
    io,
    net::{IpAddr, Ipv4Addr, Ipv6Addr, SocketAddr, SocketAddrV4, SocketAddrV6, UdpSocket},
    sync::{Arc, Mutex},
    task::{Context, Poll},
    time::Duration,
};

use iroh::verif::socket::{
    CustomSender, FourTuple, Transmit, VerifIpConfig, VerifRelayTransport, VerifTransportsSender,
};
use iroh_base::{CustomAddr, EndpointId, RelayUrl, SecretKey};
use proptest::prelude::*;
use serde::{Deserialize, Serialize};

use crate::{
    check,
    engine::{self, Ctx, ExploreOpts, Outcome},
    support::gens::Payload,
};

// ---------------------------------------------------------------------------------------
// reference helpers
// ---------------------------------------------------------------------------------------

fn v4_contains(net_addr: Ipv4Addr, prefix: u8, dst: Ipv4Addr) -> bool {
    if prefix == 0 {
        return true;
    }
    let mask = u32::MAX << (32 - prefix as u32);
    (u32::from(net_addr) & mask) == (u32::from(dst) & mask)
}

fn v6_contains(net_addr: Ipv6Addr, prefix: u8, dst: Ipv6Addr) -> bool {
    if prefix == 0 {
        return true;
    }
    let mask = u128::MAX << (128 - prefix as u32);
    (u128::from(net_addr) & mask) == (u128::from(dst) & mask)
}

/// fe80::/10
fn is_link_local_v6(a: Ipv6Addr) -> bool {
    a.octets()[0] == 0xfe && (a.octets()[1] & 0xc0) == 0x80
}

/// Reference for "this socket may carry the datagram on its own merits" (not as default route).
fn ref_valid_send(cfg: &VerifIpConfig, src: Option<IpAddr>, dst: SocketAddr) -> bool {
    match src {
        Some(src) => match (cfg.addr.ip(), src) {
            (IpAddr::V4(b), IpAddr::V4(s)) => b.is_unspecified() || b == s,
            (IpAddr::V6(b), IpAddr::V6(s)) => b.is_unspecified() || b == s,
            _ => false,
        },
        None => match (cfg.addr, dst) {
            (SocketAddr::V4(b), SocketAddr::V4(d)) => v4_contains(*b.ip(), cfg.prefix_len, *d.ip()),
            (SocketAddr::V6(b), SocketAddr::V6(d)) => {
                v6_contains(*b.ip(), cfg.prefix_len, *d.ip()) || (is_link_local_v6(*d.ip()) && b.scope_id() == d.scope_id())
            }
            _ => false,
        },
    }
}

fn ref_valid_default(cfg: &VerifIpConfig, src: Option<IpAddr>, dst: SocketAddr) -> bool {
    let fam_v4 = match src {
        Some(s) => s.is_ipv4(),
        None => dst.is_ipv4(),
    };
    cfg.is_default && cfg.addr.is_ipv4() == fam_v4
}

// ---------------------------------------------------------------------------------------
// part ip_selection
// ---------------------------------------------------------------------------------------

/// Hosts share prefixes of various lengths so that several sockets' subnets contain a
/// destination.  Index 0 is the wildcard.
const V4_HOSTS: &[[u8; 4]] = &[
    [0, 0, 0, 0],
    [127, 0, 0, 1],
    [127, 0, 0, 2],
    [127, 0, 0, 130],
    [127, 0, 1, 1],
    [127, 0, 200, 9],
    [127, 1, 0, 1],
    [127, 64, 0, 1],
    [127, 128, 0, 1],
    [127, 255, 255, 254],
];
const V4_PREFIXES: &[u8] = &[0, 1, 8, 9, 10, 16, 17, 24, 25, 30, 31, 32];

#[derive(Debug, Clone, Serialize, Deserialize)]
struct SockSpec {
    /// index into V4_HOSTS (v4) or 0 = `::`, otherwise `::1` (v6)
    host: u8,
    prefix: u8,
    default: bool,
}

#[derive(Debug, Clone, Serialize, Deserialize)]
enum SrcSpec {
    None,
    /// the bound address of socket i (if that is the wildcard: 127.0.0.1 / ::1)
    OfSocket(u8),
    /// an address no socket is bound to (but local, so the kernel accepts it)
    Unbound(u8),
    /// an address of the other family
    OtherFamily,
}

#[derive(Debug, Clone, Serialize, Deserialize)]
struct SelCase {
    v6: bool,
    socks: Vec<SockSpec>,
    /// destination: index into V4_HOSTS[1..] for v4; always ::1 for v6
    dst: u8,
    src: SrcSpec,
    payload: Payload,
}

fn sel_strategy(v6_ok: bool) -> impl Strategy<Value = SelCase> {
    let v6 = if v6_ok { prop_oneof![4 => Just(false), 1 => Just(true)].boxed() } else { Just(false).boxed() };
    v6.prop_flat_map(|v6| {
        let sock = if v6 {
            (0u8..2, prop_oneof![Just(0u8), Just(1), Just(64), Just(127), Just(128)], Just(false))
                .prop_map(|(host, prefix, default)| SockSpec { host, prefix, default })
                .boxed()
        } else {
            (
                prop_oneof![1 => Just(0u8), 6 => 1u8..V4_HOSTS.len() as u8],
                prop_oneof![1 => prop::sample::select(vec![0u8, 1, 8, 9, 10]), 1 => prop::sample::select(V4_PREFIXES.to_vec())],
                Just(false),
            )
                .prop_map(|(host, prefix, default)| SockSpec { host, prefix, default })
                .boxed()
        };
        let src = prop_oneof![
            4 => Just(SrcSpec::None),
            3 => (0u8..4).prop_map(SrcSpec::OfSocket),
            2 => (0u8..8).prop_map(SrcSpec::Unbound),
            1 => Just(SrcSpec::OtherFamily),
        ];
        (
            prop_oneof![1 => 1usize..=1, 2 => 2usize..=2, 3 => 3usize..=3, 3 => 4usize..=4].prop_flat_map(move |n| proptest::collection::vec(sock.clone(), n..=n)),
            prop_oneof![2 => Just(None), 3 => (0u8..4).prop_map(Some)],
            1u8..V4_HOSTS.len() as u8,
            src,
            (1usize..64, any::<u8>()),
        )
            .prop_map(move |(mut socks, default_idx, dst, src, (len, fill))| {
                if let Some(i) = default_idx {
                    let n = socks.len();
                    socks[i as usize % n].default = true;
                }
                SelCase { v6, socks, dst, src, payload: Payload { len, fill } }
            })
    })
}

fn sock_addr(v6: bool, s: &SockSpec) -> SocketAddr {
    if v6 {
        let ip = if s.host == 0 { Ipv6Addr::UNSPECIFIED } else { Ipv6Addr::LOCALHOST };
        SocketAddr::V6(SocketAddrV6::new(ip, 0, 0, 0))
    } else {
        let h = V4_HOSTS[s.host as usize % V4_HOSTS.len()];
        SocketAddr::V4(SocketAddrV4::new(Ipv4Addr::from(h), 0))
    }
}

async fn send_once(sender: &mut VerifTransportsSender, path: &FourTuple, contents: &[u8], seg: Option<usize>) -> io::Result<()> {
    std::future::poll_fn(|cx: &mut Context| sender.poll_send(cx, path, contents, seg)).await
}

fn run_sel(c: &SelCase) -> Outcome {
    if c.socks.is_empty() || c.socks.len() > 4 || c.socks.iter().filter(|s| s.default).count() > 1 {
        return Outcome::Excluded("socket set outside the domain");
    }
    let max_prefix = if c.v6 { 128 } else { 32 };
    if c.socks.iter().any(|s| s.prefix > max_prefix) || c.payload.len == 0 {
        return Outcome::Excluded("invalid prefix / empty payload");
    }
    let configs: Vec<VerifIpConfig> = c
        .socks
        .iter()
        .map(|s| VerifIpConfig { addr: sock_addr(c.v6, s), prefix_len: s.prefix, is_required: true, is_default: s.default })
        .collect();
    // destination listener
    let dst_ip: IpAddr = if c.v6 {
        IpAddr::V6(Ipv6Addr::LOCALHOST)
    } else {
        let i = (c.dst as usize).clamp(1, V4_HOSTS.len() - 1);
        IpAddr::V4(Ipv4Addr::from(V4_HOSTS[i]))
    };
    let listener = match UdpSocket::bind(SocketAddr::new(dst_ip, 0)) {
        Ok(l) => l,
        Err(_) => return Outcome::Excluded("cannot bind the destination listener"),
    };
    let dst = listener.local_addr().expect("local addr");
    let bound_ips: Vec<IpAddr> = configs.iter().map(|c| c.addr.ip()).collect();
    let src: Option<IpAddr> = match &c.src {
        SrcSpec::None => None,
        SrcSpec::OfSocket(i) => {
            let ip = bound_ips[*i as usize % bound_ips.len()];
            Some(if ip.is_unspecified() {
                if c.v6 { IpAddr::V6(Ipv6Addr::LOCALHOST) } else { IpAddr::V4(Ipv4Addr::LOCALHOST) }
            } else {
                ip
            })
        }
        SrcSpec::Unbound(k) => {
            if c.v6 {
                // the only local IPv6 address is ::1; use it only if no socket is bound to it
                if bound_ips.contains(&IpAddr::V6(Ipv6Addr::LOCALHOST)) {
                    return Outcome::Excluded("no unbound local IPv6 address available");
                }
                Some(IpAddr::V6(Ipv6Addr::LOCALHOST))
            } else {
                let ip = IpAddr::V4(Ipv4Addr::new(127, 77, 7, 1 + *k));
                Some(ip)
            }
        }
        SrcSpec::OtherFamily => Some(if c.v6 { IpAddr::V4(Ipv4Addr::LOCALHOST) } else { IpAddr::V6(Ipv6Addr::LOCALHOST) }),
    };

    // ---- reference decision ----
    let family_ok = |cfg: &VerifIpConfig| cfg.addr.is_ipv4() == dst.is_ipv4();
    let own: Vec<usize> = (0..configs.len()).filter(|&i| family_ok(&configs[i]) && ref_valid_send(&configs[i], src, dst)).collect();
    #[derive(Debug, PartialEq)]
    enum Expect {
        /// any of these sockets (all equally good by the statement)
        OneOf(Vec<usize>),
        Dropped,
    }
    let expect = if !own.is_empty() {
        if src.is_some() {
            Expect::OneOf(own.clone())
        } else {
            let best = own.iter().map(|&i| configs[i].prefix_len).max().unwrap();
            Expect::OneOf(own.iter().copied().filter(|&i| configs[i].prefix_len == best).collect())
        }
    } else if let Some(d) = (0..configs.len()).find(|&i| family_ok(&configs[i]) && ref_valid_default(&configs[i], src, dst)) {
        Expect::OneOf(vec![d])
    } else {
        Expect::Dropped
    };

    let contents = c.payload.bytes();
    let result: Result<Outcome, Outcome> = engine::real_rt(async {
        let mut sender = match VerifTransportsSender::new(&configs, &[], vec![]) {
            Ok(s) => s,
            Err(e) => return Err(Outcome::violation("C19:bind-failed", format!("binding {configs:?} failed: {e}"))),
        };
        let socks = sender.ip_sockets();
        if socks.len() != configs.len() {
            return Err(Outcome::violation("C19:bind-failed", format!("{} sockets bound for {} configs", socks.len(), configs.len())));
        }
        // ports identify sockets
        let mut ports: Vec<u16> = socks.iter().map(|(_, l)| l.port()).collect();
        ports.sort();
        ports.dedup();
        if ports.len() != socks.len() || ports.contains(&dst.port()) {
            return Err(Outcome::Excluded("ephemeral port numbers collide; sockets not distinguishable"));
        }
        let before = sender.ip_bytes_sent();
        let path = FourTuple::Ip { remote: dst, local: src };
        let res = send_once(&mut sender, &path, &contents, None).await;
        let after = sender.ip_bytes_sent();
        let sent_bytes = (after.0 - before.0) + (after.1 - before.1);
        if let Err(e) = &res {
            // a socket-level error on this path is possible in principle; it is not a routing decision
            return Err(Outcome::violation("C19:send-error", format!("poll_send to {dst} (src {src:?}) over {configs:?} returned {e}")));
        }
        // what left, and from which socket
        let observed: Option<(VerifIpConfig, SocketAddr)> = if sent_bytes == 0 {
            listener.set_nonblocking(true).ok();
            let mut buf = [0u8; 256];
            match listener.recv_from(&mut buf) {
                Ok((n, from)) => {
                    return Err(Outcome::violation(
                        "C19:metric-mismatch",
                        format!("no bytes counted as sent but {n} bytes arrived from {from}"),
                    ));
                }
                Err(_) => None,
            }
        } else {
            if sent_bytes != contents.len() as u64 {
                return Err(Outcome::violation("C19:sent-twice", format!("{} bytes counted as sent for a {}-byte datagram", sent_bytes, contents.len())));
            }
            listener.set_read_timeout(Some(Duration::from_secs(5))).ok();
            let mut buf = [0u8; 256];
            match listener.recv_from(&mut buf) {
                Ok((n, from)) => {
                    if buf[..n] != contents[..] {
                        return Err(Outcome::violation("C19:payload", format!("received {n} bytes that differ from the {} sent", contents.len())));
                    }
                    match socks.iter().find(|(_, l)| l.port() == from.port()) {
                        Some((cfg, l)) => Some((*cfg, SocketAddr::new(from.ip(), l.port()))),
                        None => {
                            return Err(Outcome::violation("C19:unknown-sender", format!("datagram arrived from {from}, which is none of {socks:?}")));
                        }
                    }
                }
                Err(e) => {
                    eprintln!("C19: inconclusive: {} bytes counted as sent to {dst} (src {src:?}, sockets {socks:?}) but nothing arrived within 5 s: {e}", sent_bytes);
                    std::process::exit(2);
                }
            }
        };
        // a second datagram must not have been produced
        if observed.is_some() {
            listener.set_nonblocking(true).ok();
            let mut buf = [0u8; 256];
            if let Ok((n, from)) = listener.recv_from(&mut buf) {
                return Err(Outcome::violation("C19:sent-twice", format!("a second datagram ({n} bytes) arrived from {from}")));
            }
        }
        match (&expect, &observed) {
            (Expect::Dropped, None) => {}
            (Expect::Dropped, Some((cfg, from))) => {
                return Err(Outcome::violation(
                    "C19:sent-instead-of-dropped",
                    format!("dst {dst} src {src:?}: no socket of {configs:?} qualifies, but the datagram left on {cfg:?} (seen from {from})"),
                ));
            }
            (Expect::OneOf(ok), None) => {
                return Err(Outcome::violation(
                    "C19:dropped-instead-of-sent",
                    format!("dst {dst} src {src:?}: expected one of sockets {ok:?} of {configs:?}, but nothing was sent"),
                ));
            }
            (Expect::OneOf(ok), Some((cfg, from))) => {
                let matches = ok.iter().any(|&i| {
                    configs[i].addr.ip() == cfg.addr.ip() && configs[i].prefix_len == cfg.prefix_len && configs[i].is_default == cfg.is_default
                });
                if !matches {
                    let sig = if src.is_some() { "C19:wrong-socket-for-source" } else { "C19:wrong-socket-for-destination" };
                    return Err(Outcome::violation(
                        sig,
                        format!("dst {dst} src {src:?}: left on {cfg:?} (seen from {from}); expected one of {:?}", ok.iter().map(|&i| configs[i]).collect::<Vec<_>>()),
                    ));
                }
                // with a source address the datagram must carry it
                if let (Some(s), false) = (src, own.is_empty()) {
                    if from.ip() != s {
                        return Err(Outcome::violation("C19:source-not-used", format!("requested source {s}, datagram arrived from {from}")));
                    }
                }
            }
        }
        let mut classes = vec![];
        let containing = (0..configs.len()).filter(|&i| family_ok(&configs[i]) && ref_valid_send(&configs[i], None, dst)).count();
        if src.is_none() && containing >= 2 {
            classes.push("dst-in>=2-subnets");
        }
        classes.push(match (&expect, src.is_some()) {
            (Expect::Dropped, _) => "dropped",
            (Expect::OneOf(_), true) if own.is_empty() => "src:default-route",
            (Expect::OneOf(_), true) => "src:bound-or-wildcard",
            (Expect::OneOf(_), false) if own.is_empty() => "dst:default-route",
            (Expect::OneOf(_), false) => "dst:longest-prefix",
        });
        if c.v6 {
            classes.push("ipv6");
        }
        if matches!(c.src, SrcSpec::OtherFamily) {
            classes.push("src-other-family");
        }
        let nontrivial = (src.is_none() && containing >= 2) || (src.is_some() && configs.len() >= 2);
        Ok(Outcome::pass_with(nontrivial, classes))
    });
    match result {
        Ok(o) | Err(o) => o,
    }
}

// ---------------------------------------------------------------------------------------
// part predicates
// ---------------------------------------------------------------------------------------

#[derive(Debug, Clone, Serialize, Deserialize)]
struct PredCase {
    cfg_addr: SocketAddr,
    prefix: u8,
    is_default: bool,
    src: Option<IpAddr>,
    dst: SocketAddr,
}

fn v6_pool() -> BoxedStrategy<Ipv6Addr> {
    prop_oneof![
        1 => Just(Ipv6Addr::UNSPECIFIED),
        1 => Just(Ipv6Addr::LOCALHOST),
        3 => (any::<u16>(), any::<u16>()).prop_map(|(a, b)| Ipv6Addr::new(0xfe80, 0, 0, 0, 0, 0, a % 3, b % 3)),
        1 => (any::<u16>()).prop_map(|a| Ipv6Addr::new(0xfebf, 0xffff, 0, 0, 0, 0, 0, a % 3)),
        1 => (any::<u16>()).prop_map(|a| Ipv6Addr::new(0xfec0, 0, 0, 0, 0, 0, 0, a % 3)),
        3 => (0u16..3, 0u16..3, 0u16..3).prop_map(|(a, b, c)| Ipv6Addr::new(0x2001, 0xdb8, a, b, 0, 0, 0, c)),
        1 => (0u16..3).prop_map(|c| Ipv6Addr::new(0xfd00, 0, 0, 0, 0, 0, 0, c)),
        1 => any::<[u8; 16]>().prop_map(Ipv6Addr::from),
    ]
    .boxed()
}

fn v4_pool() -> BoxedStrategy<Ipv4Addr> {
    prop_oneof![
        1 => Just(Ipv4Addr::UNSPECIFIED),
        3 => (0u8..3, 0u8..3, 0u8..3).prop_map(|(a, b, c)| Ipv4Addr::new(10, a, b, c)),
        2 => (0u8..3, 0u8..3).prop_map(|(a, b)| Ipv4Addr::new(192, 168, a, b)),
        1 => (0u8..3).prop_map(|a| Ipv4Addr::new(138 + a, 0, 0, 1)),
        1 => any::<[u8; 4]>().prop_map(Ipv4Addr::from),
    ]
    .boxed()
}

fn pred_strategy() -> impl Strategy<Value = PredCase> {
    let scope = prop_oneof![3 => Just(0u32), 3 => 1u32..4, 1 => any::<u32>()];
    let v4sock = (v4_pool(), any::<u16>()).prop_map(|(ip, p)| SocketAddr::V4(SocketAddrV4::new(ip, p))).boxed();
    let v6sock = (v6_pool(), any::<u16>(), scope).prop_map(|(ip, p, s)| SocketAddr::V6(SocketAddrV6::new(ip, p, 0, s))).boxed();
    let anysock = || prop_oneof![v4sock.clone(), v6sock.clone()];
    let anyip = prop_oneof![v4_pool().prop_map(IpAddr::V4), v6_pool().prop_map(IpAddr::V6)];
    (anysock(), any::<u8>(), 0u8..8, any::<bool>(), prop::option::of(anyip), (v4sock.clone(), v6sock.clone(), 0u8..8), any::<bool>()).prop_map(
        |(cfg_addr, praw, pkind, is_default, src, (dst4, dst6, dst_kind), src_is_bound)| {
            // mostly a destination of the socket's own family (the only ones it is consulted for)
            let same = dst_kind != 0;
            let dst = if cfg_addr.is_ipv4() == same { dst4 } else { dst6 };
            let max = if cfg_addr.is_ipv4() { 32u16 } else { 128 };
            let prefix = match pkind {
                0 => 0,
                1 => max as u8,
                2 => (max - 1) as u8,
                3 => (max / 2) as u8,
                4 => 8,
                _ => (praw as u16 % (max + 1)) as u8,
            };
            // make "source equals the bound address" common
            let src = match (src, src_is_bound) {
                (Some(_), true) => Some(cfg_addr.ip()),
                (s, _) => s,
            };
            PredCase { cfg_addr, prefix, is_default, src, dst }
        },
    )
}

fn run_pred(c: &PredCase) -> Outcome {
    let cfg = VerifIpConfig { addr: c.cfg_addr, prefix_len: c.prefix, is_required: true, is_default: c.is_default };
    let max = if c.cfg_addr.is_ipv4() { 32 } else { 128 };
    if c.prefix > max {
        return Outcome::Excluded("invalid prefix");
    }
    // The dispatcher consults a socket only for destinations of the socket's family.
    if c.cfg_addr.is_ipv4() != c.dst.is_ipv4() {
        // ... except that the predicates must then say "no" when there is no source address
        if c.src.is_none() {
            let a = cfg.is_valid_send_addr(None, c.dst);
            let b = cfg.is_valid_default_addr(None, c.dst);
            check!(a == Some(false) && b == Some(false), "C19:family-mismatch", "{cfg:?} accepts destination {} of the other family: send={a:?} default={b:?}", c.dst);
            return Outcome::pass_with(false, vec!["dst-other-family"]);
        }
        return Outcome::Excluded("socket never consulted for a destination of the other family");
    }
    let got_send = cfg.is_valid_send_addr(c.src, c.dst);
    let got_default = cfg.is_valid_default_addr(c.src, c.dst);
    let want_send = ref_valid_send(&cfg, c.src, c.dst);
    let want_default = ref_valid_default(&cfg, c.src, c.dst);
    check!(got_send == Some(want_send), "C19:predicate-send", "is_valid_send_addr({cfg:?}, src {:?}, dst {}) = {got_send:?}, reference {want_send}", c.src, c.dst);
    check!(got_default == Some(want_default), "C19:predicate-default", "is_valid_default_addr({cfg:?}, src {:?}, dst {}) = {got_default:?}, reference {want_default}", c.src, c.dst);
    let mut classes = vec![];
    classes.push(match (c.src.is_some(), want_send) {
        (true, true) => "src:match",
        (true, false) => "src:no-match",
        (false, true) => "dst:contained",
        (false, false) => "dst:not-contained",
    });
    let mut nontrivial = false;
    if let (None, SocketAddr::V6(d), SocketAddr::V6(b)) = (c.src, c.dst, c.cfg_addr) {
        if is_link_local_v6(*d.ip()) {
            let by_scope = b.scope_id() == d.scope_id();
            let by_prefix = v6_contains(*b.ip(), c.prefix, *d.ip());
            classes.push(match (by_scope, by_prefix) {
                (true, false) => "link-local:scope-only",
                (false, true) => "link-local:prefix-only",
                (true, true) => "link-local:both",
                (false, false) => "link-local:neither",
            });
            nontrivial = true;
        }
    }
    if c.src.is_some_and(|s| s.is_ipv4() != c.cfg_addr.is_ipv4()) {
        classes.push("src-other-family");
        nontrivial = true;
    }
    if c.prefix == 0 || c.prefix == max {
        classes.push("prefix-extreme");
        nontrivial = true;
    }
    if want_default {
        classes.push("default-route");
    }
    Outcome::pass_with(nontrivial, classes)
}

// ---------------------------------------------------------------------------------------
// part synthetic
// ---------------------------------------------------------------------------------------

#[derive(Debug)]
struct RecordingCustom {
    /// accepts custom addresses with this id
    id: u64,
    sent: Mutex<Vec<(CustomAddr, Option<CustomAddr>, Vec<u8>, Option<usize>)>>,
}

impl CustomSender for RecordingCustom {
    fn is_valid_send_addr(&self, addr: &CustomAddr) -> bool {
        addr.id() == self.id
    }
    fn poll_send(&self, _cx: &mut Context, dst: &CustomAddr, src: Option<&CustomAddr>, transmit: &Transmit<'_>) -> Poll<io::Result<()>> {
        self.sent.lock().unwrap().push((dst.clone(), src.cloned(), transmit.contents.to_vec(), transmit.segment_size));
        Poll::Ready(Ok(()))
    }
}

#[derive(Debug, Clone, Serialize, Deserialize)]
enum SynPath {
    Relay { url: u8, id: u8 },
    Custom { id: u8, data: Vec<u8>, local: Option<(u8, Vec<u8>)> },
}

#[derive(Debug, Clone, Serialize, Deserialize)]
struct SynCase {
    /// number of relay transports (0..2)
    relays: u8,
    /// ids accepted by the custom senders, in order (0..3 senders)
    custom_ids: Vec<u8>,
    /// whether an IP socket (default route, 127.0.0.1) is present as a decoy
    with_ip: bool,
    sends: Vec<(SynPath, Payload, Option<u16>)>,
}

fn syn_strategy() -> impl Strategy<Value = SynCase> {
    let path = prop_oneof![
        1 => (0u8..3, 0u8..4).prop_map(|(url, id)| SynPath::Relay { url, id }),
        1 => (0u8..4, proptest::collection::vec(any::<u8>(), 0..6), prop::option::of((0u8..4, proptest::collection::vec(any::<u8>(), 0..4))))
            .prop_map(|(id, data, local)| SynPath::Custom { id, data, local }),
    ];
    let send = (path, (1usize..200, any::<u8>()), prop::option::of(1u16..100)).prop_map(|(p, (len, fill), seg)| (p, Payload { len, fill }, seg));
    (0u8..3, proptest::collection::vec(0u8..4, 0..4), any::<bool>(), proptest::collection::vec(send, 1..8))
        .prop_map(|(relays, custom_ids, with_ip, sends)| SynCase { relays, custom_ids, with_ip, sends })
}

fn eid(i: u8) -> EndpointId {
    let mut b = [0x19u8; 32];
    b[0] = i;
    SecretKey::from_bytes(&b).public()
}

fn relay_url(i: u8) -> RelayUrl {
    ["https://r0.example./", "https://r1.example./", "https://r0.example.:444/"][i as usize % 3].parse().expect("url")
}

fn run_syn(c: &SynCase) -> Outcome {
    if c.relays > 2 || c.custom_ids.len() > 3 || c.sends.is_empty() {
        return Outcome::Excluded("outside the domain");
    }
    let out: Outcome = engine::real_rt(async {
        let mut relays: Vec<VerifRelayTransport> = (0..c.relays).map(|_| VerifRelayTransport::new(16, 64)).collect();
        let customs: Vec<Arc<RecordingCustom>> = c.custom_ids.iter().map(|&id| Arc::new(RecordingCustom { id: id as u64, sent: Mutex::new(vec![]) })).collect();
        let ip_cfg: Vec<VerifIpConfig> = if c.with_ip {
            vec![VerifIpConfig { addr: SocketAddr::new(IpAddr::V4(Ipv4Addr::LOCALHOST), 0), prefix_len: 0, is_required: true, is_default: true }]
        } else {
            vec![]
        };
        let relay_refs: Vec<&VerifRelayTransport> = relays.iter().collect();
        let custom_dyn: Vec<Arc<dyn CustomSender>> = customs.iter().map(|c| c.clone() as Arc<dyn CustomSender>).collect();
        let mut sender = match VerifTransportsSender::new(&ip_cfg, &relay_refs, custom_dyn) {
            Ok(s) => s,
            Err(e) => return Outcome::violation("C19:bind-failed", format!("{e}")),
        };
        drop(relay_refs);
        let mut classes: Vec<&'static str> = vec![];
        let mut nontrivial = false;
        for (path, payload, seg) in &c.sends {
            let contents = payload.bytes();
            let seg = seg.map(|s| s as usize);
            let ft = match path {
                SynPath::Relay { url, id } => FourTuple::Relay { url: relay_url(*url), endpoint_id: eid(*id) },
                SynPath::Custom { id, data, local } => FourTuple::Custom {
                    remote: CustomAddr::from_parts(*id as u64, data),
                    local: local.as_ref().map(|(i, d)| CustomAddr::from_parts(*i as u64, d)),
                },
            };
            let ip_before = sender.ip_bytes_sent();
            let res = send_once(&mut sender, &ft, &contents, seg).await;
            check!(res.is_ok(), "C19:synthetic-error", "poll_send on {ft:?} returned {res:?}");
            check!(sender.ip_bytes_sent() == ip_before, "C19:synthetic-on-ip", "a datagram for {ft:?} was sent on an IP socket");
            // collect what every transport got
            let mut relay_got: Vec<(usize, RelayUrl, EndpointId, Vec<u8>, Option<usize>)> = vec![];
            for (i, r) in relays.iter_mut().enumerate() {
                while let Some((u, e, d)) = r.try_next_sent() {
                    relay_got.push((i, u, e, d.contents.to_vec(), d.segment_size.map(|s| u16::from(s) as usize)));
                }
            }
            let mut custom_got: Vec<(usize, CustomAddr, Option<CustomAddr>, Vec<u8>, Option<usize>)> = vec![];
            for (i, cs) in customs.iter().enumerate() {
                for (d, s, b, g) in cs.sent.lock().unwrap().drain(..) {
                    custom_got.push((i, d, s, b, g));
                }
            }
            match &ft {
                FourTuple::Relay { url, endpoint_id } => {
                    check!(custom_got.is_empty(), "C19:relay-on-custom", "relay datagram for {url} reached a custom sender");
                    if c.relays == 0 {
                        check!(relay_got.is_empty(), "C19:relay-invented", "no relay transport but something was queued");
                        if !classes.contains(&"relay:no-transport-dropped") {
                            classes.push("relay:no-transport-dropped");
                        }
                    } else {
                        check!(relay_got.len() == 1, "C19:relay-count", "relay datagram queued {} times: {:?}", relay_got.len(), relay_got.iter().map(|g| g.0).collect::<Vec<_>>());
                        let g = &relay_got[0];
                        check!(g.1 == *url && g.2 == *endpoint_id, "C19:relay-wrong-path", "queued for ({}, {}) instead of ({url}, {})", g.1, g.2.fmt_short(), endpoint_id.fmt_short());
                        check!(g.3 == contents && g.4 == seg.filter(|s| *s > 0), "C19:relay-payload", "payload or segment size changed: {} bytes seg {:?} vs {} bytes seg {seg:?}", g.3.len(), g.4, contents.len());
                        nontrivial = true;
                        if !classes.contains(&"relay:queued") {
                            classes.push("relay:queued");
                        }
                    }
                }
                FourTuple::Custom { remote, local } => {
                    check!(relay_got.is_empty(), "C19:custom-on-relay", "custom datagram for {remote:?} was queued on a relay");
                    let accepting: Vec<usize> = (0..customs.len()).filter(|&i| customs[i].id == remote.id()).collect();
                    if accepting.is_empty() {
                        check!(custom_got.is_empty(), "C19:custom-wrong-sender", "custom datagram for {remote:?} handed to sender(s) {:?} that do not accept it", custom_got.iter().map(|g| g.0).collect::<Vec<_>>());
                        if !classes.contains(&"custom:unknown-dropped") {
                            classes.push("custom:unknown-dropped");
                        }
                        if !customs.is_empty() {
                            nontrivial = true;
                        }
                    } else {
                        check!(custom_got.len() == 1, "C19:custom-count", "custom datagram handed over {} times", custom_got.len());
                        let g = &custom_got[0];
                        check!(accepting.contains(&g.0), "C19:custom-wrong-sender", "custom datagram for {remote:?} handed to sender {} (accepts id {})", g.0, customs[g.0].id);
                        check!(g.1 == *remote && g.2 == *local, "C19:custom-wrong-addr", "handed over for {:?}/{:?} instead of {remote:?}/{local:?}", g.1, g.2);
                        check!(g.3 == contents && g.4 == seg, "C19:custom-payload", "payload or segment size changed");
                        if customs.len() >= 2 {
                            nontrivial = true;
                        }
                        if !classes.contains(&"custom:handed-over") {
                            classes.push("custom:handed-over");
                        }
                    }
                }
                FourTuple::Ip { .. } => unreachable!(),
            }
        }
        Outcome::pass_with(nontrivial, classes)
    });
    out
}

// ---------------------------------------------------------------------------------------
// part quic_sender: the `noq::UdpSender` iroh hands to QUIC, over a live endpoint's socket
// state and harness-controlled transports
// ---------------------------------------------------------------------------------------

#[derive(Debug)]
struct ScriptedCustom {
    id: u64,
    /// 0 = accept, 1 = fail with an error, 2 = return Pending
    behaviour: u8,
    calls: Mutex<Vec<(CustomAddr, Option<CustomAddr>, Vec<u8>)>>,
}

impl CustomSender for ScriptedCustom {
    fn is_valid_send_addr(&self, addr: &CustomAddr) -> bool {
        addr.id() == self.id
    }
    fn poll_send(&self, _cx: &mut Context, dst: &CustomAddr, src: Option<&CustomAddr>, transmit: &Transmit<'_>) -> Poll<io::Result<()>> {
        self.calls.lock().unwrap().push((dst.clone(), src.cloned(), transmit.contents.to_vec()));
        match self.behaviour {
            0 => Poll::Ready(Ok(())),
            1 => Poll::Ready(Err(io::Error::new(io::ErrorKind::ConnectionReset, "scripted failure"))),
            _ => Poll::Pending,
        }
    }
}

#[derive(Debug, Clone, Serialize, Deserialize)]
enum QOp {
    /// ordinary IP destination (listener), optionally written as IPv4-mapped IPv6 as noq does
    Ip { mapped_v6: bool, with_src: bool, port0: bool },
    RelayKnown { url: u8, id: u8 },
    RelayUnknown { host: u64 },
    /// custom address with transport id 0 (accepts), 1 (errors), 2 (pending), 3 (no sender)
    CustomKnown { id: u8, data: Vec<u8>, local: bool },
    CustomUnknown { host: u64 },
    MixedUnknown { host: u64 },
    /// per-endpoint address that is registered but has no running per-endpoint state
    MixedKnown { id: u8 },
}

#[derive(Debug, Clone, Serialize, Deserialize)]
struct QCase {
    ops: Vec<(QOp, Payload)>,
    /// 0 = relay queue drained by the harness, 1 = never drained (capacity 1: fills up), 2 = closed
    relay_mode: u8,
    /// close the endpoint before op number `close_at` (if within range)
    close_at: Option<u8>,
}

fn q_strategy() -> impl Strategy<Value = QCase> {
    let op = prop_oneof![
        3 => (any::<bool>(), any::<bool>(), prop_oneof![9 => Just(false), 1 => Just(true)]).prop_map(|(mapped_v6, with_src, port0)| QOp::Ip { mapped_v6, with_src, port0 }),
        3 => (0u8..2, 0u8..3).prop_map(|(url, id)| QOp::RelayKnown { url, id }),
        1 => any::<u64>().prop_map(|host| QOp::RelayUnknown { host }),
        4 => (0u8..4, proptest::collection::vec(any::<u8>(), 0..4), any::<bool>()).prop_map(|(id, data, local)| QOp::CustomKnown { id, data, local }),
        1 => any::<u64>().prop_map(|host| QOp::CustomUnknown { host }),
        1 => any::<u64>().prop_map(|host| QOp::MixedUnknown { host }),
        1 => (0u8..3).prop_map(|id| QOp::MixedKnown { id }),
    ];
    (
        proptest::collection::vec((op, (1usize..100, any::<u8>()).prop_map(|(len, fill)| Payload { len, fill })), 1..10),
        prop_oneof![3 => Just(0u8), 2 => Just(1u8), 1 => Just(2u8)],
        prop_oneof![5 => Just(None), 1 => (0u8..10).prop_map(Some)],
    )
        .prop_map(|(ops, relay_mode, close_at)| QCase { ops, relay_mode, close_at })
}

fn synthetic_addr(subnet: u8, host: u64) -> SocketAddr {
    let mut o = [0u8; 16];
    o[..6].copy_from_slice(&[0xfd, 0x15, 0x07, 0x0a, 0x51, 0x0b]);
    o[7] = subnet;
    o[8..].copy_from_slice(&host.to_be_bytes());
    SocketAddr::new(IpAddr::V6(Ipv6Addr::from(o)), 12345)
}

fn run_q(c: &QCase) -> Outcome {
    use iroh::verif::socket::{endpoint_mapped_addrs, quic_sender};
    if c.ops.is_empty() || c.ops.len() > 12 {
        return Outcome::Excluded("outside the domain");
    }
    let listener = match UdpSocket::bind("127.0.0.9:0") {
        Ok(l) => l,
        Err(_) => return Outcome::Excluded("cannot bind the destination listener"),
    };
    listener.set_nonblocking(true).ok();
    let dst = listener.local_addr().expect("local addr");
    engine::real_rt(async {
        let ep = match iroh::Endpoint::builder(iroh::endpoint::presets::Minimal)
            .clear_ip_transports()
            .bind_addr("127.0.0.1:0")
            .expect("valid bind addr")
            .bind()
            .await
        {
            Ok(ep) => ep,
            Err(e) => {
                eprintln!("C19: cannot bind an endpoint on loopback: {e:#}");
                std::process::exit(2);
            }
        };
        let maps = endpoint_mapped_addrs(&ep);
        let mut relay = VerifRelayTransport::new(16, 1);
        if c.relay_mode == 2 {
            relay.close_send_queue();
        }
        let customs: Vec<Arc<ScriptedCustom>> = (0..3u8).map(|i| Arc::new(ScriptedCustom { id: i as u64, behaviour: i, calls: Mutex::new(vec![]) })).collect();
        let custom_dyn: Vec<Arc<dyn CustomSender>> = customs.iter().map(|c| c.clone() as Arc<dyn CustomSender>).collect();
        let ip_cfg = [VerifIpConfig { addr: SocketAddr::new(IpAddr::V4(Ipv4Addr::LOCALHOST), 0), prefix_len: 0, is_required: true, is_default: true }];
        let mut transports = match VerifTransportsSender::new(&ip_cfg, &[&relay], custom_dyn) {
            Ok(t) => t,
            Err(e) => return Outcome::violation("C19:bind-failed", format!("{e}")),
        };
        let our_port = transports.ip_sockets()[0].1.port();
        // Warm-up: the QUIC-facing sender drops a datagram whose transport is momentarily not
        // writable (by design), and a fresh tokio socket is "not yet known to be writable".  One
        // awaited send makes the readiness known, so later sends go out at the first poll.
        {
            let path = FourTuple::Ip { remote: dst, local: None };
            if let Err(e) = send_once(&mut transports, &path, b"warm-up", None).await {
                return Outcome::violation("C19:send-error", format!("warm-up send failed: {e}"));
            }
            listener.set_nonblocking(false).ok();
            listener.set_read_timeout(Some(Duration::from_secs(5))).ok();
            let mut buf = [0u8; 64];
            if listener.recv_from(&mut buf).is_err() {
                eprintln!("C19: inconclusive: warm-up datagram did not arrive");
                std::process::exit(2);
            }
            listener.set_nonblocking(true).ok();
        }
        let mut sender = quic_sender(&ep, &transports);
        let local_custom = CustomAddr::from_parts(0, b"local");
        let mut classes: Vec<&'static str> = vec![];
        let class = |c: &'static str, classes: &mut Vec<&'static str>| {
            if !classes.contains(&c) {
                classes.push(c);
            }
        };
        let mut closed = false;
        let mut relay_queued = 0usize; // items sitting in the undrained relay queue
        let mut injected = false;
        for (i, (op, payload)) in c.ops.iter().enumerate() {
            if !closed && c.close_at == Some(i as u8) {
                ep.close().await;
                closed = true;
                class("closed", &mut classes);
            }
            let contents = payload.bytes();
            let (destination, src_ip) = match op {
                QOp::Ip { mapped_v6, with_src, port0 } => {
                    let port = if *port0 { 0 } else { dst.port() };
                    let d = if *mapped_v6 {
                        SocketAddr::new(IpAddr::V6(Ipv4Addr::new(127, 0, 0, 9).to_ipv6_mapped()), port)
                    } else {
                        SocketAddr::new(IpAddr::V4(Ipv4Addr::new(127, 0, 0, 9)), port)
                    };
                    (d, with_src.then_some(IpAddr::V4(Ipv4Addr::LOCALHOST)))
                }
                QOp::RelayKnown { url, id } => (maps.relay_get(&relay_url(*url), &eid(*id)), None),
                QOp::RelayUnknown { host } => (synthetic_addr(1, *host), None),
                QOp::CustomKnown { id, data, local } => {
                    let a = maps.custom_get(&CustomAddr::from_parts(*id as u64, data));
                    (a, local.then(|| maps.custom_get(&local_custom).ip()))
                }
                QOp::CustomUnknown { host } => (synthetic_addr(3, *host), None),
                QOp::MixedUnknown { host } => (synthetic_addr(0, *host), None),
                QOp::MixedKnown { id } => (maps.endpoint_get(&eid(100 + *id)), None),
            };
            // unknown = never issued; skip the 2^-64 event that the generated host is an issued one
            let transmit = noq::udp::Transmit { destination, ecn: None, contents: &contents, segment_size: None, src_ip };
            let ip_before = transports.ip_bytes_sent();
            let waker = futures_util::task::noop_waker();
            let mut cx = Context::from_waker(&waker);
            // IP sends may need the socket to become writable first: give the runtime a chance
            let mut res = sender.as_mut().poll_send(&transmit, &mut cx);
            let mut spins = 0;
            while res.is_pending() && spins < 50 {
                tokio::time::sleep(Duration::from_millis(1)).await;
                res = sender.as_mut().poll_send(&transmit, &mut cx);
                spins += 1;
            }
            // ---- what reached the transports ----
            let ip_sent = { let a = transports.ip_bytes_sent(); (a.0 - ip_before.0) + (a.1 - ip_before.1) };
            let mut relay_got = vec![];
            if c.relay_mode == 0 {
                while let Some(x) = relay.try_next_sent() {
                    relay_got.push(x);
                }
            }
            let custom_calls: Vec<Vec<(CustomAddr, Option<CustomAddr>, Vec<u8>)>> = customs.iter().map(|c| c.calls.lock().unwrap().drain(..).collect()).collect();
            let custom_total: usize = custom_calls.iter().map(|c| c.len()).sum();
            if closed {
                // a closed endpoint may refuse; it must not send anything anywhere
                if matches!(res, Poll::Ready(Err(_))) {
                    check!(ip_sent == 0 && relay_got.is_empty() && custom_total == 0, "C19:closed-send", "op {i}: the closed endpoint reported an error to QUIC but the datagram was sent anyway");
                }
                class(if matches!(res, Poll::Ready(Err(_))) { "closed:error-reported" } else { "closed:ok" }, &mut classes);
                continue;
            }
            match &res {
                Poll::Ready(Ok(())) => {}
                Poll::Ready(Err(e)) => {
                    return Outcome::violation("C19:fatal-error-to-quic", format!("op {i} {op:?}: poll_send reported {e} to QUIC while the endpoint is open"));
                }
                Poll::Pending => {
                    return Outcome::violation("C19:pending-to-quic", format!("op {i} {op:?}: poll_send still Pending after 50 ms"));
                }
            }
            let only = |what: &str, ip: bool, relay_n: usize, custom_idx: Option<usize>| -> Option<String> {
                let mut bad = vec![];
                if (ip_sent > 0) != ip {
                    bad.push(format!("ip bytes sent {ip_sent}"));
                }
                if c.relay_mode == 0 && relay_got.len() != relay_n {
                    bad.push(format!("relay queue got {} item(s)", relay_got.len()));
                }
                for (k, calls) in custom_calls.iter().enumerate() {
                    let want = if custom_idx == Some(k) { 1 } else { 0 };
                    if calls.len() != want {
                        bad.push(format!("custom sender {k} called {} time(s)", calls.len()));
                    }
                }
                if bad.is_empty() { None } else { Some(format!("{what}: {}", bad.join(", "))) }
            };
            match op {
                QOp::Ip { port0, with_src, .. } => {
                    if ip_sent == 0 {
                        // by design a transport that is momentarily not writable makes the sender drop
                        // the datagram (reported as Ok); nothing else may have seen it
                        if let Some(b) = only("IP datagram (not sent)", false, 0, None) {
                            return Outcome::violation("C19:ip-dispatch", format!("op {i} {op:?}: {b}"));
                        }
                        class("ip:not-writable-dropped", &mut classes);
                        continue;
                    }
                    if let Some(b) = only("IP datagram", true, 0, None) {
                        return Outcome::violation("C19:ip-dispatch", format!("op {i} {op:?}: {b}"));
                    }
                    if *port0 {
                        // the kernel refuses port 0; the failure must stay invisible to QUIC (checked above)
                        injected = true;
                        class("ip:sendmsg-fails", &mut classes);
                    } else {
                        listener.set_nonblocking(false).ok();
                        listener.set_read_timeout(Some(Duration::from_secs(5))).ok();
                        let mut buf = [0u8; 256];
                        match listener.recv_from(&mut buf) {
                            Ok((n, from)) => {
                                check!(buf[..n] == contents[..], "C19:payload", "op {i}: payload changed");
                                check!(from.port() == our_port, "C19:unknown-sender", "op {i}: datagram arrived from {from}, not from the harness socket (port {our_port})");
                                if *with_src {
                                    check!(from.ip() == IpAddr::V4(Ipv4Addr::LOCALHOST), "C19:source-not-used", "op {i}: source {from}");
                                }
                            }
                            Err(e) => {
                                eprintln!("C19: inconclusive: datagram counted as sent to {dst} did not arrive within 5 s: {e}");
                                std::process::exit(2);
                            }
                        }
                        listener.set_nonblocking(true).ok();
                        class("ip:delivered", &mut classes);
                    }
                }
                QOp::RelayKnown { url, id } => match c.relay_mode {
                    0 => {
                        if let Some(b) = only("relay datagram", false, 1, None) {
                            return Outcome::violation("C19:relay-dispatch", format!("op {i} {op:?}: {b}"));
                        }
                        let g = &relay_got[0];
                        check!(g.0 == relay_url(*url) && g.1 == eid(*id) && g.2.contents[..] == contents[..], "C19:relay-wrong-path", "op {i}: queued for ({}, {}) with {} bytes", g.0, g.1.fmt_short(), g.2.contents.len());
                        class("relay:queued", &mut classes);
                    }
                    1 => {
                        if let Some(b) = only("relay datagram", false, 0, None) {
                            return Outcome::violation("C19:relay-dispatch", format!("op {i} {op:?}: {b}"));
                        }
                        relay_queued += 1;
                        if relay_queued > 1 {
                            injected = true;
                            class("relay:queue-full-pending-hidden", &mut classes);
                        }
                    }
                    _ => {
                        if let Some(b) = only("relay datagram", false, 0, None) {
                            return Outcome::violation("C19:relay-dispatch", format!("op {i} {op:?}: {b}"));
                        }
                        injected = true;
                        class("relay:queue-closed-error-hidden", &mut classes);
                    }
                },
                QOp::CustomKnown { id, data, local } => {
                    let idx = (*id < 3).then_some(*id as usize);
                    if let Some(b) = only("custom datagram", false, 0, idx) {
                        return Outcome::violation("C19:custom-dispatch", format!("op {i} {op:?}: {b}"));
                    }
                    if let Some(k) = idx {
                        let call = &custom_calls[k][0];
                        let want_local = local.then(|| local_custom.clone());
                        check!(call.0 == CustomAddr::from_parts(*id as u64, data) && call.1 == want_local && call.2 == contents, "C19:custom-wrong-addr", "op {i}: custom sender {k} called with {:?}/{:?}", call.0, call.1);
                        match k {
                            0 => class("custom:handed-over", &mut classes),
                            1 => {
                                injected = true;
                                class("custom:error-hidden", &mut classes)
                            }
                            _ => {
                                injected = true;
                                class("custom:pending-hidden", &mut classes)
                            }
                        }
                    } else {
                        class("custom:no-sender-dropped", &mut classes);
                    }
                }
                QOp::RelayUnknown { .. } | QOp::CustomUnknown { .. } | QOp::MixedUnknown { .. } | QOp::MixedKnown { .. } => {
                    if let Some(b) = only("datagram for an unknown / stateless synthetic address", false, 0, None) {
                        return Outcome::violation("C19:unknown-synthetic-sent", format!("op {i} {op:?}: {b}"));
                    }
                    class(
                        match op {
                            QOp::RelayUnknown { .. } => "unknown:relay-dropped",
                            QOp::CustomUnknown { .. } => "unknown:custom-dropped",
                            QOp::MixedUnknown { .. } => "unknown:mixed-dropped",
                            _ => "mixed:known-without-state-dropped",
                        },
                        &mut classes,
                    );
                }
            }
        }
        drop(sender);
        if !closed {
            ep.close().await;
        }
        Outcome::pass_with(injected, classes)
    })
}

fn ipv6_loopback_available() -> bool {
    UdpSocket::bind("[::1]:0").is_ok()
}

pub fn run(ctx: &Ctx) {
    ctx.rule("part ip_selection: 1..4 sockets bound through IpTransports::bind on loopback (IPv4: wildcard or 127.a.b.c from a pool with shared prefixes, prefix from {0,1,8,9,10,16,17,24,25,30,31,32}; IPv6: :: or ::1), at most one default route, a listener on a generated 127.x.y.z (or ::1), source address none / a bound one / an unbound local one / other family; the UDP source port seen by the listener identifies the socket, the send_ipv4/ipv6 byte counters tell whether anything was sent; reference: with source -> a socket bound to it or to the wildcard, else the family's default socket, else dropped; without -> a socket with the longest prefix containing the destination, else default, else dropped; non-trivial = destination inside >=2 subnets, or a source with >=2 sockets | part predicates: is_valid_send_addr / is_valid_default_addr over IPv4/IPv6 configs incl. scoped link-local destinations, /0, /max, family mismatches against an independent mask-based reference | part synthetic: relay and custom four-tuples over 0..2 relay transports, 0..3 recording custom senders and a decoy IP socket: exactly the designated sender gets the datagram once, unchanged;  unknown ones are dropped with Ok | part quic_sender: the noq::UdpSender iroh gives QUIC (hook: real Sender over a live endpoint's socket state and the harness transports): 1..9 sends to IP (also IPv4-mapped, port 0), known/unknown relay, custom and per-endpoint mapped addresses, with injected failures (custom sender returning Err / Pending, relay queue full / closed, sendmsg failure), optionally after Endpoint::close; while open every poll_send must be Ready(Ok) and only the designated transport may see the datagram; non-trivial = a case with an injected failure");
    ctx.assume("among several sockets that equally qualify (same prefix length, or several bound to the source/wildcard) the statement leaves the choice open; any of them is accepted");
    ctx.assume("a socket is consulted only for destinations of its own family (the dispatcher splits by destination family)");
    ctx.assume("part quic_sender uses a live loopback endpoint only for its socket state (mapped-address maps, closed flag); its own transports are not used. A per-endpoint (mixed) address with a *running* per-endpoint actor is covered by the end-to-end checks only");
    let v6 = ipv6_loopback_available();
    ctx.extra("ipv6_loopback", serde_json::json!(v6));
    let k = ctx.tier.pick(1, 10);
    ctx.explore("ip_selection", ExploreOpts::new(1_500 * k).workers(6).shrink(200), move || sel_strategy(v6), run_sel);
    ctx.explore("predicates", ExploreOpts::new(60_000 * k), pred_strategy, run_pred);
    ctx.explore("synthetic", ExploreOpts::new(2_000 * k).workers(4).shrink(200), syn_strategy, run_syn);
    ctx.explore("quic_sender", ExploreOpts::new(200 * k).workers(4).shrink(60), q_strategy, run_q);
}
