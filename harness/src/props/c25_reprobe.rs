//! C25 — requested network re-probes are never silently dropped.
//!
//! A real endpoint with a custom relay map pointing at an in-process relay (so that net
//! reports really run).  The run task can be held at two cfg-guarded pause points (just after
//! it started, and just after it sent its done signal), so the interleaving of the finishing
//! run, the actor's reaction and new update requests is a generated value.

use std::time::{Duration, Instant};

use iroh::{Endpoint, RelayMode, endpoint::presets, tls::CaTlsConfig};
use serde::{Deserialize, Serialize};

use crate::{
    engine::{Ctx, Outcome},
    support::{hooks, tcprelay::net_rt},
};

#[derive(Debug, Clone, Copy, Serialize, Deserialize, PartialEq, Eq)]
enum RequestAt {
    /// while the run is in progress (held just after its start)
    DuringRun,
    /// after the run sent its done signal, before the run task has ended
    InDoneWindow,
    /// after the run task has ended
    AfterRelease,
}

#[derive(Debug, Clone, Serialize, Deserialize)]
struct Case {
    request_at: RequestAt,
    /// keep the finished run task held until the actor has reacted to the done signal
    actor_reacts_in_window: bool,
    requests: u8,
    rep: u8,
    /// a different schedule: the first run is held between releasing the lock and sending its
    /// done signal; a request starts a second run at once; a further request is deferred; then
    /// the first run's (now stale) done signal is delivered while the second run is in progress
    #[serde(default)]
    stale_done: bool,
}

/// A new run normally starts within milliseconds of the previous one finishing; the periodic
/// re-probe is 20-26 s away.  The bound separates the two with a wide margin on both sides.
const RESTART_BOUND: Duration = Duration::from_secs(15);
const HARNESS_WAIT: Duration = Duration::from_secs(60);

fn harness_fail(what: &str) -> ! {
    eprintln!("C25 harness problem: {what}");
    std::process::exit(2)
}

fn run_stale_done(c: &Case) -> Outcome {
    let c = c.clone();
    net_rt(async move {
        hooks::clear();
        hooks::install_async();
        hooks::install_sync_log();
        let (relay_map, relay_url, relay) = match iroh::test_utils::run_relay_server().await {
            Ok(x) => x,
            Err(e) => harness_fail(&format!("relay server: {e}")),
        };
        let relay_config = relay_map.get(&relay_url).expect("relay config");
        let h1 = hooks::arm_async("direct_addr:run_started");
        let ep = match Endpoint::builder(presets::Minimal).relay_mode(RelayMode::Custom(relay_map.clone())).ca_tls_config(CaTlsConfig::insecure_skip_verify()).bind().await {
            Ok(ep) => ep,
            Err(e) => harness_fail(&format!("bind: {e}")),
        };
        if tokio::time::timeout(HARNESS_WAIT, h1.reached).await.is_err() { harness_fail("first run never started"); }
        // run 1 finishes probing and releases the lock, but its done signal is held back
        let hb = hooks::arm_async("direct_addr:before_done");
        let _ = h1.release.send(());
        if tokio::time::timeout(HARNESS_WAIT, hb.reached).await.is_err() { harness_fail("first run never reached its end"); }
        // request A: the lock is free, run 2 starts at once and is held running
        let h2 = hooks::arm_async("direct_addr:run_started");
        ep.insert_relay(relay_url.clone(), relay_config.clone()).await;
        if tokio::time::timeout(HARNESS_WAIT, h2.reached).await.is_err() { harness_fail("second run did not start on request"); }
        // request(s) B: deferred behind run 2
        let deferred = |e: &hooks::Event| e.name == "direct_addr:schedule_run" && e.detail == "deferred";
        for _ in 0..c.requests { ep.insert_relay(relay_url.clone(), relay_config.clone()).await; }
        if hooks::wait_events(deferred, c.requests as usize, HARNESS_WAIT).await.is_none() { harness_fail("requests during run 2 were not deferred"); }
        // the stale done signal of run 1 arrives while run 2 holds the lock
        let _ = hb.release.send(());
        if hooks::wait_events(|e| e.name == "direct_addr:try_run" && e.detail == "locked", 1, HARNESS_WAIT).await.is_none() { harness_fail("actor did not react to the stale done signal"); }
        // run 2 finishes
        let _ = h2.release.send(());
        if hooks::wait_events(|e| e.name == "netreport:run_finish", 2, HARNESS_WAIT).await.is_none() { harness_fail("second run never finished"); }
        let third = hooks::wait_events(|e| e.name == "netreport:run_start", 3, RESTART_BOUND).await;
        let mut running = 0i32;
        let mut overlap = None;
        for e in hooks::events() {
            match e.name.as_str() {
                "netreport:run_start" => { running += 1; if running > 1 { overlap = Some(e.seq); } }
                "netreport:run_finish" => running -= 1,
                _ => {}
            }
        }
        let log: Vec<String> = hooks::events().iter().map(|e| format!("{}({})", e.name, e.detail)).collect();
        ep.close().await;
        drop(relay);
        hooks::clear();
        hooks::uninstall_sync();
        if let Some(seq) = overlap {
            return Outcome::violation("C25:overlapping-runs", format!("two net report runs in progress at event #{seq}; events {log:?}"));
        }
        if third.is_none() {
            return Outcome::violation("C25:update-dropped-by-stale-done", format!("an update requested while run 2 was in progress (x{}) was not started within {}s of run 2 finishing, after the stale done signal of run 1 had been handled during run 2; events: {log:?}", c.requests, RESTART_BOUND.as_secs()));
        }
        Outcome::pass_with(true, vec!["stale-done"])
    })
}

fn run_case(c: &Case) -> Outcome {
    if c.stale_done {
        return run_stale_done(c);
    }
    let c = c.clone();
    net_rt(async move {
        hooks::clear();
        hooks::install_async();
        hooks::install_sync_log();
        let (relay_map, relay_url, relay) = match iroh::test_utils::run_relay_server().await {
            Ok(x) => x,
            Err(e) => harness_fail(&format!("relay server: {e}")),
        };
        let relay_config = relay_map.get(&relay_url).expect("relay config");
        // hold the very first run just after it started
        let h1 = hooks::arm_async("direct_addr:run_started");
        let ep = match Endpoint::builder(presets::Minimal)
            .relay_mode(RelayMode::Custom(relay_map.clone()))
            .ca_tls_config(CaTlsConfig::insecure_skip_verify())
            .bind()
            .await
        {
            Ok(ep) => ep,
            Err(e) => harness_fail(&format!("bind: {e}")),
        };
        if tokio::time::timeout(HARNESS_WAIT, h1.reached).await.is_err() {
            harness_fail("first net report run never started");
        }
        let n = c.requests as usize;
        let deferred = |e: &hooks::Event| e.name == "direct_addr:schedule_run" && e.detail == "deferred";
        let request = |ep: &Endpoint| {
            let ep = ep.clone();
            let url = relay_url.clone();
            let cfg = relay_config.clone();
            async move { ep.insert_relay(url, cfg).await; }
        };
        let mut last_request = None;
        if c.request_at == RequestAt::DuringRun {
            for _ in 0..n { request(&ep).await; }
            last_request = Some(Instant::now());
            if hooks::wait_events(deferred, n, HARNESS_WAIT).await.is_none() {
                harness_fail("update requests were not processed by the actor while the run was held");
            }
        }
        let h2 = hooks::arm_async("direct_addr:after_done");
        let _ = h1.release.send(());
        if tokio::time::timeout(HARNESS_WAIT, h2.reached).await.is_err() {
            harness_fail("first run never finished");
        }
        if c.request_at == RequestAt::InDoneWindow {
            let before = hooks::events().iter().filter(|e| e.name == "direct_addr:schedule_run").count();
            for _ in 0..n { request(&ep).await; }
            last_request = Some(Instant::now());
            if hooks::wait_events(|e| e.name == "direct_addr:schedule_run", before + n, HARNESS_WAIT).await.is_none() {
                harness_fail("update requests were not processed by the actor in the done window");
            }
        }
        if c.actor_reacts_in_window {
            if hooks::wait_events(|e| e.name == "direct_addr:try_run", 1, HARNESS_WAIT).await.is_none() {
                harness_fail("actor never reacted to the done signal");
            }
        }
        let _ = h2.release.send(());
        let released = Instant::now();
        if c.request_at == RequestAt::AfterRelease {
            // give the finished task a moment to really end
            tokio::time::sleep(Duration::from_millis(50)).await;
            for _ in 0..n { request(&ep).await; }
            last_request = Some(Instant::now());
        }
        let reference = last_request.map(|t| t.max(released)).unwrap_or(released);
        // oracle 1: a new run starts soon after the first finished
        let started = hooks::wait_events(|e| e.name == "netreport:run_start", 2, RESTART_BOUND + reference.saturating_duration_since(Instant::now()).min(Duration::ZERO)).await;
        let verdict = if started.is_none() {
            let log: Vec<String> = hooks::events().iter().map(|e| format!("{}({})", e.name, e.detail)).collect();
            Some(Outcome::violation("C25:update-dropped", format!("an update requested {:?} (x{n}, actor reacting inside the done window: {}) did not lead to a new net report run within {}s of the previous run's completion; events: {log:?}", c.request_at, c.actor_reacts_in_window, RESTART_BOUND.as_secs())))
        } else {
            None
        };
        // oracle 2: runs never overlap
        let mut running = 0i32;
        let mut overlap = None;
        for e in hooks::events() {
            match e.name.as_str() {
                "netreport:run_start" => { running += 1; if running > 1 { overlap = Some(e.seq); } }
                "netreport:run_finish" => running -= 1,
                _ => {}
            }
        }
        ep.close().await;
        drop(relay);
        hooks::clear();
        hooks::uninstall_sync();
        if let Some(seq) = overlap {
            return Outcome::violation("C25:overlapping-runs", format!("two net report runs in progress at event #{seq}"));
        }
        verdict.unwrap_or_else(|| Outcome::pass_with(c.request_at != RequestAt::AfterRelease && c.actor_reacts_in_window, vec![]))
    })
}

pub fn run(ctx: &Ctx) {
    ctx.rule("schedule enumeration on a real endpoint whose net reports run against an in-process relay: update requests (relay map change through the public API) issued {while the run is held just after its start, after its done signal but before the run task ended, after it ended} x {run task held until the actor reacted to the done signal, released at once} x {1, 2 requests} x repetitions; oracle: start/finish events never overlap; after a request a second run starts within 15 s of the first run's completion (periodic re-probe is 20-26 s away); non-trivial = request during the run or in the done window with the actor reacting inside the window");
    ctx.assume("the 15 s real-time bound is a detector between 'immediately' (ms) and 'next periodic tick' (>= 20 s); only the two instrumented windows are controlled");
    let reps = ctx.tier.pick(1u8, 4);
    let mut cases = vec![];
    for rep in 0..reps {
        for request_at in [RequestAt::DuringRun, RequestAt::InDoneWindow, RequestAt::AfterRelease] {
            for actor_reacts_in_window in [true, false] {
                for requests in [1u8, 2] {
                    cases.push(Case { request_at, actor_reacts_in_window, requests, rep, stale_done: false });
                }
            }
        }
    }
    for rep in 0..reps {
        for requests in [1u8, 2] {
            cases.push(Case { request_at: RequestAt::DuringRun, actor_reacts_in_window: true, requests, rep, stale_done: true });
        }
    }
    ctx.enumerate("schedules", cases, run_case);
}
