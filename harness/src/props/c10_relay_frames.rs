//! C10 — relay frames encode/decode exactly; decoding is total.
//!
//! The crate-private codec (reached through `iroh_relay::verif::codec`) is compared with an
//! encoder/decoder written here from the wire-format documentation (`protos::common::FrameType`
//! doc comments): byte-exact encoding, predicted length, round trip in the permitted protocol
//! version, rejection in the other one, total decoding of arbitrary and edited byte strings with
//! agreement on accept/reject and value, and agreement between the senders' size checks
//! (`RelayedStream::start_send`, client `Conn::start_send`) and the receiving decoders.

use std::{
    pin::Pin,
    task::{Context, Poll},
};

use bytes::Bytes;
use curve25519_dalek::edwards::CompressedEdwardsY;
use futures_util::{Sink as _, SinkExt, StreamExt};
use iroh_base::{PublicKey, SecretKey};
use iroh_relay::{
    KeyCache, MAX_PACKET_SIZE,
    http::ProtocolVersion,
    protos::{
        relay::{ClientToRelayMsg, Datagrams, Error, RelayToClientMsg, Status},
        streams::StreamError,
    },
    server::streams::RelayedStream,
    verif::codec::{self, FrameType},
};
use proptest::prelude::*;
use serde::{Deserialize, Serialize};

use crate::{
    check,
    engine::{self, Ctx, ExploreOpts, Outcome},
    support::gens::{self, Payload},
};

// ---------------------------------------------------------------------------------------------
// message specifications (compact, serialisable)

#[derive(Debug, Clone, PartialEq, Eq, Serialize, Deserialize)]
struct Dg {
    ecn: u8,
    seg: Option<u16>,
    contents: Payload,
}

#[derive(Debug, Clone, PartialEq, Eq, Serialize, Deserialize)]
struct HealthSpec {
    /// exact length in bytes
    len: usize,
    /// 0 ASCII, 1 two-byte, 2 three-byte, 3 four-byte characters (padded with ASCII at the front)
    width: u8,
    /// number of ASCII bytes in front (shifts where multibyte characters fall relative to the end)
    lead: u8,
}

impl HealthSpec {
    fn string(&self) -> String {
        let ch = ['a', 'é', '€', '𝄞'][self.width as usize % 4];
        let w = ch.len_utf8();
        let mut s = String::with_capacity(self.len);
        let lead = (self.lead as usize).min(self.len);
        let body = (self.len - lead) / w * w;
        for _ in 0..(self.len - body) {
            s.push('x');
        }
        for _ in 0..body / w {
            s.push(ch);
        }
        debug_assert_eq!(s.len(), self.len);
        s
    }
}

#[derive(Debug, Clone, PartialEq, Eq, Serialize, Deserialize)]
enum MsgSpec {
    R2cDatagrams { sk: [u8; 32], dg: Dg },
    R2cEndpointGone { sk: [u8; 32] },
    R2cStatus(u8),
    R2cRestarting { reconnect_ms: u32, try_ms: u32 },
    R2cPing([u8; 8]),
    R2cPong([u8; 8]),
    R2cHealth(HealthSpec),
    C2rPing([u8; 8]),
    C2rPong([u8; 8]),
    C2rDatagrams { sk: [u8; 32], dg: Dg },
}

impl MsgSpec {
    fn is_r2c(&self) -> bool {
        !matches!(self, MsgSpec::C2rPing(_) | MsgSpec::C2rPong(_) | MsgSpec::C2rDatagrams { .. })
    }
}

fn key(sk: &[u8; 32]) -> PublicKey {
    SecretKey::from_bytes(sk).public()
}

fn datagrams(dg: &Dg) -> Datagrams {
    Datagrams {
        ecn: noq::EcnCodepoint::from_bits(dg.ecn & 3),
        segment_size: dg.seg.and_then(std::num::NonZeroU16::new),
        contents: Bytes::from(dg.contents.bytes()),
    }
}

fn status(b: u8) -> Status {
    match b {
        0 => Status::Healthy,
        1 => Status::SameEndpointIdConnected,
        2 => Status::RateLimited,
        n => Status::Unknown(n),
    }
}

fn build_r2c(m: &MsgSpec) -> RelayToClientMsg {
    match m {
        MsgSpec::R2cDatagrams { sk, dg } => RelayToClientMsg::Datagrams { remote_endpoint_id: key(sk), datagrams: datagrams(dg) },
        MsgSpec::R2cEndpointGone { sk } => RelayToClientMsg::EndpointGone(key(sk)),
        MsgSpec::R2cStatus(b) => RelayToClientMsg::Status(status(*b)),
        MsgSpec::R2cRestarting { reconnect_ms, try_ms } => RelayToClientMsg::Restarting {
            reconnect_in: std::time::Duration::from_millis(*reconnect_ms as u64),
            try_for: std::time::Duration::from_millis(*try_ms as u64),
        },
        MsgSpec::R2cPing(d) => RelayToClientMsg::Ping(*d),
        MsgSpec::R2cPong(d) => RelayToClientMsg::Pong(*d),
        MsgSpec::R2cHealth(h) => RelayToClientMsg::Health { problem: h.string() },
        _ => unreachable!("not a relay-to-client message"),
    }
}

fn build_c2r(m: &MsgSpec) -> ClientToRelayMsg {
    match m {
        MsgSpec::C2rPing(d) => ClientToRelayMsg::Ping(*d),
        MsgSpec::C2rPong(d) => ClientToRelayMsg::Pong(*d),
        MsgSpec::C2rDatagrams { sk, dg } => ClientToRelayMsg::Datagrams { dst_endpoint_id: key(sk), datagrams: datagrams(dg) },
        _ => unreachable!("not a client-to-relay message"),
    }
}

// ---------------------------------------------------------------------------------------------
// reference codec, written from the frame type documentation

const T_C2R_DATAGRAM: u64 = 4;
const T_C2R_BATCH: u64 = 5;
const T_R2C_DATAGRAM: u64 = 6;
const T_R2C_BATCH: u64 = 7;
const T_ENDPOINT_GONE: u64 = 8;
const T_PING: u64 = 9;
const T_PONG: u64 = 10;
const T_HEALTH: u64 = 11;
const T_RESTARTING: u64 = 12;
const T_STATUS: u64 = 13;

/// A decoded frame in neutral terms.
#[derive(Debug, Clone, PartialEq, Eq)]
enum RefMsg {
    Datagrams { key: [u8; 32], ecn_byte: u8, seg: Option<u16>, contents: Vec<u8> },
    EndpointGone([u8; 32]),
    Ping([u8; 8]),
    Pong([u8; 8]),
    Health(String),
    Restarting(u32, u32),
    Status(u8),
    /// a variant this harness does not know (the enums are non-exhaustive)
    Other,
}

fn ref_encode(m: &MsgSpec) -> Vec<u8> {
    fn dg_frame(single: u64, batch: u64, sk: &[u8; 32], dg: &Dg) -> Vec<u8> {
        let seg = dg.seg.filter(|s| *s != 0);
        let mut v = vec![if seg.is_some() { batch } else { single } as u8];
        v.extend_from_slice(key(sk).as_bytes());
        v.push(dg.ecn & 3);
        if let Some(s) = seg {
            v.extend_from_slice(&s.to_be_bytes());
        }
        v.extend_from_slice(&dg.contents.bytes());
        v
    }
    match m {
        MsgSpec::R2cDatagrams { sk, dg } => dg_frame(T_R2C_DATAGRAM, T_R2C_BATCH, sk, dg),
        MsgSpec::C2rDatagrams { sk, dg } => dg_frame(T_C2R_DATAGRAM, T_C2R_BATCH, sk, dg),
        MsgSpec::R2cEndpointGone { sk } => [&[T_ENDPOINT_GONE as u8][..], key(sk).as_bytes()].concat(),
        MsgSpec::R2cStatus(b) => vec![T_STATUS as u8, *b],
        MsgSpec::R2cRestarting { reconnect_ms, try_ms } => [&[T_RESTARTING as u8][..], &reconnect_ms.to_be_bytes(), &try_ms.to_be_bytes()].concat(),
        MsgSpec::R2cPing(d) | MsgSpec::C2rPing(d) => [&[T_PING as u8][..], d].concat(),
        MsgSpec::R2cPong(d) | MsgSpec::C2rPong(d) => [&[T_PONG as u8][..], d].concat(),
        MsgSpec::R2cHealth(h) => [&[T_HEALTH as u8][..], h.string().as_bytes()].concat(),
    }
}

/// QUIC variable-length integer (RFC 9000 section 16): returns (value, bytes used).
fn varint(b: &[u8]) -> Option<(u64, usize)> {
    let first = *b.first()?;
    let n = 1usize << (first >> 6);
    if b.len() < n {
        return None;
    }
    let mut v = (first & 0x3f) as u64;
    for x in &b[1..n] {
        v = (v << 8) | *x as u64;
    }
    Some((v, n))
}

fn is_key(b: &[u8]) -> Option<[u8; 32]> {
    let a: [u8; 32] = b.try_into().ok()?;
    CompressedEdwardsY(a).decompress().map(|_| a)
}

#[derive(Debug, Clone, PartialEq, Eq)]
enum Ref {
    Accept(RefMsg),
    Reject(&'static str),
    /// the documentation leaves this input open; if accepted the value must be this one
    Either(RefMsg, &'static str),
}

#[derive(Debug, Clone, Copy, PartialEq, Eq)]
enum Dir {
    R2c(ProtocolVersion),
    C2r,
}

fn ref_decode(bytes: &[u8], dir: Dir) -> Ref {
    let Some((tag, used)) = varint(bytes) else { return Ref::Reject("no frame type") };
    let p = &bytes[used..];
    let known = matches!((dir, tag), (Dir::R2c(_), T_R2C_DATAGRAM | T_R2C_BATCH | T_ENDPOINT_GONE | T_PING | T_PONG | T_HEALTH | T_RESTARTING | T_STATUS) | (Dir::C2r, T_C2R_DATAGRAM | T_C2R_BATCH | T_PING | T_PONG));
    if !known {
        return Ref::Reject("frame type not defined for this direction");
    }
    if p.len() > MAX_PACKET_SIZE {
        return Ref::Reject("larger than the maximum packet size");
    }
    match tag {
        T_C2R_DATAGRAM | T_R2C_DATAGRAM | T_C2R_BATCH | T_R2C_BATCH => {
            let batch = tag == T_C2R_BATCH || tag == T_R2C_BATCH;
            let header = 32 + 1 + if batch { 2 } else { 0 };
            if p.len() < header {
                return Ref::Reject("datagram frame shorter than its header");
            }
            let Some(key) = is_key(&p[..32]) else { return Ref::Reject("endpoint id is not a public key") };
            let ecn_byte = p[32];
            let seg = if batch { Some(u16::from_be_bytes([p[33], p[34]])) } else { None };
            let contents = p[header..].to_vec();
            let msg = RefMsg::Datagrams { key, ecn_byte, seg: seg.filter(|s| *s != 0), contents };
            if seg == Some(0) {
                return Ref::Either(msg, "batch frame with segment size 0");
            }
            if p.len() == header {
                return Ref::Either(msg, "datagram frame without contents");
            }
            Ref::Accept(msg)
        }
        T_ENDPOINT_GONE => match (p.len() == 32).then(|| is_key(p)).flatten() {
            Some(k) => Ref::Accept(RefMsg::EndpointGone(k)),
            None => Ref::Reject("endpoint gone needs exactly one public key"),
        },
        T_PING | T_PONG => match <[u8; 8]>::try_from(p) {
            Ok(d) => Ref::Accept(if tag == T_PING { RefMsg::Ping(d) } else { RefMsg::Pong(d) }),
            Err(_) => Ref::Reject("ping/pong payload is 8 bytes"),
        },
        T_HEALTH => {
            if dir != Dir::R2c(ProtocolVersion::V1) {
                return Ref::Reject("health frames were removed in protocol v2");
            }
            match std::str::from_utf8(p) {
                Ok(s) => Ref::Accept(RefMsg::Health(s.to_string())),
                Err(_) => Ref::Reject("health frames contain only UTF-8"),
            }
        }
        T_RESTARTING => {
            if p.len() != 8 {
                return Ref::Reject("restarting payload is two u32");
            }
            Ref::Accept(RefMsg::Restarting(u32::from_be_bytes(p[..4].try_into().unwrap()), u32::from_be_bytes(p[4..].try_into().unwrap())))
        }
        T_STATUS => {
            if dir == Dir::R2c(ProtocolVersion::V1) {
                return Ref::Reject("status frames may not be sent to v1 clients");
            }
            match p.len() {
                0 => Ref::Reject("status payload missing"),
                1 => Ref::Accept(RefMsg::Status(p[0])),
                _ => Ref::Either(RefMsg::Status(p[0]), "status frame with trailing bytes"),
            }
        }
        _ => unreachable!(),
    }
}

fn observe_dg(key: &PublicKey, d: &Datagrams) -> RefMsg {
    RefMsg::Datagrams { key: *key.as_bytes(), ecn_byte: d.ecn.map_or(0, |e| e as u8), seg: d.segment_size.map(u16::from), contents: d.contents.to_vec() }
}

fn observe_r2c(m: &RelayToClientMsg) -> RefMsg {
    match m {
        RelayToClientMsg::Datagrams { remote_endpoint_id, datagrams } => observe_dg(remote_endpoint_id, datagrams),
        RelayToClientMsg::EndpointGone(k) => RefMsg::EndpointGone(*k.as_bytes()),
        RelayToClientMsg::Status(s) => RefMsg::Status(match s {
            Status::Healthy => 0,
            Status::SameEndpointIdConnected => 1,
            Status::RateLimited => 2,
            Status::Unknown(n) => *n,
            _ => return RefMsg::Other,
        }),
        RelayToClientMsg::Restarting { reconnect_in, try_for } => {
            let ms = |d: &std::time::Duration| if d.subsec_nanos() % 1_000_000 == 0 { u32::try_from(d.as_millis()).ok() } else { None };
            match (ms(reconnect_in), ms(try_for)) {
                (Some(a), Some(b)) => RefMsg::Restarting(a, b),
                _ => RefMsg::Other,
            }
        }
        RelayToClientMsg::Ping(d) => RefMsg::Ping(*d),
        RelayToClientMsg::Pong(d) => RefMsg::Pong(*d),
        RelayToClientMsg::Health { problem } => RefMsg::Health(problem.clone()),
        _ => RefMsg::Other,
    }
}

fn observe_c2r(m: &ClientToRelayMsg) -> RefMsg {
    match m {
        ClientToRelayMsg::Ping(d) => RefMsg::Ping(*d),
        ClientToRelayMsg::Pong(d) => RefMsg::Pong(*d),
        ClientToRelayMsg::Datagrams { dst_endpoint_id, datagrams } => observe_dg(dst_endpoint_id, datagrams),
        _ => RefMsg::Other,
    }
}

/// ECN bytes above 3 are not defined; only the low two bits are compared then.
fn same_value(real: &RefMsg, reference: &RefMsg) -> bool {
    match (real, reference) {
        (RefMsg::Datagrams { key: k1, ecn_byte: e1, seg: s1, contents: c1 }, RefMsg::Datagrams { key: k2, ecn_byte: e2, seg: s2, contents: c2 }) => {
            k1 == k2 && s1 == s2 && c1 == c2 && if *e2 <= 3 { e1 == e2 } else { (e1 & 3) == (e2 & 3) || *e1 == 0 }
        }
        (a, b) => a == b,
    }
}

// ---------------------------------------------------------------------------------------------
// part 1: round trip / exact encoding / version rules / relay-side sender agreement

#[derive(Debug, Clone, Serialize, Deserialize)]
struct RtCase {
    msg: MsgSpec,
    cache_cap: u8,
}

/// Content lengths: dense around every limit of either sender or decoder.
fn contents() -> BoxedStrategy<Payload> {
    prop_oneof![
        3 => gens::payload(&[65_501, 65_503, 65_536], 70_000),
        1 => gens::payload(&[1200, 1472], 3000),
    ]
    .boxed()
}

fn dg() -> impl Strategy<Value = Dg> + Clone {
    (contents(), 0u8..4, 0u8..8, any::<u16>()).prop_map(|(contents, ecn, kind, raw)| {
        let len = contents.len as u64;
        let seg = match kind {
            0 | 1 | 2 => None,
            3 => Some(1),
            4 => Some(len.saturating_sub(1).clamp(1, 65_535) as u16),
            5 => Some(len.clamp(1, 65_535) as u16),
            6 => Some((len + 1).clamp(1, 65_535) as u16),
            _ => Some(if raw % 4 == 0 { 65_535 } else { raw.max(1) }),
        };
        Dg { ecn, seg, contents }
    })
}

fn health() -> impl Strategy<Value = HealthSpec> + Clone {
    (gens::len_near(&[65_535, 65_536], 70_000), 0u8..4, 0u8..5).prop_map(|(len, width, lead)| HealthSpec { len, width, lead })
}

fn ms() -> impl Strategy<Value = u32> + Clone {
    prop_oneof![any::<u32>(), 0u32..5000, Just(u32::MAX), Just(0)]
}

fn msg_spec() -> impl Strategy<Value = MsgSpec> + Clone {
    let sk = || gens::secret_bytes();
    prop_oneof![
        6 => (sk(), dg()).prop_map(|(sk, dg)| MsgSpec::R2cDatagrams { sk, dg }),
        6 => (sk(), dg()).prop_map(|(sk, dg)| MsgSpec::C2rDatagrams { sk, dg }),
        1 => sk().prop_map(|sk| MsgSpec::R2cEndpointGone { sk }),
        2 => prop_oneof![0u8..6, any::<u8>()].prop_map(MsgSpec::R2cStatus),
        1 => (ms(), ms()).prop_map(|(reconnect_ms, try_ms)| MsgSpec::R2cRestarting { reconnect_ms, try_ms }),
        1 => any::<[u8; 8]>().prop_map(MsgSpec::R2cPing),
        1 => any::<[u8; 8]>().prop_map(MsgSpec::R2cPong),
        3 => health().prop_map(MsgSpec::R2cHealth),
        1 => any::<[u8; 8]>().prop_map(MsgSpec::C2rPing),
        1 => any::<[u8; 8]>().prop_map(MsgSpec::C2rPong),
    ]
}

fn rt_strategy() -> impl Strategy<Value = RtCase> + Clone {
    (msg_spec(), prop_oneof![Just(0u8), Just(1), Just(4)]).prop_map(|(msg, cache_cap)| RtCase { msg, cache_cap })
}

/// In-memory sink standing in for the websocket under `RelayedStream`.
#[derive(Default, Clone)]
struct MemSink {
    sent: std::sync::Arc<std::sync::Mutex<Vec<Bytes>>>,
}

impl futures_util::Sink<Bytes> for MemSink {
    type Error = StreamError;
    fn poll_ready(self: Pin<&mut Self>, _: &mut Context<'_>) -> Poll<Result<(), StreamError>> {
        Poll::Ready(Ok(()))
    }
    fn start_send(self: Pin<&mut Self>, item: Bytes) -> Result<(), StreamError> {
        self.sent.lock().unwrap().push(item);
        Ok(())
    }
    fn poll_flush(self: Pin<&mut Self>, _: &mut Context<'_>) -> Poll<Result<(), StreamError>> {
        Poll::Ready(Ok(()))
    }
    fn poll_close(self: Pin<&mut Self>, _: &mut Context<'_>) -> Poll<Result<(), StreamError>> {
        Poll::Ready(Ok(()))
    }
}

/// How close a length is to one of the limits.
fn near_limit(payload_len: usize) -> bool {
    let d = |a: usize, b: usize| a.abs_diff(b) <= 4;
    d(payload_len, MAX_PACKET_SIZE) || d(payload_len + 1, MAX_PACKET_SIZE)
}

fn rt_case(c: &RtCase) -> Outcome {
    let cache = KeyCache::new(c.cache_cap as usize);
    let expect_bytes = ref_encode(&c.msg);
    let payload_len = expect_bytes.len() - 1;
    let in_range = payload_len <= MAX_PACKET_SIZE;
    let mut classes: Vec<&'static str> = vec![];
    if near_limit(payload_len) {
        classes.push("near-size-limit");
    }
    classes.push(if in_range { "in-range" } else { "over-size" });
    if c.msg.is_r2c() {
        let real = build_r2c(&c.msg);
        let enc = codec::relay_to_client_to_bytes(&real);
        let predicted = codec::relay_to_client_encoded_len(&real);
        check!(predicted == enc.len(), "C10:encoded-len", "encoded_len() = {predicted}, to_bytes() has {} bytes for {}", enc.len(), brief(&c.msg));
        check!(enc[..] == expect_bytes[..], "C10:encoding-bytes", "to_bytes() differs from the documented layout at byte {:?} for {} (lens {} / {})", first_diff(&enc, &expect_bytes), brief(&c.msg), enc.len(), expect_bytes.len());
        check!(codec::frame_type_to_bytes(real.typ())[..] == expect_bytes[..1], "C10:frame-type", "typ() = {:?} for {}", real.typ(), brief(&c.msg));
        for v in [ProtocolVersion::V1, ProtocolVersion::V2] {
            let allowed = match c.msg {
                MsgSpec::R2cHealth(_) => v == ProtocolVersion::V1,
                MsgSpec::R2cStatus(_) => v == ProtocolVersion::V2,
                _ => true,
            };
            for round in 0..2 {
                let res = codec::relay_to_client_from_bytes(enc.clone(), &cache, v);
                match res {
                    Ok(back) => {
                        check!(allowed, "C10:version-not-enforced", "{} decoded in {v:?}", brief(&c.msg));
                        check!(back == real, "C10:roundtrip", "decode(encode(m)) != m in {v:?} (round {round}) for {}: got {}", brief(&c.msg), brief_ref(&observe_r2c(&back)));
                        check!(observe_r2c(&back) == observe_r2c(&real), "C10:roundtrip", "fields differ after round trip for {}", brief(&c.msg));
                    }
                    Err(e) => {
                        let _ = format!("{e} {e:?}");
                        if !allowed {
                            check!(matches!(e, Error::FrameNotAllowedInVersion { .. }) || !in_range, "C10:version-error-kind", "{} in {v:?} rejected with {e:?}", brief(&c.msg));
                            if !classes.contains(&"rejected-in-other-version") {
                                classes.push("rejected-in-other-version");
                            }
                        } else {
                            check!(!in_range, "C10:roundtrip-rejected", "{} ({} payload bytes, limit {MAX_PACKET_SIZE}) rejected by its own decoder in {v:?}: {e:?}", brief(&c.msg), payload_len);
                        }
                    }
                }
            }
        }
        // the client-to-relay decoder does not take relay-to-client-only frames for something else
        if let Ok(m) = codec::client_to_relay_from_bytes(enc.clone(), &cache) {
            check!(matches!(c.msg, MsgSpec::R2cPing(_) | MsgSpec::R2cPong(_)), "C10:cross-direction", "relay-to-client frame {} decoded by the relay side as {}", brief(&c.msg), brief_ref(&observe_c2r(&m)));
        }
        // relay-side sender: whatever it lets through, the client decoder accepts
        let sink = MemSink::default();
        let mut stream = RelayedStream::new(sink.clone(), KeyCache::new(0));
        match Pin::new(&mut stream).start_send(real.clone()) {
            Ok(()) => {
                let sent = std::mem::take(&mut *sink.sent.lock().unwrap());
                check!(sent.len() == 1 && sent[0] == enc, "C10:sender-bytes", "RelayedStream sent {} frames / different bytes for {}", sent.len(), brief(&c.msg));
                let v = if matches!(c.msg, MsgSpec::R2cHealth(_)) { ProtocolVersion::V1 } else { ProtocolVersion::V2 };
                let res = codec::relay_to_client_from_bytes(sent[0].clone(), &cache, v);
                check!(res.is_ok(), "C10:sender-receiver-limit", "RelayedStream::start_send accepted {} ({} bytes) but the client decoder rejects it: {:?}", brief(&c.msg), enc.len(), res.err());
                classes.push("relay-sender-accepts");
            }
            Err(e) => {
                let _ = format!("{e} {e:?}");
                classes.push("relay-sender-rejects");
            }
        }
    } else {
        let real = build_c2r(&c.msg);
        let enc = codec::client_to_relay_to_bytes(&real);
        let predicted = codec::client_to_relay_encoded_len(&real);
        check!(predicted == enc.len(), "C10:encoded-len", "encoded_len() = {predicted}, to_bytes() has {} bytes for {}", enc.len(), brief(&c.msg));
        check!(enc[..] == expect_bytes[..], "C10:encoding-bytes", "to_bytes() differs from the documented layout at byte {:?} for {} (lens {} / {})", first_diff(&enc, &expect_bytes), brief(&c.msg), enc.len(), expect_bytes.len());
        for round in 0..2 {
            match codec::client_to_relay_from_bytes(enc.clone(), &cache) {
                Ok(back) => {
                    check!(back == real, "C10:roundtrip", "decode(encode(m)) != m (round {round}) for {}: got {}", brief(&c.msg), brief_ref(&observe_c2r(&back)));
                    check!(observe_c2r(&back) == observe_c2r(&real), "C10:roundtrip", "fields differ after round trip for {}", brief(&c.msg));
                }
                Err(e) => {
                    let _ = format!("{e} {e:?}");
                    check!(!in_range, "C10:roundtrip-rejected", "{} ({} payload bytes, limit {MAX_PACKET_SIZE}) rejected by its own decoder: {e:?}", brief(&c.msg), payload_len);
                }
            }
        }
        for v in [ProtocolVersion::V1, ProtocolVersion::V2] {
            if let Ok(m) = codec::relay_to_client_from_bytes(enc.clone(), &cache, v) {
                check!(matches!(c.msg, MsgSpec::C2rPing(_) | MsgSpec::C2rPong(_)), "C10:cross-direction", "client-to-relay frame {} decoded by the client side as {}", brief(&c.msg), brief_ref(&observe_r2c(&m)));
            }
        }
    }
    Outcome::pass_with(near_limit(payload_len), classes)
}

fn first_diff(a: &[u8], b: &[u8]) -> Option<usize> {
    a.iter().zip(b.iter()).position(|(x, y)| x != y).or_else(|| (a.len() != b.len()).then_some(a.len().min(b.len())))
}

fn brief(m: &MsgSpec) -> String {
    format!("{m:?}")
}

fn brief_ref(m: &RefMsg) -> String {
    match m {
        RefMsg::Datagrams { key, ecn_byte, seg, contents } => format!("Datagrams {{ key {}.., ecn {ecn_byte}, seg {seg:?}, {} content bytes }}", gens::hex_lower(&key[..4]), contents.len()),
        RefMsg::Health(s) => format!("Health({} bytes)", s.len()),
        other => format!("{other:?}"),
    }
}

// ---------------------------------------------------------------------------------------------
// part 2: decoding is total; accept/reject and value agree with the reference decoder

#[derive(Debug, Clone, Serialize, Deserialize)]
enum Edit {
    Flip(u16, u8),
    Truncate(u16),
    Insert(u16, u8),
    /// resize the whole frame so that its payload has exactly this many bytes
    ResizePayload(usize, u8),
    /// overwrite the frame type byte
    SetTag(u8),
    /// overwrite the 32 key bytes with a (possibly invalid) key candidate
    SetKey([u8; 32]),
    /// prefix the frame with a longer varint form of its tag (2, 4 or 8 bytes)
    WidenTag(u8),
}

#[derive(Debug, Clone, Serialize, Deserialize)]
struct DecCase {
    base: Option<MsgSpec>,
    raw: Vec<u8>,
    edits: Vec<Edit>,
    cache_cap: u8,
}

fn small_msg_spec() -> impl Strategy<Value = MsgSpec> + Clone {
    // like msg_spec(), but mostly small payloads: edits matter more than size here
    let small_dg = (prop_oneof![4 => (0usize..40, any::<u8>()).prop_map(|(len, fill)| Payload { len, fill }), 1 => contents()], 0u8..4, prop_oneof![3 => Just(None), 1 => (1u16..50).prop_map(Some)])
        .prop_map(|(contents, ecn, seg)| Dg { ecn, seg, contents });
    let sk = || gens::secret_bytes();
    prop_oneof![
        4 => (sk(), small_dg.clone()).prop_map(|(sk, dg)| MsgSpec::R2cDatagrams { sk, dg }),
        4 => (sk(), small_dg).prop_map(|(sk, dg)| MsgSpec::C2rDatagrams { sk, dg }),
        2 => sk().prop_map(|sk| MsgSpec::R2cEndpointGone { sk }),
        2 => any::<u8>().prop_map(MsgSpec::R2cStatus),
        2 => (ms(), ms()).prop_map(|(reconnect_ms, try_ms)| MsgSpec::R2cRestarting { reconnect_ms, try_ms }),
        1 => any::<[u8; 8]>().prop_map(MsgSpec::R2cPing),
        1 => any::<[u8; 8]>().prop_map(MsgSpec::R2cPong),
        2 => (0usize..40, 0u8..4, 0u8..5).prop_map(|(len, width, lead)| MsgSpec::R2cHealth(HealthSpec { len, width, lead })),
        1 => health().prop_map(MsgSpec::R2cHealth),
        1 => any::<[u8; 8]>().prop_map(MsgSpec::C2rPing),
    ]
}

fn dec_strategy() -> impl Strategy<Value = DecCase> + Clone {
    let edit = prop_oneof![
        4 => (any::<u16>(), 1u8..=255).prop_map(|(p, x)| Edit::Flip(p, x)),
        2 => any::<u16>().prop_map(Edit::Truncate),
        2 => (any::<u16>(), any::<u8>()).prop_map(|(p, b)| Edit::Insert(p, b)),
        2 => (gens::len_near(&[8, 32, 33, 35, 65_536], 66_000), any::<u8>()).prop_map(|(n, f)| Edit::ResizePayload(n, f)),
        3 => prop_oneof![0u8..16, any::<u8>()].prop_map(Edit::SetTag),
        2 => gens::key_candidate().prop_map(Edit::SetKey),
        1 => (0u8..3).prop_map(Edit::WidenTag),
    ];
    let raw = prop_oneof![
        3 => proptest::collection::vec(any::<u8>(), 0..80),
        3 => (0u8..16, proptest::collection::vec(any::<u8>(), 0..80)).prop_map(|(t, mut v)| { v.insert(0, t); v }),
        2 => (4u8..8, gens::key_candidate(), proptest::collection::vec(any::<u8>(), 0..20)).prop_map(|(t, k, rest)| { let mut v = vec![t]; v.extend(k); v.extend(rest); v }),
    ];
    (proptest::option::weighted(0.75, small_msg_spec()), raw, proptest::collection::vec(edit, 0..4), prop_oneof![Just(0u8), Just(2)])
        .prop_map(|(base, raw, edits, cache_cap)| DecCase { base, raw, edits, cache_cap })
}

fn apply_edits(mut v: Vec<u8>, edits: &[Edit]) -> Vec<u8> {
    for e in edits {
        match e {
            Edit::Flip(p, x) if !v.is_empty() => {
                let i = gens::pick(*p, v.len());
                v[i] ^= x;
            }
            Edit::Truncate(p) => v.truncate(gens::pick(*p, v.len() + 1)),
            Edit::Insert(p, b) => v.insert(gens::pick(*p, v.len() + 1), *b),
            Edit::ResizePayload(n, f) => {
                let used = varint(&v).map(|(_, u)| u).unwrap_or(v.len().min(1));
                v.resize(used + n, *f);
            }
            Edit::SetTag(t) if !v.is_empty() => v[0] = *t,
            Edit::SetKey(k) => {
                let used = varint(&v).map(|(_, u)| u).unwrap_or(1);
                if v.len() >= used + 32 {
                    v[used..used + 32].copy_from_slice(k);
                }
            }
            Edit::WidenTag(w) => {
                if let Some((tag, used)) = varint(&v) {
                    let width = [2usize, 4, 8][*w as usize % 3];
                    let mut head = tag.to_be_bytes()[8 - width..].to_vec();
                    if tag < (1u64 << (8 * width - 2)) {
                        head[0] |= (width.trailing_zeros() as u8) << 6;
                        v.splice(..used, head);
                    }
                }
            }
            _ => {}
        }
    }
    v
}

fn dec_case(c: &DecCase) -> Outcome {
    let base = c.base.as_ref().map(ref_encode).unwrap_or_else(|| c.raw.clone());
    let bytes = apply_edits(base, &c.edits);
    let cache = KeyCache::new(c.cache_cap as usize);
    let mut accepted = 0;
    let mut classes: Vec<&'static str> = vec![];
    for dir in [Dir::R2c(ProtocolVersion::V1), Dir::R2c(ProtocolVersion::V2), Dir::C2r] {
        let reference = ref_decode(&bytes, dir);
        let b = Bytes::from(bytes.clone());
        // real decoder; twice, so that the second call goes through the key cache
        let mut results = vec![];
        for _ in 0..2 {
            let r: Result<RefMsg, String> = match dir {
                Dir::R2c(v) => match codec::relay_to_client_from_bytes(b.clone(), &cache, v) {
                    Ok(m) => {
                        // an accepted value can be inspected, re-encoded and decodes to itself
                        let _ = format!("{m} {m:?} {:?}", m.typ());
                        let again = codec::relay_to_client_to_bytes(&m);
                        check!(codec::relay_to_client_encoded_len(&m) == again.len(), "C10:encoded-len", "accepted value {}: encoded_len {} != {}", brief_ref(&observe_r2c(&m)), codec::relay_to_client_encoded_len(&m), again.len());
                        match codec::relay_to_client_from_bytes(again.clone(), &cache, v) {
                            Ok(m2) => check!(m2 == m, "C10:reencode", "accepted value {} re-encodes to something that decodes differently", brief_ref(&observe_r2c(&m))),
                            Err(e) => check!(again.len() - 1 > MAX_PACKET_SIZE, "C10:reencode", "accepted value {} re-encodes to bytes its decoder rejects: {e:?}", brief_ref(&observe_r2c(&m))),
                        }
                        Ok(observe_r2c(&m))
                    }
                    Err(e) => Err(format!("{e} / {e:?}")),
                },
                Dir::C2r => match codec::client_to_relay_from_bytes(b.clone(), &cache) {
                    Ok(m) => {
                        let _ = format!("{m:?}");
                        let again = codec::client_to_relay_to_bytes(&m);
                        check!(codec::client_to_relay_encoded_len(&m) == again.len(), "C10:encoded-len", "accepted value {}: encoded_len != len", brief_ref(&observe_c2r(&m)));
                        match codec::client_to_relay_from_bytes(again.clone(), &cache) {
                            Ok(m2) => check!(m2 == m, "C10:reencode", "accepted value {} re-encodes to something that decodes differently", brief_ref(&observe_c2r(&m))),
                            Err(e) => check!(again.len() - 1 > MAX_PACKET_SIZE, "C10:reencode", "accepted value {} re-encodes to bytes its decoder rejects: {e:?}", brief_ref(&observe_c2r(&m))),
                        }
                        Ok(observe_c2r(&m))
                    }
                    Err(e) => Err(format!("{e} / {e:?}")),
                },
            };
            results.push(r);
        }
        check!(results[0].is_ok() == results[1].is_ok() && (results[0].is_err() || results[0] == results[1]), "C10:decode-not-deterministic", "{dir:?}: first decode {:?}, second {:?}", results[0].as_ref().map(brief_ref), results[1].as_ref().map(brief_ref));
        let head = gens::hex_lower(&bytes[..bytes.len().min(40)]);
        match (&results[0], &reference) {
            (Ok(m), Ref::Accept(r)) | (Ok(m), Ref::Either(r, _)) => {
                check!(same_value(m, r), "C10:decode-value", "{dir:?} decodes {head}.. ({} bytes) to {}, the documented layout gives {}", bytes.len(), brief_ref(m), brief_ref(r));
                accepted += 1;
                if let Ref::Either(_, why) = reference {
                    classes.push(why);
                }
            }
            (Ok(m), Ref::Reject(why)) => {
                return Outcome::violation(if *why == "health frames were removed in protocol v2" || *why == "status frames may not be sent to v1 clients" { "C10:version-not-enforced" } else { "C10:decode-accepts-invalid" }, format!("{dir:?} accepts {head}.. ({} bytes) as {}; by the documented layout it is invalid: {why}", bytes.len(), brief_ref(m)));
            }
            (Err(e), Ref::Accept(r)) => {
                return Outcome::violation("C10:decode-rejects-valid", format!("{dir:?} rejects {head}.. ({} bytes) with {e}; the documented layout gives {}", bytes.len(), brief_ref(r)));
            }
            (Err(_), Ref::Either(_, why)) => classes.push(why),
            (Err(_), Ref::Reject(_)) => {}
        }
    }
    let edited = !c.edits.is_empty() || c.base.is_none();
    classes.push(match (edited, accepted > 0) {
        (true, true) => "edited-and-accepted",
        (true, false) => "edited-and-rejected",
        (false, _) => "unedited",
    });
    classes.dedup();
    Outcome::pass_with(edited && accepted > 0, classes)
}

// ---------------------------------------------------------------------------------------------
// part 3: the client's sender check against the relay's decoder, over a real websocket

#[derive(Debug, Clone, Serialize, Deserialize)]
struct SinkCase {
    msgs: Vec<MsgSpec>,
    version: u8,
}

fn sink_strategy() -> impl Strategy<Value = SinkCase> + Clone {
    let near = (gens::secret_bytes(), (gens::payload(&[65_500, 65_502, 65_504], 66_000), 0u8..4, prop_oneof![2 => Just(None), 1 => (1u16..2000).prop_map(Some), 1 => Just(Some(65_535))]).prop_map(|(contents, ecn, seg)| Dg { ecn, seg, contents }))
        .prop_map(|(sk, dg)| MsgSpec::C2rDatagrams { sk, dg });
    let m = prop_oneof![
        6 => near,
        1 => any::<[u8; 8]>().prop_map(MsgSpec::C2rPing),
        1 => any::<[u8; 8]>().prop_map(MsgSpec::C2rPong),
    ];
    (proptest::collection::vec(m, 1..5), 0u8..2).prop_map(|(msgs, version)| SinkCase { msgs, version })
}

fn sink_case(c: &SinkCase) -> Outcome {
    engine::real_rt(async move { sink_async(c).await })
}

async fn sink_async(c: &SinkCase) -> Outcome {
    let listener = match tokio::net::TcpListener::bind("127.0.0.1:0").await {
        Ok(l) => l,
        Err(e) => {
            eprintln!("C10: cannot bind loopback listener: {e}");
            std::process::exit(2);
        }
    };
    let addr = listener.local_addr().expect("addr");
    let (client_tcp, server_tcp) = match tokio::join!(tokio::net::TcpStream::connect(addr), listener.accept()) {
        (Ok(c), Ok((s, _))) => (c, s),
        (a, b) => {
            eprintln!("C10: loopback connect failed: {:?} {:?}", a.err(), b.err());
            std::process::exit(2);
        }
    };
    let _ = client_tcp.set_nodelay(true);
    // close with RST: thousands of short-lived loopback connections must not pile up in TIME_WAIT
    #[allow(deprecated)]
    {
        let _ = client_tcp.set_linger(Some(std::time::Duration::ZERO));
        let _ = server_tcp.set_linger(Some(std::time::Duration::ZERO));
    }
    let version = if c.version == 0 { ProtocolVersion::V1 } else { ProtocolVersion::V2 };
    let mut conn = codec::client_conn_over_tcp(client_tcp, KeyCache::new(0), version);
    // relay side: the same websocket configuration as the relay server's accept path
    let mut server = tokio_websockets::ServerBuilder::new()
        .limits(tokio_websockets::Limits::default().max_payload_len(Some(1024 * 1024)))
        .serve(server_tcp);
    let cache = KeyCache::new(4);
    let (mut sent, mut refused, mut near) = (0, 0, 0);
    for (i, spec) in c.msgs.iter().enumerate() {
        let msg = build_c2r(spec);
        let predicted = codec::client_to_relay_encoded_len(&msg);
        if near_limit(predicted - 1) {
            near += 1;
        }
        match conn.send(msg.clone()).await {
            Err(e) => {
                let text = format!("{e} {e:?}");
                check!(!text.contains("StreamError"), "C10:harness-io", "message {i}: websocket error while sending: {text}");
                refused += 1;
            }
            Ok(()) => {
                sent += 1;
                let frame = loop {
                    match tokio::time::timeout(std::time::Duration::from_secs(20), server.next()).await {
                        Err(_) => {
                            eprintln!("C10: websocket frame did not arrive over loopback within 20 s");
                            std::process::exit(2);
                        }
                        Ok(None) => return Outcome::violation("C10:harness-io", format!("message {i}: websocket closed")),
                        Ok(Some(Err(e))) => return Outcome::violation("C10:sender-receiver-limit", format!("message {i} ({}; {predicted} bytes) was accepted by the client sink but the relay's websocket layer refuses it: {e}", brief(spec))),
                        Ok(Some(Ok(m))) if m.is_binary() => break Bytes::from(m.into_payload()),
                        Ok(Some(Ok(_))) => continue,
                    }
                };
                check!(frame.len() == predicted, "C10:encoded-len", "message {i}: {} bytes on the wire, encoded_len {predicted}", frame.len());
                match codec::client_to_relay_from_bytes(frame, &cache) {
                    Ok(back) => check!(back == msg, "C10:roundtrip", "message {i} ({}) arrives as {}", brief(spec), brief_ref(&observe_c2r(&back))),
                    Err(e) => return Outcome::violation("C10:sender-receiver-limit", format!("message {i} ({}; {predicted} bytes) passed the client's size check but the relay's decoder rejects it: {e:?}", brief(spec))),
                }
            }
        }
    }
    let mut classes = vec![];
    if sent > 0 {
        classes.push("client-sender-accepts");
    }
    if refused > 0 {
        classes.push("client-sender-rejects");
    }
    Outcome::pass_with(near > 0, classes)
}

// ---------------------------------------------------------------------------------------------
// part 4: frame types (finite, enumerated)

#[derive(Debug, Clone, Serialize, Deserialize)]
struct TagCase {
    tag: u64,
    /// varint width in bytes: 1, 2, 4 or 8
    width: u8,
    trailing: u8,
}

fn tag_cases() -> Vec<TagCase> {
    let mut v = vec![];
    for tag in (0u64..80).chain([255, 256, 16_383, 16_384, (1 << 30) - 1, 1 << 30, u32::MAX as u64, u32::MAX as u64 + 1, u32::MAX as u64 + 5, (1 << 62) - 1]) {
        for width in [1u8, 2, 4, 8] {
            if tag < (1u64 << (8 * width as u32 - 2)) {
                for trailing in [0u8, 3] {
                    v.push(TagCase { tag, width, trailing });
                }
            }
        }
    }
    v
}

fn tag_case(c: &TagCase) -> Outcome {
    let w = c.width as usize;
    let mut enc = c.tag.to_be_bytes()[8 - w..].to_vec();
    enc[0] |= (w.trailing_zeros() as u8) << 6;
    enc.extend(std::iter::repeat_n(0xEE, c.trailing as usize));
    let mut buf = Bytes::from(enc.clone());
    let got = codec::frame_type_from_bytes(&mut buf);
    let known = c.tag <= 13;
    match got {
        Ok(t) => {
            check!(known, "C10:frame-type", "tag {} decoded as {t:?}", c.tag);
            check!(u32::from(t) as u64 == c.tag, "C10:frame-type", "tag {} decoded as {t:?}", c.tag);
            check!(buf.len() == c.trailing as usize, "C10:frame-type", "decoding tag {} ({w}-byte form) consumed {} bytes", c.tag, enc.len() - buf.len());
            // canonical encoding
            let out = codec::frame_type_to_bytes(t);
            check!(out == vec![c.tag as u8] && codec::frame_type_encoded_len(t) == 1, "C10:frame-type", "{t:?} encodes to {out:?} / len {}", codec::frame_type_encoded_len(t));
            let _ = format!("{t:?}");
        }
        Err(e) => {
            let _ = format!("{e} {e:?}");
            check!(!known, "C10:frame-type", "known tag {} in {w}-byte form rejected: {e:?}", c.tag);
        }
    }
    // truncated varints are rejected, not read out of bounds
    for cut in 0..w {
        let mut b = Bytes::from(enc[..cut].to_vec());
        check!(codec::frame_type_from_bytes(&mut b).is_err(), "C10:frame-type", "truncated varint ({cut} of {w} bytes) accepted");
    }
    Outcome::pass_with(known, vec![if known { "known-tag" } else { "unknown-tag" }])
}

/// Fuzz entry: raw frame bytes through both decoders and both versions, with the differential
/// against the harness's own codec in-target.
pub fn fuzz_decode(data: &[u8]) -> Outcome {
    dec_case(&DecCase { base: None, raw: data.to_vec(), edits: vec![], cache_cap: 4 })
}

pub fn fuzz_decode_seeds() -> Vec<Vec<u8>> {
    let k = [7u8; 32];
    let pk = key(&k);
    let mut seeds = vec![];
    for tag in [4u8, 5, 6, 7] {
        let mut v = vec![tag];
        v.extend_from_slice(pk.as_bytes());
        v.push(1);
        if tag % 2 == 1 { v.extend_from_slice(&[0, 3]); }
        v.extend_from_slice(b"hello world");
        seeds.push(v);
    }
    let mut gone = vec![8u8]; gone.extend_from_slice(pk.as_bytes()); seeds.push(gone);
    seeds.push(vec![9, 1, 2, 3, 4, 5, 6, 7, 8]);
    seeds.push(vec![10, 1, 2, 3, 4, 5, 6, 7, 8]);
    seeds.push([&[11u8][..], b"problem"].concat());
    seeds.push(vec![12, 0, 0, 0, 5, 0, 0, 0, 9]);
    seeds.push(vec![13, 1]);
    seeds
}

pub fn run(ctx: &Ctx) {
    ctx.rule("roundtrip: every message type of both directions (datagram contents dense within +-4 of 65501/65503/65536 and small, segment size None/1/len-1/len/len+1/65535/random, ecn 0..3, health strings of ASCII/2/3/4-byte characters with lengths around 65535/65536, restarting durations over u32 ms, status 0..255) in both protocol versions and with key caches of capacity 0/1/4; exact bytes against an own encoder; non-trivial = payload within 4 bytes of a size limit");
    ctx.rule("decode: encodings of generated messages with 0..3 edits (flip, truncate, insert, resize payload to lengths around 8/32/33/35/65536, overwrite tag, overwrite key with valid/invalid/non-canonical candidates, widen the tag varint) and raw byte strings, through both decoders and both versions, compared with an own decoder written from the frame documentation; non-trivial = edited input that a decoder accepts");
    ctx.rule("client_sink: 1..4 client messages with contents around the client's size limit sent through the real client sink over a loopback websocket to the relay's decoder; frame_types: all varint forms of tags 0..79 and boundary tags, enumerated");
    ctx.assume("in range means: payload after the frame type at most MAX_PACKET_SIZE (the public constant); larger messages only need not panic");
    ctx.assume("left open by the frame documentation and accepted either way: batch frame with segment size 0, datagram frame with empty contents, status frame with trailing bytes, ECN byte above 3");
    ctx.assume("curve25519-dalek point decompression decides which 32-byte strings are public keys");
    let k = ctx.tier.pick(1, 10);
    ctx.enumerate("frame_types", tag_cases(), tag_case);
    ctx.explore("roundtrip", ExploreOpts::new(24_000 * k), rt_strategy, rt_case);
    ctx.explore("decode", ExploreOpts::new(150_000 * k), dec_strategy, dec_case);
    ctx.explore("client_sink", ExploreOpts::new(4_000 * k).workers(4), sink_strategy, sink_case);
    let _ = FrameType::Ping;
    ctx.fuzz_campaign("c10_decode", ctx.tier.pick(0, 2_000_000), 300, fuzz_decode_seeds(), &fuzz_decode);
}
