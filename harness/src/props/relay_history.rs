//! Model-based histories against the real relay registry (`Clients`) over in-memory
//! connections.  Shared by C04 (forwarding) and C06 (registry).

use std::collections::{BTreeMap, BTreeSet};

use iroh_relay::{http::ProtocolVersion, server::ConnectionId};
use proptest::prelude::*;
use serde::{Deserialize, Serialize};

use crate::{
    engine::Outcome,
    support::{
        gens::{self, Payload},
        memrelay::{self, ClientEnd, Dgram, FromRelay, Relay, WireDgram},
    },
};

pub const N_EP: u8 = 4;
/// Per-connection queue depth used by the harness (public `Config::channel_capacity`): small, so
/// that a stalled receiver overflows it within a short burst.
pub const QUEUE_DEPTH: usize = 4;
/// destination index that maps to an id nobody ever connects with
pub const ABSENT: u8 = N_EP;

#[derive(Debug, Clone, Serialize, Deserialize)]
pub enum Op {
    Connect { ep: u8, v2: bool },
    /// client closes its end (eof or error), chosen among all connections ever made
    Close { conn: u16, err: bool },
    Send { conn: u16, dst: u8, d: Dgram },
    /// several sends enqueued before a single settle
    Burst(Vec<(u16, u8, Dgram)>),
    /// `Clients::disconnect(ep, which)`; `which` indexes the connections ever made for `ep`
    Disconnect { ep: u8, which: Option<u16> },
    /// `Clients::shutdown()`
    ShutdownAll,
    /// a send whose destination's active connection has a stalled socket (flushes pending) for
    /// `stall_ms` of virtual time, below or above the relay's write timeout
    StalledSend { conn: u16, dst: u8, d: Dgram, stall_ms: u16 },
    /// two connections of one endpoint whose connection ids are assigned in one order and which
    /// are registered in the other (overlapping handshakes)
    ConnectReordered { ep: u8 },
    /// queue overflow: the destination's socket is stalled while `first` datagrams are sent to
    /// it from one connection; it resumes, and `then` more datagrams follow at once
    StalledBurst { conn: u16, dst: u8, first: u8, then: u8, stall_ms: u16 },
}

#[derive(Debug, Clone, Copy, PartialEq, Eq)]
pub enum Focus {
    Forwarding,
    Registry,
}

pub fn dgram(max_len: usize) -> BoxedStrategy<Dgram> {
    let contents = prop_oneof![
        8 => (1usize..64, any::<u8>()).prop_map(|(len, fill)| Payload { len, fill }),
        3 => (1usize..2000, any::<u8>()).prop_map(|(len, fill)| Payload { len, fill }),
        1 => (1usize..=max_len, any::<u8>()).prop_map(|(len, fill)| Payload { len, fill }),
        1 => (0usize..6, any::<u8>()).prop_map(move |(d, fill)| Payload { len: max_len - d, fill }),
    ];
    (contents, 0u8..4, prop_oneof![3 => Just(None), 1 => Just(Some(0u16)), 3 => (1u16..=1500).prop_map(Some), 1 => any::<u16>().prop_map(Some)])
        .prop_map(|(mut contents, ecn, seg)| {
            if seg.is_some() {
                // the batch header takes two more bytes
                contents.len = contents.len.min(65_500).max(1);
            }
            Dgram { ecn, seg, contents }
        })
        .boxed()
}

pub fn op(focus: Focus) -> BoxedStrategy<Op> {
    let send = (any::<u16>(), 0u8..=N_EP, dgram(65_502)).prop_map(|(conn, dst, d)| Op::Send { conn, dst, d });
    let burst = proptest::collection::vec((any::<u16>(), 0u8..=N_EP, dgram(3000)), 2..8).prop_map(Op::Burst);
    let connect = (0u8..N_EP, prop_oneof![4 => Just(true), 1 => Just(false)]).prop_map(|(ep, v2)| Op::Connect { ep, v2 });
    // registry focus: concentrate connections on endpoint 0
    let connect0 = prop_oneof![3 => Just(0u8), 1 => 1u8..N_EP].prop_flat_map(|ep| prop_oneof![3 => Just(true), 1 => Just(false)].prop_map(move |v2| Op::Connect { ep, v2 }));
    let close = (any::<u16>(), any::<bool>()).prop_map(|(conn, err)| Op::Close { conn, err });
    let disc = (0u8..N_EP, proptest::option::weighted(0.7, any::<u16>())).prop_map(|(ep, which)| Op::Disconnect { ep, which });
    let stalled = (any::<u16>(), 0u8..N_EP, dgram(3000), prop_oneof![Just(300u16), Just(700), Just(1500), Just(2500)])
        .prop_map(|(conn, dst, d, stall_ms)| Op::StalledSend { conn, dst, d, stall_ms });
    let reordered = prop_oneof![3 => Just(0u8), 1 => 1u8..N_EP].prop_map(|ep| Op::ConnectReordered { ep });
    let stalled_burst = (any::<u16>(), 0u8..N_EP, 4u8..10, 1u8..5, prop_oneof![Just(200u16), Just(600)])
        .prop_map(|(conn, dst, first, then, stall_ms)| Op::StalledBurst { conn, dst, first, then, stall_ms });
    match focus {
        Focus::Forwarding => prop_oneof![4 => connect, 2 => close, 8 => send, 3 => burst, 1 => disc, 1 => Just(Op::ShutdownAll).prop_filter("rare", |_| true), 2 => stalled, 1 => reordered, 2 => stalled_burst].boxed(),
        Focus::Registry => prop_oneof![6 => connect0, 4 => close, 6 => send, 3 => disc, 1 => burst, 1 => stalled, 2 => reordered].boxed(),
    }
}

#[derive(Debug, Clone, Serialize, Deserialize)]
pub struct History {
    pub ops: Vec<Op>,
}

pub fn history(focus: Focus, max_ops: usize) -> impl Strategy<Value = History> {
    proptest::collection::vec(op(focus), 1..max_ops).prop_map(|ops| History { ops })
}

struct Conn {
    ep: u8,
    v2: bool,
    end: ClientEnd,
    id: ConnectionId,
    /// client has not closed and the model believes the relay still runs it
    alive: bool,
    /// shut down by a bulk request in this step: control frames are not pinned down
    dying: bool,
}

#[derive(Debug, Clone, PartialEq, Eq, PartialOrd, Ord)]
enum Expect {
    Dgram { src: u8, d: (u8, Option<u16>, Vec<u8>) },
    Displaced,
    Healthy,
    Gone(u8),
}

fn wire_key(d: &WireDgram) -> (u8, Option<u16>, Vec<u8>) {
    (d.ecn, d.seg, d.contents.to_vec())
}

fn ep_id(ep: u8) -> [u8; 32] {
    if ep == ABSENT {
        *memrelay::absent_id().as_bytes()
    } else {
        *memrelay::pool_key(ep).public().as_bytes()
    }
}

fn id_ep(id: &[u8; 32]) -> Option<u8> {
    (0..N_EP).find(|e| &ep_id(*e) == id)
}

#[derive(Default)]
pub struct Summary {
    pub delivered: usize,
    pub dup_send: bool,
    pub promotion: bool,
    pub max_conns_one_ep: usize,
    pub gone_notice: bool,
    pub displaced: bool,
    pub stalled: bool,
    pub reordered_ids: bool,
    pub overflow: bool,
}

pub fn run_history(h: &History, focus: Focus, prop: &str) -> Outcome {
    crate::engine::paused_rt(async move { run_history_async(h, focus, prop).await })
}

async fn run_history_async(h: &History, focus: Focus, prop: &str) -> Outcome {
    macro_rules! fail {
        ($sig:expr, $($arg:tt)*) => {
            return Outcome::violation(format!("{}:{}", prop, $sig), format!($($arg)*))
        };
    }
    let relay = Relay::new();
    // forwarding focus: shallow queues so that bursts overflow (drops are allowed there);
    // registry focus asserts delivery and notices, which presuppose queue room
    let depth = if focus == Focus::Forwarding { Some(QUEUE_DEPTH) } else { None };
    let mut conns: Vec<Conn> = vec![];
    // model
    let mut stack: BTreeMap<u8, Vec<usize>> = BTreeMap::new();
    let mut sent_to: BTreeMap<u8, BTreeSet<u8>> = BTreeMap::new();
    let mut sum = Summary::default();

    for (step, op) in h.ops.iter().enumerate() {
        let mut exp: BTreeMap<usize, Vec<Expect>> = BTreeMap::new();
        // per step: order constraints for bursts: (receiver conn, src ep) -> expected sequence
        let mut order: BTreeMap<(usize, u8), Vec<(u8, Option<u16>, Vec<u8>)>> = BTreeMap::new();
        let mut order_ambiguous: BTreeSet<(usize, u8)> = BTreeSet::new();
        let mut burst_senders: BTreeMap<(u8, u8), BTreeSet<usize>> = BTreeMap::new();

        // removes conn `c` from the model as the relay's unregister would
        fn model_unregister(
            c: usize,
            conns: &[Conn],
            stack: &mut BTreeMap<u8, Vec<usize>>,
            sent_to: &mut BTreeMap<u8, BTreeSet<u8>>,
            exp: &mut BTreeMap<usize, Vec<Expect>>,
            sum: &mut Summary,
        ) {
            let ep = conns[c].ep;
            let Some(st) = stack.get_mut(&ep) else { return };
            let Some(pos) = st.iter().position(|x| *x == c) else { return };
            let was_top = pos + 1 == st.len();
            st.remove(pos);
            if was_top {
                if let Some(&next) = st.last() {
                    exp.entry(next).or_default().push(Expect::Healthy);
                    sum.promotion = true;
                }
            }
            if st.is_empty() {
                stack.remove(&ep);
                if let Some(peers) = sent_to.remove(&ep) {
                    for p in peers {
                        if let Some(&top) = stack.get(&p).and_then(|s| s.last()) {
                            exp.entry(top).or_default().push(Expect::Gone(ep));
                            sum.gone_notice = true;
                        }
                    }
                }
            }
        }

        let mut do_send = |conns: &[Conn], c: usize, dst: u8, d: &Dgram,
                           exp: &mut BTreeMap<usize, Vec<Expect>>,
                           sent_to: &mut BTreeMap<u8, BTreeSet<u8>>,
                           stack: &BTreeMap<u8, Vec<usize>>,
                           sum: &mut Summary| {
            if !conns[c].alive {
                return;
            }
            let frame = memrelay::encode_c2r_datagram(&ep_id(dst), d, None);
            if !conns[c].end.send(frame) {
                return;
            }
            if let Some(&top) = stack.get(&dst).and_then(|s| s.last()) {
                let key = wire_key(&d.wire());
                exp.entry(top).or_default().push(Expect::Dgram { src: conns[c].ep, d: key.clone() });
                order.entry((top, conns[c].ep)).or_default().push(key);
                let senders = burst_senders.entry((conns[c].ep, dst)).or_default();
                senders.insert(c);
                if senders.len() > 1 {
                    order_ambiguous.insert((top, conns[c].ep));
                }
                sent_to.entry(conns[c].ep).or_default().insert(dst);
                if stack.get(&dst).map(|s| s.len()).unwrap_or(0) >= 2 {
                    sum.dup_send = true;
                }
            }
        };

        match op {
            Op::Connect { ep, v2 } => {
                let id = memrelay::pool_key(*ep).public();
                let version = if *v2 { ProtocolVersion::V2 } else { ProtocolVersion::V1 };
                let (end, cid) = relay.connect(id, version, depth);
                let idx = conns.len();
                if conns.iter().any(|c| c.id == cid) {
                    fail!("connection-id-reused", "connection id {cid:?} reused");
                }
                conns.push(Conn { ep: *ep, v2: *v2, end, id: cid, alive: true, dying: false });
                let st = stack.entry(*ep).or_default();
                if let Some(&old) = st.last() {
                    exp.entry(old).or_default().push(Expect::Displaced);
                    sum.displaced = true;
                }
                st.push(idx);
                sum.max_conns_one_ep = sum.max_conns_one_ep.max(st.len());
            }
            Op::Close { conn, err } => {
                if conns.is_empty() { continue; }
                let c = gens::pick(*conn, conns.len());
                if conns[c].alive {
                    if *err { conns[c].end.send_error(); }
                    conns[c].end.close_write();
                    conns[c].alive = false;
                    model_unregister(c, &conns, &mut stack, &mut sent_to, &mut exp, &mut sum);
                }
            }
            Op::Send { conn, dst, d } => {
                if conns.is_empty() { continue; }
                let c = gens::pick(*conn, conns.len());
                do_send(&conns, c, *dst, d, &mut exp, &mut sent_to, &stack, &mut sum);
            }
            Op::Burst(sends) => {
                if conns.is_empty() { continue; }
                for (conn, dst, d) in sends {
                    let c = gens::pick(*conn, conns.len());
                    do_send(&conns, c, *dst, d, &mut exp, &mut sent_to, &stack, &mut sum);
                }
            }
            Op::Disconnect { ep, which } => {
                let of_ep: Vec<usize> = (0..conns.len()).filter(|i| conns[*i].ep == *ep).collect();
                let (arg, targets): (Option<ConnectionId>, Vec<usize>) = match which {
                    None => (None, stack.get(ep).cloned().unwrap_or_default()),
                    Some(w) => {
                        if of_ep.is_empty() {
                            // an id that was never issued for this endpoint: use another endpoint's
                            match conns.first() {
                                Some(c0) if c0.ep != *ep => (Some(c0.id), vec![]),
                                _ => continue,
                            }
                        } else {
                            let c = of_ep[gens::pick(*w, of_ep.len())];
                            let registered = stack.get(ep).is_some_and(|s| s.contains(&c));
                            (Some(conns[c].id), if registered { vec![c] } else { vec![] })
                        }
                    }
                };
                let expect_found = match which {
                    None => stack.contains_key(ep),
                    Some(_) => !targets.is_empty(),
                };
                let found = relay.clients.disconnect(memrelay::pool_key(*ep).public(), arg);
                if found != expect_found {
                    fail!("disconnect-result", "step {step}: disconnect({ep}, {arg:?}) returned {found}, model expects {expect_found}");
                }
                let bulk = targets.len() > 1;
                // unregister order among several cancelled actors is not pinned down: process
                // newest first (so no promotion notices are *required*), and mark them dying.
                let mut ts = targets.clone();
                ts.sort_by_key(|c| std::cmp::Reverse(stack.get(ep).and_then(|s| s.iter().position(|x| x == c))));
                for c in ts {
                    conns[c].alive = false;
                    conns[c].dying = bulk;
                    if bulk {
                        // remove without expectations on other dying connections
                        let mut scratch = BTreeMap::new();
                        model_unregister(c, &conns, &mut stack, &mut sent_to, &mut scratch, &mut sum);
                        for (k, v) in scratch {
                            if !conns[k].dying && !targets.contains(&k) {
                                exp.entry(k).or_default().extend(v);
                            }
                        }
                    } else {
                        model_unregister(c, &conns, &mut stack, &mut sent_to, &mut exp, &mut sum);
                    }
                }
            }
            Op::StalledSend { conn, dst, d, stall_ms } => {
                if conns.is_empty() { continue; }
                let c = gens::pick(*conn, conns.len());
                let top = stack.get(dst).and_then(|s| s.last()).copied();
                match top {
                    Some(top) if conns[c].alive => {
                        conns[top].end.set_flush_stalled(true);
                        do_send(&conns, c, *dst, d, &mut exp, &mut sent_to, &stack, &mut sum);
                        memrelay::settle().await;
                        tokio::time::sleep(std::time::Duration::from_millis(*stall_ms as u64)).await;
                        conns[top].end.set_flush_stalled(false);
                        sum.stalled = true;
                        // (a connection sending to itself is busy in its own un-timed tick flush
                        // while stalled, so the write timeout does not apply: it is only delayed)
                        if c != top && *stall_ms as u128 > memrelay::HARNESS_WRITE_TIMEOUT.as_millis() {
                            // the relay gives up on the stalled connection
                            conns[top].alive = false;
                            model_unregister(top, &conns, &mut stack, &mut sent_to, &mut exp, &mut sum);
                        }
                    }
                    _ => do_send(&conns, c, *dst, d, &mut exp, &mut sent_to, &stack, &mut sum),
                }
            }
            Op::ConnectReordered { ep } => {
                let id = memrelay::pool_key(*ep).public();
                // ids assigned x then y; registered y then x
                let x = relay.prepare(id, ProtocolVersion::V2, depth);
                let y = relay.prepare(id, ProtocolVersion::V2, depth);
                for p in [y, x] {
                    let (end, cid) = relay.register(p);
                    let idx = conns.len();
                    if conns.iter().any(|c| c.id == cid) {
                        fail!("connection-id-reused", "connection id {cid:?} reused");
                    }
                    conns.push(Conn { ep: *ep, v2: true, end, id: cid, alive: true, dying: false });
                    let st = stack.entry(*ep).or_default();
                    if let Some(&old) = st.last() {
                        exp.entry(old).or_default().push(Expect::Displaced);
                        sum.displaced = true;
                    }
                    st.push(idx);
                    sum.max_conns_one_ep = sum.max_conns_one_ep.max(st.len());
                }
                sum.reordered_ids = true;
            }
            Op::StalledBurst { conn, dst, first, then, stall_ms } => {
                if conns.is_empty() { continue; }
                let c = gens::pick(*conn, conns.len());
                let top = stack.get(dst).and_then(|s| s.last()).copied();
                if let (Some(top), true) = (top, conns[c].alive) {
                    if top != c {
                        let mk = |i: u8| Dgram { ecn: 0, seg: None, contents: Payload { len: 3 + i as usize, fill: i } };
                        // the receiver does not read: the relay's writes to it block
                        conns[top].end.set_credits(0);
                        for i in 0..*first {
                            do_send(&conns, c, *dst, &mk(i), &mut exp, &mut sent_to, &stack, &mut sum);
                        }
                        memrelay::settle().await;
                        tokio::time::sleep(std::time::Duration::from_millis(*stall_ms as u64)).await;
                        // then it reads one frame at a time while the sender keeps sending
                        for i in 0..*then {
                            conns[top].end.add_credit();
                            do_send(&conns, c, *dst, &mk(100 + i), &mut exp, &mut sent_to, &stack, &mut sum);
                            memrelay::settle().await;
                        }
                        conns[top].end.set_credits(usize::MAX);
                        sum.overflow = true;
                    }
                }
            }
            Op::ShutdownAll => {
                relay.clients.shutdown().await;
                for c in conns.iter_mut() {
                    if c.alive { c.dying = true; }
                    c.alive = false;
                }
                stack.clear();
            }
        }

        memrelay::settle().await;
        memrelay::settle().await;

        // observe
        for (i, c) in conns.iter_mut().enumerate() {
            let frames = c.end.drain();
            let mut got: Vec<Expect> = vec![];
            let mut got_order: BTreeMap<u8, Vec<(u8, Option<u16>, Vec<u8>)>> = BTreeMap::new();
            for f in frames {
                match f {
                    FromRelay::Datagrams { src, d } => {
                        let Some(src_ep) = id_ep(&src) else {
                            fail!("forged-sender", "step {step}: conn {i} received a datagram with sender id {} that is no connected client", gens::hex_lower(&src));
                        };
                        let key = wire_key(&d);
                        got_order.entry(src_ep).or_default().push(key.clone());
                        got.push(Expect::Dgram { src: src_ep, d: key });
                    }
                    FromRelay::Status(1) if c.v2 => got.push(Expect::Displaced),
                    FromRelay::Status(0) if c.v2 => got.push(Expect::Healthy),
                    FromRelay::Health(p) if !c.v2 => {
                        // v1 carries a free-text problem; map by the documented wording
                        if p.contains("healthy") { got.push(Expect::Healthy) } else { got.push(Expect::Displaced) }
                    }
                    FromRelay::EndpointGone(id) => match id_ep(&id) {
                        Some(e) => got.push(Expect::Gone(e)),
                        None => fail!("gone-unknown", "step {step}: EndpointGone for unknown id"),
                    },
                    FromRelay::Ping(data) => { c.end.send(memrelay::encode_pong(data)); }
                    FromRelay::Pong(_) => {}
                    other => fail!("unexpected-frame", "step {step}: conn {i} (ep {}, v2={}) received unexpected frame {other:?}", c.ep, c.v2),
                }
            }
            let mut want = exp.remove(&i).unwrap_or_default();
            let is_dgram = |e: &Expect| matches!(e, Expect::Dgram { .. });
            // --- datagrams: forwarding clauses (both properties care where traffic arrives)
            let mut got_d: Vec<&Expect> = got.iter().filter(|e| is_dgram(e)).collect();
            let mut want_d: Vec<&Expect> = want.iter().filter(|e| is_dgram(e)).collect();
            got_d.sort();
            want_d.sort();
            // every delivered batch must match a distinct send addressed to this connection's id
            let mut pool = want_d.clone();
            for g in &got_d {
                match pool.iter().position(|w| w == g) {
                    Some(p) => { pool.remove(p); }
                    None => {
                        let Expect::Dgram { src, d } = g else { unreachable!() };
                        fail!("misdelivery", "step {step} {op:?}: conn {i} (ep {}) received a batch from ep {src} (ecn {}, seg {:?}, {} bytes) that matches no outstanding send addressed to it on the active connection (duplicate, wrong connection, altered, or wrong sender)", c.ep, d.0, d.1, d.2.len());
                    }
                }
            }
            sum.delivered += got_d.len();
            if !pool.is_empty() && focus == Focus::Registry {
                fail!("traffic-not-delivered", "step {step} {op:?}: {} batch(es) for ep {} did not arrive on its newest open connection {i}", pool.len(), c.ep);
            }
            // order per sender id (when unambiguous): delivered is a subsequence of sent
            for (src, seq) in &got_order {
                if order_ambiguous.contains(&(i, *src)) { continue; }
                let sent = order.get(&(i, *src)).cloned().unwrap_or_default();
                let mut it = sent.iter();
                for g in seq {
                    if !it.any(|s| s == g) {
                        fail!("reordered", "step {step}: conn {i} received batches from ep {src} out of send order");
                    }
                }
            }
            // --- control frames: registry clauses
            if focus == Focus::Registry && !c.dying {
                let mut got_c: Vec<&Expect> = got.iter().filter(|e| !is_dgram(e)).collect();
                let mut want_c: Vec<&Expect> = want.iter().filter(|e| !is_dgram(e)).collect();
                got_c.sort();
                want_c.sort();
                if got_c != want_c {
                    fail!("control-frames", "step {step} {op:?}: conn {i} (ep {}, v2={}) control frames {got_c:?}, model expects {want_c:?}", c.ep, c.v2);
                }
            }
            want.clear();
        }
        for c in conns.iter_mut() { c.dying = false; }
    }
    // final: registry content equals the model (probe through the public disconnect API)
    for ep in 0..N_EP {
        for (i, c) in conns.iter().enumerate() {
            if c.ep != ep { continue; }
            let in_model = stack.get(&ep).is_some_and(|s| s.contains(&i));
            let found = relay.clients.disconnect(memrelay::pool_key(ep).public(), Some(c.id));
            if found != in_model {
                fail!("registry-content", "final: connection {i} of ep {ep} registered={found}, model says {in_model}");
            }
        }
    }
    relay.clients.shutdown().await;
    let mut classes = vec![];
    if sum.dup_send { classes.push("send-to-duplicated-id"); }
    if sum.promotion { classes.push("promotion"); }
    if sum.gone_notice { classes.push("peer-gone"); }
    if sum.displaced { classes.push("displacement"); }
    if sum.max_conns_one_ep >= 3 { classes.push("3+conns-one-id"); }
    if sum.delivered > 0 { classes.push("delivered"); }
    if sum.stalled { classes.push("stalled-receiver"); }
    if sum.reordered_ids { classes.push("ids-assigned-out-of-registration-order"); }
    if sum.overflow { classes.push("queue-overflow-burst"); }
    let nontrivial = match focus {
        Focus::Forwarding => sum.dup_send && sum.delivered > 0,
        Focus::Registry => sum.max_conns_one_ep >= 3 && sum.promotion,
    };
    Outcome::pass_with(nontrivial, classes)
}
