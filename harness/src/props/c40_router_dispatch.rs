//! C40 — router hands each connection only to the handler for its protocol.
//!
//! Per case: one router endpoint on loopback with a generated set of registered protocols
//! and a generated incoming filter (verdict table over the "address validated" flag), and a
//! list of dials from fresh or reused dialer endpoints offering 1..3 protocols.  Handlers
//! log every invocation (which ALPN they were registered under, the ALPN and remote id the
//! connection reports) and echo one message, so "the handler was reached" is observed
//! causally by the dialer (echo received) and "no handler" by the connection failing.

use std::sync::{Arc, Mutex};

use iroh::{
    Endpoint, EndpointId,
    endpoint::{ConnectOptions, Connection, ConnectionError, Incoming},
    protocol::{AcceptError, IncomingFilterOutcome, ProtocolHandler, Router},
};
use proptest::prelude::*;
use serde::{Deserialize, Serialize};

use crate::{
    engine::{Ctx, ExploreOpts, Outcome},
    support::e2e,
};

const ALPNS: [&[u8]; 4] = [b"/verif/c40/a", b"/verif/c40/b", b"/verif/c40/c", b"/verif/c40/d"];

#[derive(Debug, Clone, Copy, PartialEq, Eq, Serialize, Deserialize)]
enum Verdict {
    Accept,
    Retry,
    Reject,
    Ignore,
}

impl Verdict {
    fn to_iroh(self) -> IncomingFilterOutcome {
        match self {
            Verdict::Accept => IncomingFilterOutcome::Accept,
            Verdict::Retry => IncomingFilterOutcome::Retry,
            Verdict::Reject => IncomingFilterOutcome::Reject,
            Verdict::Ignore => IncomingFilterOutcome::Ignore,
        }
    }
}

#[derive(Debug, Clone, Serialize, Deserialize)]
struct Dial {
    /// which dialer endpoint (0 or 1) — reusing a dialer lets later dials present an
    /// address-validation token from an earlier connection
    dialer: u8,
    /// offered protocols, first = primary; indices into ALPNS (3 = never registered)
    offer: Vec<u8>,
}

#[derive(Debug, Clone, Serialize, Deserialize)]
struct Case {
    /// bit i set = protocol i (0..3) registered
    registered: u8,
    /// None = no filter; Some((verdict for unvalidated, verdict for validated))
    filter: Option<(Verdict, Verdict)>,
    dials: Vec<Dial>,
}

fn verdict() -> impl Strategy<Value = Verdict> {
    prop_oneof![
        4 => Just(Verdict::Accept),
        3 => Just(Verdict::Retry),
        2 => Just(Verdict::Reject),
        1 => Just(Verdict::Ignore),
    ]
}

fn strategy() -> impl Strategy<Value = Case> {
    let dial = (0u8..2, proptest::collection::vec(0u8..4, 1..=3)).prop_map(|(dialer, offer)| Dial { dialer, offer });
    (
        prop_oneof![1 => Just(0u8), 9 => 1u8..8],
        prop_oneof![2 => Just(None), 5 => (verdict(), verdict()).prop_map(Some)],
        proptest::collection::vec(dial, 1..=4),
    )
        .prop_map(|(registered, filter, dials)| Case { registered, filter, dials })
}

#[derive(Debug, Clone)]
struct Invocation {
    registered_as: usize,
    conn_alpn: Vec<u8>,
    remote: EndpointId,
}

#[derive(Debug, Clone)]
struct Logging {
    idx: usize,
    log: Arc<Mutex<Vec<Invocation>>>,
}

impl ProtocolHandler for Logging {
    async fn accept(&self, conn: Connection) -> Result<(), AcceptError> {
        self.log.lock().unwrap().push(Invocation {
            registered_as: self.idx,
            conn_alpn: conn.alpn().to_vec(),
            remote: conn.remote_id(),
        });
        // echo one message so that the dialer observes the invocation causally
        let (mut send, mut recv) = conn.accept_bi().await?;
        let msg = recv.read_to_end(64).await.map_err(AcceptError::from_err)?;
        send.write_all(&msg).await.map_err(AcceptError::from_err)?;
        send.finish()?;
        conn.closed().await;
        Ok(())
    }
}

#[derive(Debug, Clone, Copy)]
struct FilterCall {
    validated: bool,
    verdict: Verdict,
}

enum DialResult {
    /// connected, echo received: (negotiated alpn reported by the dialer's connection)
    Served(Vec<u8>, EndpointId),
    /// connected but the connection died before an echo arrived
    ConnectedUnserved(String),
    /// connect returned an error
    Failed { timed_out: bool, text: String },
    /// connect did not return within the cap
    Silent,
}

async fn dial(ep: &Endpoint, target: iroh::EndpointAddr, offer: &[u8], cap_ms: u64) -> DialResult {
    let primary = ALPNS[offer[0] as usize];
    let extra: Vec<Vec<u8>> = offer[1..].iter().map(|i| ALPNS[*i as usize].to_vec()).collect();
    let attempt = async {
        let connecting = ep
            .connect_with_opts(target, primary, ConnectOptions::new().with_additional_alpns(extra))
            .await
            .map_err(|e| (false, format!("{e:#}")))?;
        connecting.await.map_err(|e| {
            let timed_out = matches!(
                &e,
                iroh::endpoint::ConnectingError::ConnectionError { source: ConnectionError::TimedOut, .. }
            );
            (timed_out, format!("{e:#}"))
        })
    };
    let conn = match e2e::by(cap_ms, attempt).await {
        None => return DialResult::Silent,
        Some(Err((timed_out, text))) => return DialResult::Failed { timed_out, text },
        Some(Ok(c)) => c,
    };
    let served = async {
        let (mut send, mut recv) = conn.open_bi().await.map_err(|e| format!("open_bi: {e:#}"))?;
        send.write_all(b"ping").await.map_err(|e| format!("write: {e:#}"))?;
        send.finish().map_err(|e| format!("finish: {e:#}"))?;
        let got = recv.read_to_end(64).await.map_err(|e| format!("read: {e:#}"))?;
        if got == b"ping" { Ok(()) } else { Err(format!("echo mismatch {got:?}")) }
    };
    let r = e2e::within(60, "echo or connection error after a successful connect", served).await;
    let out = match r {
        Ok(()) => DialResult::Served(conn.alpn().to_vec(), conn.remote_id()),
        Err(e) => DialResult::ConnectedUnserved(e),
    };
    conn.close(0u32.into(), b"done");
    out
}

fn run_case(c: &Case) -> Outcome {
    let c = c.clone();
    e2e::run(1, async move { run_async(&c).await })
}

async fn run_async(c: &Case) -> Outcome {
    let log: Arc<Mutex<Vec<Invocation>>> = Arc::default();
    let filter_log: Arc<Mutex<Vec<FilterCall>>> = Arc::default();
    let server = e2e::bind(e2e::builder()).await;
    let mut b = Router::builder(server.clone());
    for i in 0..3usize {
        if c.registered & (1 << i) != 0 {
            b = b.accept(ALPNS[i], Logging { idx: i, log: log.clone() });
        }
    }
    if let Some((unvalidated, validated)) = c.filter {
        let fl = filter_log.clone();
        b = b.incoming_filter(Arc::new(move |inc: &Incoming| {
            let v = inc.remote_addr_validated();
            let verdict = if v { validated } else { unvalidated };
            fl.lock().unwrap().push(FilterCall { validated: v, verdict });
            verdict.to_iroh()
        }));
    }
    let router = b.spawn();
    let target = server.addr();
    let mut dialers: Vec<Option<Endpoint>> = vec![None, None];

    let mut out: Option<Outcome> = None;
    let mut classes: Vec<&'static str> = vec![];
    let mut nontrivial = false;
    let mut expected_invocations = 0usize;
    for (k, d) in c.dials.iter().enumerate() {
        let di = (d.dialer % 2) as usize;
        if dialers[di].is_none() {
            dialers[di] = Some(e2e::bind(e2e::builder()).await);
        }
        let ep = dialers[di].clone().unwrap();
        let log_before = log.lock().unwrap().len();
        let filter_before = filter_log.lock().unwrap().len();
        // Negative dials that get no answer are capped ("no connection by then"); positive
        // dials get a generous detector bound.
        let inter: Vec<usize> = (0..3usize)
            .filter(|i| c.registered & (1 << i) != 0 && d.offer.iter().any(|o| *o as usize == *i))
            .collect();
        // silence is expected only if the first (unvalidated) Incoming is ignored, or retried and
        // then ignored
        let may_be_silent = matches!(c.filter, Some((u, v)) if u == Verdict::Ignore || (u == Verdict::Retry && v == Verdict::Ignore));
        let cap = if may_be_silent { 2_000 } else { 60_000 };
        let res = dial(&ep, target.clone(), &d.offer, cap).await;
        let calls: Vec<FilterCall> = filter_log.lock().unwrap()[filter_before..].to_vec();
        let new_inv: Vec<Invocation> = log.lock().unwrap()[log_before..].to_vec();

        // Reference: does the filter let this dial through?
        let (reach_allowed, reach_required) = match c.filter {
            None => (true, true),
            Some((unv, val)) => {
                let v0 = calls.first().map(|f| f.validated);
                // allowed only if the filter returned Accept for some Incoming of this dial
                let allowed = calls.iter().any(|f| f.verdict == Verdict::Accept);
                // required if the verdict table lets the first Incoming through, directly or
                // through a validated retry
                let required = match v0 {
                    Some(false) => unv == Verdict::Accept || (unv == Verdict::Retry && val == Verdict::Accept),
                    Some(true) => val == Verdict::Accept,
                    None => false,
                };
                (allowed, required)
            }
        };
        if calls.is_empty() && c.filter.is_some() {
            // The Initial packet never produced an Incoming: nothing to judge (can only
            // happen if the dial failed before sending).
            if !matches!(res, DialResult::Failed { .. } | DialResult::Silent) || !new_inv.is_empty() {
                out = Some(Outcome::violation(
                    "C40:bypassed-filter",
                    format!("dial {k}: a connection was established or a handler invoked without any filter call"),
                ));
                break;
            }
        }
        let offer_names: Vec<String> = d.offer.iter().map(|i| String::from_utf8_lossy(ALPNS[*i as usize]).to_string()).collect();
        let ctxs = format!(
            "dial {k} offer {offer_names:?} registered bits {:03b} filter {:?} filter calls {calls:?}",
            c.registered, c.filter
        );
        let must_serve = reach_required && !inter.is_empty();
        let may_serve = reach_allowed && !inter.is_empty();
        match &res {
            DialResult::Served(alpn, remote) => {
                if !may_serve {
                    out = Some(Outcome::violation(
                        if inter.is_empty() { "C40:served-unregistered-protocol" } else { "C40:served-despite-filter" },
                        format!("{ctxs}: the dial was served (negotiated {:?})", String::from_utf8_lossy(alpn)),
                    ));
                    break;
                }
                let Some(neg) = (0..4usize).find(|i| ALPNS[*i] == &alpn[..]) else {
                    out = Some(Outcome::violation("C40:negotiated-unknown-alpn", format!("{ctxs}: negotiated {:?}", String::from_utf8_lossy(alpn))));
                    break;
                };
                if !inter.contains(&neg) {
                    out = Some(Outcome::violation(
                        "C40:negotiated-outside-offer-or-registry",
                        format!("{ctxs}: negotiated {:?} is not both offered and registered", String::from_utf8_lossy(alpn)),
                    ));
                    break;
                }
                if *remote != server.id() {
                    out = Some(Outcome::violation("C40:wrong-remote", format!("{ctxs}: dialer sees another remote id")));
                    break;
                }
                if new_inv.len() != 1 {
                    out = Some(Outcome::violation(
                        "C40:handler-count",
                        format!("{ctxs}: {} handler invocations for one served dial: {new_inv:?}", new_inv.len()),
                    ));
                    break;
                }
                let inv = &new_inv[0];
                if inv.registered_as != neg || inv.conn_alpn != *alpn {
                    out = Some(Outcome::violation(
                        "C40:wrong-handler",
                        format!(
                            "{ctxs}: negotiated {:?} but the handler registered for {:?} was invoked (it saw alpn {:?})",
                            String::from_utf8_lossy(alpn),
                            String::from_utf8_lossy(ALPNS[inv.registered_as]),
                            String::from_utf8_lossy(&inv.conn_alpn)
                        ),
                    ));
                    break;
                }
                if inv.remote != ep.id() {
                    out = Some(Outcome::violation("C40:wrong-remote", format!("{ctxs}: handler sees another remote id than the dialer's")));
                    break;
                }
                expected_invocations += 1;
                classes.push("served");
                if calls.iter().any(|f| f.verdict == Verdict::Retry) {
                    classes.push("served-after-retry");
                    nontrivial = true;
                }
                if calls.first().is_some_and(|f| f.validated) {
                    classes.push("first-incoming-validated");
                }
                if d.offer.len() >= 2 && d.offer.iter().any(|o| !inter.contains(&(*o as usize))) {
                    classes.push("served-mixed-offer");
                    nontrivial = true;
                }
                if inter.len() >= 2 {
                    classes.push("several-common-protocols");
                }
            }
            DialResult::ConnectedUnserved(e) => {
                // A connection came up but nobody served it.
                if !new_inv.is_empty() {
                    out = Some(Outcome::violation("C40:handler-invoked-but-unserved", format!("{ctxs}: {new_inv:?} / {e}")));
                    break;
                }
                if must_serve {
                    out = Some(Outcome::violation(
                        "C40:not-dispatched",
                        format!("{ctxs}: connection established but no handler invoked ({e})"),
                    ));
                    break;
                }
                // Established-but-dropped for an unregistered protocol or refused flow is
                // "no handler" — acceptable under the statement as long as no handler ran;
                // the dialer did not obtain a served connection.
                classes.push("connected-then-dropped");
            }
            DialResult::Failed { timed_out, text } => {
                if !new_inv.is_empty() {
                    out = Some(Outcome::violation("C40:handler-invoked-for-failed-dial", format!("{ctxs}: {new_inv:?}; dial error {text}")));
                    break;
                }
                if must_serve {
                    if *timed_out {
                        eprintln!("HARNESS: C40 positive dial timed out ({ctxs}); inconclusive");
                        std::process::exit(2);
                    }
                    out = Some(Outcome::violation("C40:refused-registered-protocol", format!("{ctxs}: dial failed: {text}")));
                    break;
                }
                if inter.is_empty() && (c.filter.is_none() || reach_allowed) {
                    classes.push("refused-no-common-protocol");
                    if d.offer.len() >= 2 {
                        nontrivial = true;
                    }
                } else {
                    classes.push("refused-by-filter");
                    if calls.iter().any(|f| f.verdict == Verdict::Retry) {
                        classes.push("retry-then-refused");
                        nontrivial = true;
                    }
                }
            }
            DialResult::Silent => {
                if !new_inv.is_empty() {
                    out = Some(Outcome::violation("C40:handler-invoked-for-silent-dial", format!("{ctxs}: {new_inv:?}")));
                    break;
                }
                if must_serve {
                    eprintln!("HARNESS: C40 positive dial got no answer within the cap ({ctxs}); inconclusive");
                    std::process::exit(2);
                }
                classes.push("ignored");
                if calls.iter().any(|f| f.verdict == Verdict::Retry) {
                    classes.push("retry-then-ignored");
                    nontrivial = true;
                }
            }
        }
    }

    // Never more handler invocations than served dials, also counting late ones.
    if out.is_none() {
        let total = log.lock().unwrap().len();
        if total != expected_invocations {
            out = Some(Outcome::violation(
                "C40:stray-handler-invocation",
                format!("{total} handler invocations for {expected_invocations} served dials: {:?}", log.lock().unwrap()),
            ));
        }
    }
    let _ = e2e::within(60, "router shutdown", router.shutdown()).await;
    for d in dialers.into_iter().flatten() {
        e2e::within(60, "dialer close", d.close()).await;
    }
    if let Some(o) = out {
        return o;
    }
    if c.registered == 0 {
        classes.push("nothing-registered");
    }
    if c.filter.is_none() {
        classes.push("no-filter");
    }
    classes.sort();
    Outcome::pass_with(nontrivial, classes)
}

pub fn run(ctx: &Ctx) {
    ctx.rule("router on loopback with registered protocols ⊆ {a,b,c} (incl. none) and no filter or a verdict table (unvalidated, validated) over {Accept,Retry,Reject,Ignore}; 1..4 dials per router from 2 reusable dialers, each offering 1..3 protocols of {a,b,c,d} in any order; handlers log (registered-as, connection alpn, remote id) and echo; non-trivial = served or refused dial with a mixed offer (>=2 protocols, >=1 unregistered), or any dial that went through a Retry verdict");
    ctx.assume("a dial that gets no answer is given up after 2 s ('no connection by then'; can only miss a defect, never raise one); positive dials that time out make the run inconclusive (exit 2)");
    ctx.assume("which common protocol is negotiated when several are both offered and registered is left to TLS; only membership in offer ∩ registered is required");
    let k = ctx.tier.pick(1, 8);
    ctx.explore("dispatch", ExploreOpts::new(120 * k).shrink(60), strategy, run_case);
}
