//! C41 — router shutdown returns only after handlers and endpoint are shut down.
//!
//! Every case builds a fresh loopback endpoint and router whose protocol handlers block in
//! `shutdown()` on a gate that only the harness opens.  A generated schedule issues
//! `Router::shutdown` calls on clones, direct `Endpoint::close` calls, gate openings and
//! settle points.  The oracle is purely causal: the instant a `shutdown()` future completes
//! (same poll, no await in between) the calling task snapshots "has every handler's
//! shutdown completed" and `Endpoint::is_closed()`.  A snapshot with a false entry is a
//! violation.  Time only influences which interleavings are reached, never the verdict.

use std::sync::{
    Arc, Mutex,
    atomic::{AtomicBool, AtomicUsize, Ordering::SeqCst},
};

use iroh::{
    Endpoint,
    endpoint::Connection,
    protocol::{AcceptError, ProtocolHandler, Router},
};
use futures_util::FutureExt;
use proptest::prelude::*;
use serde::{Deserialize, Serialize};
use tokio::sync::watch;

use crate::{
    engine::{Ctx, ExploreOpts, Outcome},
    support::{e2e, gens},
};

#[derive(Debug, Clone, Copy, PartialEq, Eq, Serialize, Deserialize)]
enum Act {
    /// Spawn a task calling `shutdown()` on clone number `clone` of the router.
    Shutdown { clone: u8 },
    /// Spawn a task calling `Endpoint::close()` directly (the endpoint closing on its own).
    CloseEndpoint,
    /// Open the shutdown gate of handler `h` (modulo the number of handlers).
    Open { h: u8 },
    /// Open every gate.
    OpenAll,
    /// If a shutdown or close has been issued: open every gate and wait until every handler's
    /// shutdown has completed (later calls then arrive after completion).
    WaitDone,
    /// If a shutdown or close has been issued: wait until every handler has entered its
    /// `shutdown()` (so that later calls arrive while the first is blocked on the gates).
    WaitEntered,
    /// Let spawned tasks run (a few yields and a 2 ms sleep).
    Settle,
}

#[derive(Debug, Clone, Serialize, Deserialize)]
struct Case {
    /// number of registered protocols (0..=3)
    protocols: u8,
    /// worker threads of the runtime (1 = current-thread)
    workers: u8,
    /// a peer holds an open connection to protocol 0 while the router shuts down
    live_conn: bool,
    acts: Vec<Act>,
}

fn strategy() -> impl Strategy<Value = Case> {
    let act = prop_oneof![
        4 => (0u8..4).prop_map(|clone| Act::Shutdown { clone }),
        1 => Just(Act::CloseEndpoint),
        2 => (0u8..3).prop_map(|h| Act::Open { h }),
        1 => Just(Act::OpenAll),
        1 => Just(Act::WaitDone),
        2 => Just(Act::WaitEntered),
        2 => Just(Act::Settle),
    ];
    (
        0u8..=3,
        prop_oneof![2 => Just(1u8), 1 => Just(2u8)],
        prop::bool::weighted(0.25),
        (0u8..4, any::<u16>(), proptest::collection::vec(act, 0..7)),
    )
        .prop_map(|(protocols, workers, live_conn, (first, pos, mut acts))| {
            // every schedule contains at least one shutdown call, at any position (so that
            // direct closes and gate openings can also come first)
            let at = gens::pick(pos, acts.len() + 1);
            acts.insert(at, Act::Shutdown { clone: first });
            Case { protocols, workers, live_conn: live_conn && protocols > 0, acts }
        })
}

#[derive(Debug)]
struct Shared {
    entered: Vec<AtomicBool>,
    done: Vec<AtomicBool>,
    entered_tx: watch::Sender<u32>,
    done_tx: watch::Sender<u32>,
    gates: Vec<watch::Sender<bool>>,
}

#[derive(Debug, Clone)]
struct Gated {
    idx: usize,
    sh: Arc<Shared>,
}

impl ProtocolHandler for Gated {
    async fn accept(&self, conn: Connection) -> Result<(), AcceptError> {
        conn.closed().await;
        Ok(())
    }

    async fn shutdown(&self) {
        self.sh.entered[self.idx].store(true, SeqCst);
        self.sh.entered_tx.send_modify(|n| *n += 1);
        let mut rx = self.sh.gates[self.idx].subscribe();
        let _ = rx.wait_for(|open| *open).await;
        // complete a little after the gate opened
        tokio::task::yield_now().await;
        self.sh.done[self.idx].store(true, SeqCst);
        self.sh.done_tx.send_modify(|n| *n += 1);
    }
}

/// What a caller saw in the very poll in which its `shutdown()` completed.
#[derive(Debug, Clone)]
struct Snapshot {
    call: usize,
    handlers_done: Vec<bool>,
    endpoint_closed: bool,
    /// `Endpoint::closed()` has fired (closing has at least started)
    closing_started: bool,
    /// direct `Endpoint::close()` calls issued by the harness that have not returned yet
    direct_inflight: usize,
    ok: bool,
}

const ALPNS: [&[u8]; 3] = [b"/verif/c41/a", b"/verif/c41/b", b"/verif/c41/c"];

fn run_case(ctx: &Ctx, c: &Case) -> Outcome {
    let c = c.clone();
    e2e::run(c.workers as usize, async move { run_async(ctx, &c).await })
}

const SIG_CLOSE_IN_FLIGHT: &str = "C41:returned-before-endpoint-closed/direct-close-in-flight";

async fn run_async(ctx: &Ctx, c: &Case) -> Outcome {
    let n = c.protocols.min(3) as usize;
    let (entered_tx, mut entered_rx) = watch::channel(0u32);
    let (done_tx, mut done_rx) = watch::channel(0u32);
    let sh = Arc::new(Shared {
        entered: (0..n).map(|_| AtomicBool::new(false)).collect(),
        done: (0..n).map(|_| AtomicBool::new(false)).collect(),
        entered_tx,
        done_tx,
        gates: (0..n).map(|_| watch::channel(false).0).collect(),
    });
    let endpoint = e2e::bind(e2e::builder()).await;
    let mut b = Router::builder(endpoint.clone());
    for i in 0..n {
        b = b.accept(ALPNS[i], Gated { idx: i, sh: sh.clone() });
    }
    let router = b.spawn();
    // clones: 0 = the original, 1 and 2 = clones of it, 3 = a clone of a clone
    let c1 = router.clone();
    let c2 = router.clone();
    let c3 = c1.clone();
    let clones = [router, c1, c2, c3];

    let mut peer: Option<(Endpoint, Connection)> = None;
    if c.live_conn {
        let p = e2e::bind(e2e::builder()).await;
        match e2e::within(30, "peer connect", p.connect(endpoint.addr(), ALPNS[0])).await {
            Ok(conn) => peer = Some((p, conn)),
            Err(e) => {
                eprintln!("HARNESS: C41 peer cannot connect: {e:#}");
                std::process::exit(2);
            }
        }
    }

    let snaps: Arc<Mutex<Vec<Snapshot>>> = Arc::new(Mutex::new(vec![]));
    let mut tasks = vec![];
    let mut close_tasks = vec![];
    let direct_inflight = Arc::new(AtomicUsize::new(0));
    let mut triggered = false;
    let mut calls = 0usize;
    let mut call_while_blocked = false;
    let mut call_after_done = false;
    let mut direct_close = false;
    for act in &c.acts {
        match *act {
            Act::Shutdown { clone } => {
                let r = clones[clone as usize % clones.len()].clone();
                let sh = sh.clone();
                let snaps = snaps.clone();
                let inflight = direct_inflight.clone();
                let call = calls;
                calls += 1;
                if triggered && n > 0 {
                    let all_entered = sh.entered.iter().all(|e| e.load(SeqCst));
                    let all_done = sh.done.iter().all(|e| e.load(SeqCst));
                    if all_entered && !all_done {
                        call_while_blocked = true;
                    }
                    if all_done {
                        call_after_done = true;
                    }
                }
                triggered = true;
                tasks.push(tokio::spawn(async move {
                    let res = r.shutdown().await;
                    // same poll as the completion of shutdown(): no await in between
                    // On a multi-thread runtime a direct close may finish between the reads below:
                    // read the in-flight counter *before* the closed flag (a close that was in
                    // flight when the flag read false then still counts) and again after.
                    let inflight_before = inflight.load(SeqCst);
                    let endpoint_closed = r.endpoint().is_closed();
                    let snap = Snapshot {
                        call,
                        handlers_done: sh.done.iter().map(|d| d.load(SeqCst)).collect(),
                        endpoint_closed,
                        closing_started: r.endpoint().closed().now_or_never().is_some(),
                        direct_inflight: inflight_before.max(inflight.load(SeqCst)),
                        ok: res.is_ok(),
                    };
                    snaps.lock().unwrap().push(snap);
                }));
            }
            Act::CloseEndpoint => {
                let ep = endpoint.clone();
                triggered = true;
                direct_close = true;
                let inflight = direct_inflight.clone();
                inflight.fetch_add(1, SeqCst);
                close_tasks.push(tokio::spawn(async move {
                    ep.close().await;
                    inflight.fetch_sub(1, SeqCst);
                }));
            }
            Act::Open { h } => {
                if n > 0 {
                    sh.gates[h as usize % n].send_replace(true);
                }
            }
            Act::OpenAll => {
                for g in &sh.gates {
                    g.send_replace(true);
                }
            }
            Act::WaitDone => {
                if triggered {
                    for g in &sh.gates {
                        g.send_replace(true);
                    }
                    let want = n as u32;
                    let r = e2e::by(10_000, done_rx.wait_for(|v| *v >= want)).await;
                    drop(r);
                    tokio::time::sleep(std::time::Duration::from_millis(2)).await;
                }
            }
            Act::WaitEntered => {
                if triggered && n > 0 {
                    let want = n as u32;
                    // bounded wait (detector): if the handlers never enter shutdown the
                    // schedule simply continues and the oracle judges the returns
                    let r = e2e::by(10_000, entered_rx.wait_for(|v| *v >= want)).await;
                    drop(r);
                }
            }
            Act::Settle => {
                for _ in 0..3 {
                    tokio::task::yield_now().await;
                }
                tokio::time::sleep(std::time::Duration::from_millis(2)).await;
            }
        }
    }
    // Let everything finish: open all gates and wait for every call to return.
    for g in &sh.gates {
        g.send_replace(true);
    }
    for t in tasks {
        if let Err(e) = e2e::within(60, "shutdown call returning after all gates were opened", t).await {
            return Outcome::violation("C41:panic", format!("shutdown task failed: {e}"));
        }
    }
    for t in close_tasks {
        let _ = e2e::within(60, "direct endpoint close", t).await;
    }
    let snaps = snaps.lock().unwrap().clone();
    if let Some((p, conn)) = peer {
        drop(conn);
        e2e::within(60, "peer close", p.close()).await;
    }

    let mut known_hit = false;
    for s in &snaps {
        if !s.ok {
            return Outcome::violation("C41:shutdown-error", format!("shutdown call #{} returned an error", s.call));
        }
        let handlers_pending = s.handlers_done.iter().any(|d| !d);
        if handlers_pending || !s.endpoint_closed {
            // Known deviation, tolerated exactly: all handlers are shut down, the endpoint is
            // closing, and a direct Endpoint::close() issued by the harness has not returned
            // yet — Endpoint::close returns at once to every caller but the first, so the
            // run loop's own close() (and with it shutdown()) finishes before the endpoint is
            // fully closed.
            if !handlers_pending && s.closing_started && s.direct_inflight > 0 && ctx.known(SIG_CLOSE_IN_FLIGHT) {
                ctx.note_known(SIG_CLOSE_IN_FLIGHT);
                known_hit = true;
                continue;
            }
            let sig = if !handlers_pending && s.direct_inflight > 0 { SIG_CLOSE_IN_FLIGHT } else { "C41:shutdown-returns-before-run-loop-finished" };
            return Outcome::violation(
                sig,
                format!(
                    "shutdown call #{} (of {calls}) returned while handler shutdown completion flags were {:?}, Endpoint::is_closed() was {} (closing started: {}, direct Endpoint::close calls in flight: {})",
                    s.call, s.handlers_done, s.endpoint_closed, s.closing_started, s.direct_inflight
                ),
            );
        }
    }
    if snaps.len() != calls {
        return Outcome::violation("C41:lost-call", format!("{} snapshots for {calls} calls", snaps.len()));
    }
    // after everything: final state
    if !endpoint.is_closed() || sh.done.iter().any(|d| !d.load(SeqCst)) {
        return Outcome::violation("C41:final-state", "after all calls returned the endpoint is not closed or a handler did not shut down");
    }

    let mut classes = vec![];
    if calls >= 2 {
        classes.push("calls>=2");
    }
    if call_while_blocked {
        classes.push("call-while-first-blocked");
    }
    if call_after_done {
        classes.push("call-after-completion");
    }
    if direct_close {
        classes.push("direct-endpoint-close");
    }
    if known_hit {
        classes.push("known:returned-while-direct-close-in-flight");
    }
    if c.live_conn {
        classes.push("live-connection");
    }
    if c.workers > 1 {
        classes.push("multi-thread-rt");
    }
    match n {
        0 => classes.push("protocols=0"),
        1 => classes.push("protocols=1"),
        2 => classes.push("protocols=2"),
        _ => classes.push("protocols=3"),
    }
    // non-trivial: a second call issued before the first one's handlers completed
    let consecutive_early = calls >= 2 && !call_after_done;
    Outcome::pass_with(call_while_blocked || (consecutive_early && n > 0), classes)
}

pub fn run(ctx: &Ctx) {
    ctx.rule("fresh loopback endpoint + router per case, 0..3 protocols whose shutdown() blocks on a harness-owned gate; schedule of 1..7 acts over {shutdown on clone 0..3, direct Endpoint::close, open gate h, open all gates, open all gates and wait for handler completion, wait until all handlers entered shutdown, settle}, current-thread or 2-worker runtime, optionally one live peer connection; each call snapshots handler completion flags and Endpoint::is_closed() in the poll in which shutdown() returns; non-trivial = a second shutdown call issued before the handlers' shutdown completed");
    ctx.assume("shutdown() futures are awaited to completion (dropping a pending shutdown() future aborts the router task and is outside the quantifier)");
    ctx.assume("a shutdown() call that never returns is not a violation of this property (reported as inconclusive, exit 2)");
    let k = ctx.tier.pick(1, 10);
    ctx.explore("schedules", ExploreOpts::new(1000 * k).shrink(200), strategy, |c| run_case(ctx, c));
}
