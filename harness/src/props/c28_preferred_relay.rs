//! C28 — the preferred relay choice is current and sticky.
//!
//! Real code: `net_report::Client::add_report_history_and_set_preferred_relay` through
//! `iroh::verif_netreport::ReportHistory`, under a paused clock.  Oracle: a reference written
//! from the property statement (candidates = relays of the current report; best latency over
//! the reports of the last five minutes; two-thirds rule against the previous relay's lowest
//! latency in the current report); ties and the integer-division window are tolerated.

use std::{
    collections::{BTreeMap, BTreeSet},
    sync::{Arc, OnceLock},
    time::Duration,
};

use iroh::verif_netreport as vn;
use iroh_base::RelayUrl;
use proptest::prelude::*;
use serde::{Deserialize, Serialize};

use crate::{
    check,
    engine::{Ctx, ExploreOpts, Outcome, paused_rt},
};

const RELAYS: u8 = 4;
const MAX_AGE_MS: u64 = 5 * 60 * 1000;

fn relay(i: u8) -> RelayUrl {
    format!("https://relay{}.verif.test", i % RELAYS).parse().expect("relay url")
}

fn relay_idx(u: &RelayUrl) -> Option<u8> {
    (0..RELAYS).find(|i| relay(*i) == *u)
}

fn to_probe(k: u8) -> vn::Probe {
    match k % 3 {
        0 => vn::Probe::Https,
        1 => vn::Probe::QadIpv4,
        _ => vn::Probe::QadIpv6,
    }
}

#[derive(Debug, Clone, Serialize, Deserialize)]
struct Meas {
    relay: u8,
    kind: u8,
    lat_ns: u64,
}

#[derive(Debug, Clone, Serialize, Deserialize)]
struct Rep {
    /// virtual time since the previous report (>= 1 ms)
    gap_ms: u64,
    /// the client generates a full report: it forgets its last report (but keeps the history)
    full: bool,
    meas: Vec<Meas>,
}

#[derive(Debug, Clone, Serialize, Deserialize)]
struct Case {
    reports: Vec<Rep>,
}

/// Latencies in ms around the two-thirds boundaries of each other (15/10, 30/20, 45/30, 60/40, 90/60).
const LAT_MS: &[u64] = &[1, 9, 10, 11, 15, 19, 20, 21, 29, 30, 31, 39, 40, 41, 45, 59, 60, 61, 90, 120, 200, 400];

fn lat() -> impl Strategy<Value = u64> {
    prop_oneof![
        10 => (0usize..LAT_MS.len(), prop_oneof![6 => Just(0i64), 1 => Just(-1i64), 1 => Just(1i64), 1 => Just(2i64)])
            .prop_map(|(i, d)| (LAT_MS[i] as i64 * 1_000_000 + d) as u64),
        3 => 1_000u64..400_000_000,
        1 => Just(0u64),
    ]
}

fn gap() -> impl Strategy<Value = u64> {
    prop_oneof![
        6 => 1u64..60_000,
        3 => 60_000u64..290_000,
        2 => prop_oneof![4 => Just(299_999u64), 4 => Just(300_001u64), 1 => Just(300_000u64), 3 => Just(150_000u64), 3 => Just(100_000u64)],
        1 => 300_001u64..720_000,
    ]
}

fn rep() -> impl Strategy<Value = Rep> {
    (
        gap(),
        prop::bool::weighted(0.1),
        prop_oneof![
            1 => Just(vec![]),
            15 => proptest::collection::vec((0u8..RELAYS, 0u8..3, lat()).prop_map(|(relay, kind, lat_ns)| Meas { relay, kind, lat_ns }), 1..7),
        ],
    )
        .prop_map(|(gap_ms, full, meas)| Rep { gap_ms, full, meas })
}

fn strategy() -> impl Strategy<Value = Case> {
    // fewer relays in use = the previous relay is measured again more often (duels)
    // "duel" flavour for a report: relay a at the case's base latency, relay b around two thirds of it
    let duel = proptest::option::weighted(0.45, (0u8..RELAYS, 1u8..RELAYS, 0usize..9, 0u8..3, 0u8..3, proptest::option::weighted(0.4, 1u8..3)));
    (
        proptest::collection::vec((rep(), duel), 1..9),
        prop_oneof![3 => Just(2u8), 2 => Just(3u8), 2 => Just(4u8)],
        any::<bool>(),
        prop_oneof![Just(15u64), Just(30u64), Just(45u64), Just(60u64), Just(90u64), Just(100u64)],
    )
        .prop_map(|(reports, in_use, short_gaps, base_ms)| {
        let mut reports: Vec<Rep> = reports
            .into_iter()
            .map(|(mut r, duel)| {
                if let Some((a, off, d, ka, kb, extra)) = duel {
                    let b = (a + off) % RELAYS;
                    let base = base_ms * 1_000_000 + (ka as u64 + kb as u64) % 3;
                    let two_thirds = base / 3 * 2;
                    let delta: i64 = [-2_000_000, -1_000_000, -1, 0, 1, 2, 1_000_000, 2_000_000, (base / 6) as i64][d];
                    r.meas = vec![
                        Meas { relay: a, kind: ka, lat_ns: base },
                        Meas { relay: b, kind: kb, lat_ns: (two_thirds as i64 + delta) as u64 },
                    ];
                    if let Some(e) = extra {
                        // the same relay seen slower by another probe kind
                        r.meas.push(Meas { relay: a, kind: (ka + e) % 3, lat_ns: base + 7_000_000 });
                    }
                }
                r
            })
            .collect();
        for r in reports.iter_mut() {
            for m in r.meas.iter_mut() {
                m.relay %= in_use;
            }
            if short_gaps {
                // keep the whole history inside the five minute window
                r.gap_ms = 1 + r.gap_ms % 30_000;
            }
        }
        Case { reports }
    })
}

fn tls_config() -> rustls::ClientConfig {
    static CFG: OnceLock<rustls::ClientConfig> = OnceLock::new();
    CFG.get_or_init(|| {
        rustls::ClientConfig::builder_with_provider(Arc::new(rustls::crypto::ring::default_provider()))
            .with_safe_default_protocol_versions()
            .expect("protocol versions")
            .with_root_certificates(rustls::RootCertStore::empty())
            .with_no_client_auth()
    })
    .clone()
}

/// relay -> kind -> lowest latency (ns) of one report
type Table = BTreeMap<u8, BTreeMap<u8, u64>>;

fn lowest(t: &Table, r: u8) -> Option<u64> {
    t.get(&r).and_then(|k| k.values().copied().min())
}

fn run_case(c: &Case) -> Outcome {
    paused_rt(async {
        let resolver = iroh::dns::DnsResolver::with_nameserver("127.0.0.1:53".parse().unwrap());
        let mut hist = vn::ReportHistory::new(resolver, tls_config());
        let mut now_ms = 0u64;
        let mut past: Vec<(u64, Table)> = vec![]; // the reference's own history
        let mut prev_pref: Option<u8> = None;
        let mut classes: BTreeSet<&'static str> = BTreeSet::new();
        let mut nontrivial = false;

        for (n, rep) in c.reports.iter().enumerate() {
            tokio::time::advance(Duration::from_millis(rep.gap_ms)).await;
            now_ms += rep.gap_ms;
            if rep.full {
                hist.forget_last();
                prev_pref = None;
            }
            // build the report with the real latency table
            let mut report = vn::Report::default();
            let mut cur: Table = BTreeMap::new();
            for m in &rep.meas {
                vn::latencies_update(&mut report.relay_latency, relay(m.relay), Duration::from_nanos(m.lat_ns), to_probe(m.kind));
                let e = cur.entry(m.relay % RELAYS).or_default().entry(m.kind % 3).or_insert(m.lat_ns);
                if m.lat_ns < *e {
                    *e = m.lat_ns;
                }
            }
            hist.add(&mut report);
            let got = match &report.preferred_relay {
                None => None,
                Some(u) => match relay_idx(u) {
                    Some(i) => Some(i),
                    None => return Outcome::violation("C28:unknown-relay", format!("report #{n}: preferred relay {u} was never measured")),
                },
            };

            // ---- reference ----
            if past.iter().any(|(t, _)| now_ms - *t == MAX_AGE_MS) {
                return Outcome::Excluded("a report is exactly five minutes old");
            }
            let recent: Vec<&Table> = past.iter().filter(|(t, _)| now_ms - *t < MAX_AGE_MS).map(|(_, t)| t).collect();
            if recent.len() < past.len() { classes.insert("expired-history"); }
            let candidates: Vec<u8> = cur.keys().copied().collect();
            let best_recent = |r: u8| -> u64 {
                recent.iter().filter_map(|t| lowest(t, r)).chain(lowest(&cur, r)).min().expect("candidate is measured")
            };
            if candidates.is_empty() {
                check!(got.is_none(), "C28:preferred-without-measurement", "report #{n} measured no relay but prefers relay{}", got.unwrap());
                classes.insert("none-measured");
            } else {
                let Some(g) = got else {
                    return Outcome::violation("C28:no-preferred", format!("report #{n} measured relays {candidates:?} but has no preferred relay"));
                };
                check!(candidates.contains(&g), "C28:preferred-not-measured", "report #{n}: preferred relay{g} is not among the relays measured in this report {:?}", candidates);
                let b = candidates.iter().map(|r| best_recent(*r)).min().unwrap();
                let argmin: Vec<u8> = candidates.iter().copied().filter(|r| best_recent(*r) == b).collect();
                if argmin.len() > 1 { classes.insert("tie"); }
                if candidates.iter().any(|r| best_recent(*r) < lowest(&cur, *r).unwrap()) { classes.insert("history-improves-a-candidate"); }
                let sticky = prev_pref.filter(|p| candidates.contains(p));
                match sticky {
                    Some(p) => {
                        let l = lowest(&cur, p).unwrap();
                        if cur[&p].len() >= 2 && cur[&p].values().any(|v| *v != l) { classes.insert("previous-measured-by-several-kinds"); }
                        let must_stay = 3 * (b as u128) > 2 * (l as u128);
                        let must_follow_best = b <= (l / 3) * 2;
                        if !argmin.contains(&p) {
                            nontrivial = true;
                            classes.insert(if must_stay { "challenger-not-good-enough" } else { "challenger-good-enough" });
                        }
                        if must_stay {
                            check!(g == p, "C28:switch-without-two-thirds", "report #{n}: previous relay{p} is still measured (lowest latency now {l} ns); relay{g} has best recent latency {} ns > 2/3 of that, yet the choice changed (best over candidates {b} ns)", best_recent(g));
                        } else if must_follow_best {
                            check!(argmin.contains(&g), "C28:not-best-latency", "report #{n}: preferred relay{g} (best recent {} ns) but the best recent latency {b} ns belongs to {:?}; previous relay{p} lowest now {l} ns", best_recent(g), argmin);
                        } else {
                            classes.insert("integer-division-window");
                            check!(g == p || argmin.contains(&g), "C28:not-best-latency", "report #{n}: preferred relay{g} is neither the previous relay{p} nor a best one {:?}", argmin);
                        }
                    }
                    None => {
                        classes.insert(if prev_pref.is_some() { "previous-not-measured" } else { "no-previous" });
                        check!(argmin.contains(&g), "C28:not-best-latency", "report #{n}: preferred relay{g} (best recent {} ns) but the best recent latency {b} ns belongs to {:?}", best_recent(g), argmin);
                    }
                }
            }
            past.push((now_ms, cur));
            prev_pref = got;
        }
        Outcome::pass_with(nontrivial, classes.into_iter().collect())
    })
}

pub fn run(ctx: &Ctx) {
    ctx.rule("histories of 1..8 reports, gaps 1 ms..12 min (dense around 5 min), each report measuring 0..4 relays by 1..3 probe kinds with latencies around the two-thirds boundaries of each other (+-1 ns, zero included), 10% full reports (last report forgotten, history kept); reference from the statement evaluated after every report; non-trivial = the previous preferred relay is still measured and is not a best one");
    ctx.assume("two reports are never added at the same instant (gap >= 1 ms); a report exactly five minutes old is excluded (the statement does not say on which side it falls); ties may be broken either way; between floor(L/3)*2 and 2L/3 (integer division) both outcomes are accepted");
    let k = ctx.tier.pick(1, 10);
    ctx.explore("history", ExploreOpts::new(120_000 * k), strategy, run_case);
}
