//! C35 — dual-stack host resolution yields all addresses, errs only if both fail.
//!
//! Public `DnsResolver::resolve_host_all` over the scripted resolver under a paused clock; the
//! harness polls the stream continuously and stamps every item with the virtual time.

use std::{net::IpAddr, time::Duration};

use iroh_dns::dns::DnsResolver;
use n0_future::StreamExt;
use proptest::prelude::*;
use serde::{Deserialize, Serialize};
use url::Url;

use crate::{
    check,
    engine::{self, Ctx, ExploreOpts, Outcome},
    support::dns_stagger::{self as ds, ErrId, Fam, Reply, Script, ScriptedResolver, Step},
};

const HORIZON_MS: u64 = 100_000_000;

#[derive(Debug, Clone, Serialize, Deserialize)]
enum HostKind {
    Domain(String),
    V4([u8; 4]),
    V6([u8; 16]),
    /// a URL that has no host at all
    NoHost(u8),
}

#[derive(Debug, Clone, Serialize, Deserialize)]
struct Case {
    host: HostKind,
    scheme_https: bool,
    port: Option<u16>,
    timeout_ms: u64,
    v4: Step,
    v6: Step,
}

fn step_strategy(timeout_ms: u64) -> impl Strategy<Value = Step> + Clone {
    let reply = prop_oneof![5 => (0u8..=3).prop_map(|n| Reply::Ok { n }), 4 => Just(Reply::Err)];
    let after = prop_oneof![
        3 => Just(Some(0u64)),
        4 => (0u64..40).prop_map(Some),
        4 => (0u64..timeout_ms).prop_map(Some),
        1 => (timeout_ms..=timeout_ms.saturating_mul(2)).prop_map(Some),
        2 => (0u64..5).prop_map(move |d| Some((timeout_ms + d).saturating_sub(2))),
        1 => Just(None),
    ];
    // a latency equal to the timeout is outside the domain (unspecified race): nudge it past
    (reply, after).prop_map(move |(reply, after_ms)| Step { reply, after_ms: after_ms.map(|l| if l == timeout_ms { l + 1 } else { l }) })
}

fn case_strategy() -> impl Strategy<Value = Case> + Clone {
    let host = prop_oneof![
        8 => "[a-z][a-z0-9-]{0,8}(\\.[a-z][a-z0-9]{0,6}){0,3}\\.?".prop_map(HostKind::Domain),
        1 => any::<[u8; 4]>().prop_map(HostKind::V4),
        1 => any::<[u8; 16]>().prop_map(HostKind::V6),
        1 => (0u8..4).prop_map(HostKind::NoHost),
    ];
    let timeout = prop_oneof![prop::sample::select(vec![1u64, 5, 100, 1000, 3000]), 1u64..4000];
    (host, any::<bool>(), proptest::option::of(1u16..), timeout).prop_flat_map(|(host, scheme_https, port, timeout_ms)| {
        (step_strategy(timeout_ms), step_strategy(timeout_ms)).prop_map(move |(v4, v6)| Case { host: host.clone(), scheme_https, port, timeout_ms, v4, v6 })
    })
}

#[derive(Debug, Clone, PartialEq)]
enum Item {
    Ok(IpAddr),
    Err(ErrId),
}

fn build_url(c: &Case) -> Option<Url> {
    let scheme = if c.scheme_https { "https" } else { "http" };
    let port = c.port.map(|p| format!(":{p}")).unwrap_or_default();
    let s = match &c.host {
        HostKind::Domain(d) => format!("{scheme}://{d}{port}/path"),
        HostKind::V4(a) => format!("{scheme}://{}{port}/", std::net::Ipv4Addr::from(*a)),
        HostKind::V6(a) => format!("{scheme}://[{}]{port}/", std::net::Ipv6Addr::from(*a)),
        HostKind::NoHost(k) => ["mailto:someone@example.org", "data:text/plain,hello", "unix:/run/relay.sock", "file:///etc/hosts"][*k as usize % 4].to_string(),
    };
    Url::parse(&s).ok()
}

fn oracle(c: &Case) -> Outcome {
    let Some(url) = build_url(c) else {
        return Outcome::Excluded("url does not parse");
    };
    let script = Script { v4: vec![c.v4], v6: vec![c.v6], ..Default::default() };
    let timeout = Duration::from_millis(c.timeout_ms);
    let url2 = url.clone();
    let (items, end_ms, calls) = engine::paused_rt(async move {
        let scripted = ScriptedResolver::new(script);
        let resolver = DnsResolver::custom(scripted.clone());
        let mut items: Vec<(u64, Item)> = vec![];
        let mut end_ms = None;
        {
            let stream = resolver.resolve_host_all(&url2, timeout);
            tokio::pin!(stream);
            loop {
                match tokio::time::timeout(Duration::from_millis(HORIZON_MS), stream.next()).await {
                    Ok(Some(Ok(ip))) => items.push((scripted.now_ms(), Item::Ok(ip))),
                    Ok(Some(Err(e))) => {
                        let _ = format!("{e} {e:?}");
                        items.push((scripted.now_ms(), Item::Err(ds::err_id(&e))))
                    }
                    Ok(None) => {
                        end_ms = Some(scripted.now_ms());
                        break;
                    }
                    Err(_) => break,
                }
                if items.len() > 64 {
                    break;
                }
            }
        }
        (items, end_ms, scripted.calls())
    });
    let Some(end_ms) = end_ms else {
        return Outcome::violation("C35:stream-does-not-end", format!("no end of stream within {HORIZON_MS} virtual ms (or more than 64 items); items so far {items:?}"));
    };

    // ---- hosts that need no lookup ----
    let literal = match url.host() {
        None => Some(Item::Err(ErrId::MissingHost)),
        Some(url::Host::Ipv4(ip)) => Some(Item::Ok(IpAddr::V4(ip))),
        Some(url::Host::Ipv6(ip)) => Some(Item::Ok(IpAddr::V6(ip))),
        Some(url::Host::Domain(_)) => None,
    };
    if let Some(want) = literal {
        // the address written in the URL, independently of the url crate's host classification
        match &c.host {
            HostKind::V4(a) => check!(want == Item::Ok(IpAddr::from(*a)), "C35:literal", "harness: url host {want:?} is not the literal {a:?}"),
            HostKind::V6(a) => check!(want == Item::Ok(IpAddr::from(*a)), "C35:literal", "harness: url host {want:?} is not the literal {a:?}"),
            HostKind::NoHost(_) => {}
            HostKind::Domain(d) => return Outcome::violation("C35:harness", format!("domain {d:?} classified as {want:?}")),
        }
        check!(items.len() == 1 && items[0].1 == want && items[0].0 == 0 && end_ms == 0, "C35:literal-host", "url {url}: expected exactly {want:?} at once, got {items:?} ending at {end_ms}");
        check!(calls.is_empty(), "C35:literal-host", "a lookup was made for a literal host: {calls:?}");
        return Outcome::pass_with(false, vec![if matches!(want, Item::Err(_)) { "no-host" } else { "ip-literal" }]);
    }

    // ---- domain hosts ----
    let domain = url.host_str().unwrap_or_default().to_string();
    check!(calls.len() == 2 && calls.iter().any(|c| c.fam == Fam::V4) && calls.iter().any(|c| c.fam == Fam::V6), "C35:lookups", "expected one A and one AAAA lookup, saw {calls:?}");
    for call in &calls {
        check!(call.at_ms == 0, "C35:lookups", "lookup {call:?} was not started at once");
        check!(call.host == domain, "C35:lookups", "looked up {:?} for url host {domain:?}", call.host);
    }
    let (Some((done4, res4)), Some((done6, res6))) = (ds::call_done(Fam::V4, 0, 0, c.v4, c.timeout_ms), ds::call_done(Fam::V6, 0, 0, c.v6, c.timeout_ms)) else {
        return Outcome::Excluded("latency equals timeout");
    };
    let both_done = done4.max(done6);
    let near = |t: u64, want: u64| t >= want && t <= want + 1;

    // every address of each family, in order, at the time its lookup completed
    for (fam_is_v4, done, res) in [(true, done4, &res4), (false, done6, &res6)] {
        let got: Vec<(u64, IpAddr)> = items.iter().filter_map(|(t, i)| match i {
            Item::Ok(ip) if ip.is_ipv4() == fam_is_v4 => Some((*t, *ip)),
            _ => None,
        }).collect();
        let want: Vec<IpAddr> = res.clone().unwrap_or_default();
        let mut got_sorted: Vec<IpAddr> = got.iter().map(|g| g.1).collect();
        let mut want_sorted = want.clone();
        got_sorted.sort();
        want_sorted.sort();
        check!(got_sorted == want_sorted, "C35:addresses-lost-or-invented", "{} lookup returned {want:?} (done at {done} ms), stream yielded {:?}; all items {items:?}", if fam_is_v4 { "A" } else { "AAAA" }, got);
        check!(got.iter().map(|g| g.1).collect::<Vec<_>>() == want, "C35:address-order", "family order changed: lookup {want:?}, yielded {got:?}");
        for (t, ip) in &got {
            check!(near(*t, done), "C35:not-yielded-on-completion", "{ip} was yielded at {t} ms, its lookup completed at {done} ms");
        }
    }
    // terminal item
    let n_ok = items.iter().filter(|i| matches!(i.1, Item::Ok(_))).count();
    let errs: Vec<&(u64, Item)> = items.iter().filter(|i| matches!(i.1, Item::Err(_))).collect();
    let want_err = match (&res4, &res6) {
        (Err(a), Err(b)) => Some(ErrId::Both(Box::new(a.clone()), Box::new(b.clone()))),
        _ if n_ok == 0 => Some(ErrId::NoResponse),
        _ => None,
    };
    match (&want_err, errs.as_slice()) {
        (None, []) => {}
        (Some(w), [(t, Item::Err(e))]) => {
            check!(e == w, "C35:wrong-terminal-error", "terminal error {e:?}, expected {w:?} (A: {res4:?}, AAAA: {res6:?})");
            check!(matches!(items.last(), Some((_, Item::Err(_)))), "C35:error-not-last", "an item follows the error: {items:?}");
            check!(near(*t, both_done), "C35:not-yielded-on-completion", "error yielded at {t} ms, lookups done at {both_done} ms");
        }
        (None, _) => return Outcome::violation("C35:spurious-error", format!("stream yielded {errs:?} although A: {res4:?}, AAAA: {res6:?}; items {items:?}")),
        (Some(w), _) => return Outcome::violation("C35:missing-terminal-error", format!("expected exactly one error {w:?}, got {errs:?}; items {items:?}")),
    }
    check!(near(end_ms, both_done), "C35:end-time", "stream ended at {end_ms} ms, both lookups were done at {both_done} ms");

    let mut classes = vec![];
    let fails = |r: &Result<Vec<IpAddr>, ErrId>| r.is_err();
    let empty = |r: &Result<Vec<IpAddr>, ErrId>| matches!(r, Ok(v) if v.is_empty());
    let one_bad_other_later = (fails(&res4) || empty(&res4)) && res6.as_ref().map(|v| !v.is_empty()).unwrap_or(false) && done6 > done4
        || (fails(&res6) || empty(&res6)) && res4.as_ref().map(|v| !v.is_empty()).unwrap_or(false) && done4 > done6;
    classes.push(match (&res4, &res6) {
        (Err(_), Err(_)) => "both-fail",
        (Ok(_), Ok(_)) => "both-answer",
        _ => "one-fails",
    });
    if want_err == Some(ErrId::NoResponse) {
        classes.push("no-response");
    }
    if done4 == done6 {
        classes.push("same-instant");
    } else if done4 < done6 {
        classes.push("a-first");
    } else {
        classes.push("aaaa-first");
    }
    if matches!(res4, Err(ErrId::Timeout)) || matches!(res6, Err(ErrId::Timeout)) {
        classes.push("timeout");
    }
    if one_bad_other_later {
        classes.push("one-bad-other-answers-later");
    }
    Outcome::pass_with(one_bad_other_later || want_err.is_some(), classes)
}

pub fn run(ctx: &Ctx) {
    ctx.rule("cases: http/https URL whose host is a domain name, an IPv4 literal, an IPv6 literal, or a URL without host; per family a scripted answer (0-3 addresses / error) after a latency below, around or above the timeout, or never; both completion orders and equal instants; non-trivial = one family fails or is empty while the other answers later, or the stream must end with an error item");
    ctx.assume("the stream is polled continuously under tokio's paused clock (1 ms timer granularity tolerated); cases whose scripted latency equals the timeout are excluded; only special-scheme URLs are generated (for other schemes the url crate does not classify IP literals)");
    let k = ctx.tier.pick(1, 10);
    ctx.explore("resolve", ExploreOpts::new(500_000 * k), case_strategy, oracle);
}
