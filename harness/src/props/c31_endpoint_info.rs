//! C31 — publishing and resolving endpoint info preserves it.
//!
//! Round trips through the public conversion API: `EndpointInfo` -> signed packet -> wire bytes
//! -> `SignedPacket::from_bytes` -> `EndpointInfo`, and `EndpointInfo` -> TXT strings ->
//! `from_txt_lookup`.  The oracle is the statement itself (same id, same address set, same user
//! data) plus an independent rendering of the documented `key=value` record format.

use std::{
    collections::BTreeSet,
    net::{Ipv4Addr, Ipv6Addr, SocketAddr, SocketAddrV4, SocketAddrV6},
    str::FromStr,
};

use iroh_base::{CustomAddr, RelayUrl, SecretKey, TransportAddr};
use iroh_dns::{
    dns::TxtRecordData,
    endpoint_info::{EndpointData, EndpointInfo, UserData},
    pkarr::SignedPacket,
};
use proptest::prelude::*;
use serde::{Deserialize, Serialize};

use crate::{
    check,
    engine::{Ctx, ExploreOpts, Outcome},
    support::gens::{self, Payload},
};

#[derive(Debug, Clone, Serialize, Deserialize)]
enum AddrSpec {
    Relay(String),
    V4([u8; 4], u16),
    V6([u8; 16], u16),
    Custom(u64, Payload),
}

#[derive(Debug, Clone, Serialize, Deserialize)]
struct Case {
    sk: [u8; 32],
    addrs: Vec<AddrSpec>,
    user_data: Option<String>,
    ttl: u32,
    origin: u8,
}

/// Relay URLs from a grammar: scheme, host name / IPv4 / [IPv6], optional port, path segments
/// (with percent escapes and sub-delimiters such as `=`), query with `=` and `&`, fragment.
fn relay_url_string() -> BoxedStrategy<String> {
    let host = prop_oneof![
        6 => "[a-z][a-z0-9-]{0,7}[a-z0-9](\\.[a-z][a-z0-9]{0,5}){0,2}\\.?",
        1 => any::<[u8; 4]>().prop_map(|a| Ipv4Addr::from(a).to_string()),
        1 => any::<[u8; 16]>().prop_map(|a| format!("[{}]", Ipv6Addr::from(a))),
        1 => Just("[::1]".to_string()),
    ];
    let seg = "(/([a-zA-Z0-9._~=:@,;+-]|%[0-9A-F]{2}){0,6}){0,3}";
    let query = proptest::option::weighted(0.5, "[a-z]{0,3}(=[a-zA-Z0-9=%-]{0,5})?(&[a-z]{1,3}=[a-z0-9=]{0,4}){0,2}");
    let frag = proptest::option::weighted(0.15, "[a-z0-9=]{0,5}");
    ("(http|https|https|wss)", host, proptest::option::of(1u16..), seg, query, frag)
        .prop_map(|(scheme, host, port, path, query, frag)| {
            let mut s = format!("{scheme}://{host}");
            if let Some(p) = port {
                s.push_str(&format!(":{p}"));
            }
            s.push_str(&path);
            if let Some(q) = query {
                s.push('?');
                s.push_str(&q);
            }
            if let Some(f) = frag {
                s.push('#');
                s.push_str(&f);
            }
            s
        })
        .boxed()
}

fn addr_spec() -> impl Strategy<Value = AddrSpec> + Clone {
    prop_oneof![
        3 => relay_url_string().prop_map(AddrSpec::Relay),
        2 => (any::<[u8; 4]>(), any::<u16>()).prop_map(|(a, p)| AddrSpec::V4(a, p)),
        2 => (prop_oneof![
                3 => any::<[u8; 16]>(),
                // IPv4-mapped / compatible, loopback, unspecified, link local: special textual forms
                1 => any::<[u8; 4]>().prop_map(|a| Ipv4Addr::from(a).to_ipv6_mapped().octets()),
                1 => any::<[u8; 4]>().prop_map(|a| { let mut o = [0u8; 16]; o[12..].copy_from_slice(&a); o }),
                1 => prop::sample::select(vec![Ipv6Addr::LOCALHOST.octets(), Ipv6Addr::UNSPECIFIED.octets(), Ipv6Addr::new(0xfe80, 0, 0, 0, 0, 0, 0, 1).octets()]),
            ], any::<u16>()).prop_map(|(a, p)| AddrSpec::V6(a, p)),
        3 => (prop_oneof![any::<u64>(), 0u64..20, Just(u64::MAX)], gens::payload(&[30, 31, 64], 64)).prop_map(|(i, d)| AddrSpec::Custom(i, d)),
    ]
}

fn user_char() -> impl Strategy<Value = char> + Clone {
    prop_oneof![
        6 => prop::char::range('a', 'z'),
        2 => prop::char::range('0', '9'),
        3 => Just('='),
        1 => prop::sample::select(vec![' ', '"', '\\', '\'', ';', '.', '&', '%', '\u{7f}', '\u{0}', '\n', '\t', '\r']),
        1 => prop::char::range('\u{0}', '\u{1f}'),
        2 => prop::sample::select(vec!['é', 'ß', '€', '中', '𝄞', '🦀', '\u{fffd}', '\u{feff}', '\u{200b}']),
        1 => any::<char>(),
    ]
}

fn truncate_to(mut s: String, max: usize) -> String {
    if s.len() > max {
        let mut cut = max;
        while !s.is_char_boundary(cut) {
            cut -= 1;
        }
        s.truncate(cut);
    }
    s
}

fn user_data_strategy() -> impl Strategy<Value = Option<String>> + Clone {
    let chars = |r: std::ops::Range<usize>| proptest::collection::vec(user_char(), r).prop_map(|v| v.into_iter().collect::<String>());
    prop_oneof![
        2 => Just(None),
        1 => Just(Some(String::new())),
        4 => chars(0..12).prop_map(Some),
        2 => chars(0..80).prop_map(Some),
        // at the length limit (245 bytes), also with a multi-byte character straddling it
        2 => (chars(120..260), 240usize..=245).prop_map(|(s, max)| Some(truncate_to(s, max))),
        1 => "[a-z]{1,4}=[a-z]{0,4}(=[a-z]{0,3}){0,2}".prop_map(Some),
    ]
}

fn case_strategy() -> impl Strategy<Value = Case> + Clone {
    (gens::secret_bytes(), proptest::collection::vec(addr_spec(), 0..=8), user_data_strategy(), prop_oneof![Just(0u32), Just(30), Just(u32::MAX), any::<u32>()], 0u8..5)
        .prop_map(|(sk, addrs, user_data, ttl, origin)| Case { sk, addrs, user_data, ttl, origin })
}

fn build_addr(s: &AddrSpec) -> Option<TransportAddr> {
    Some(match s {
        AddrSpec::Relay(u) => TransportAddr::Relay(RelayUrl::from_str(u).ok()?),
        AddrSpec::V4(a, p) => TransportAddr::Ip(SocketAddr::V4(SocketAddrV4::new(Ipv4Addr::from(*a), *p))),
        AddrSpec::V6(a, p) => TransportAddr::Ip(SocketAddr::V6(SocketAddrV6::new(Ipv6Addr::from(*a), *p, 0, 0))),
        AddrSpec::Custom(i, d) => TransportAddr::Custom(CustomAddr::from_parts(*i, &d.bytes())),
    })
}

/// The documented record text of one address, written independently of `endpoint_info_to_attrs`.
fn reference_record(a: &TransportAddr) -> Option<String> {
    Some(match a {
        TransportAddr::Relay(u) => format!("relay={}", u.as_str()),
        TransportAddr::Ip(SocketAddr::V4(v)) => format!("addr={}:{}", v.ip(), v.port()),
        TransportAddr::Ip(SocketAddr::V6(v)) => format!("addr=[{}]:{}", v.ip(), v.port()),
        TransportAddr::Custom(c) => format!("addr={:x}_{}", c.id(), gens::hex_lower(c.data())),
        _ => return None,
    })
}

fn has_eq_value(records: &[String]) -> bool {
    records.iter().any(|r| r.split_once('=').map(|(_, v)| v.contains('=')).unwrap_or(false))
}

struct Expected<'a> {
    info: &'a EndpointInfo,
    addrs: BTreeSet<TransportAddr>,
    eq_in_value: bool,
}

fn compare(route: &str, exp: &Expected, got: &EndpointInfo) -> Option<Outcome> {
    const CUT: &str = "C31:value-truncated-at-equals-sign";
    if got.endpoint_id != exp.info.endpoint_id {
        return Some(Outcome::violation("C31:endpoint-id-not-preserved", format!("route {route}: id {} became {}", exp.info.endpoint_id, got.endpoint_id)));
    }
    let got_addrs: BTreeSet<TransportAddr> = got.addrs().cloned().collect();
    if got_addrs != exp.addrs {
        let missing: Vec<_> = exp.addrs.difference(&got_addrs).collect();
        let extra: Vec<_> = got_addrs.difference(&exp.addrs).collect();
        // diagnosis: a published value containing '=' came back cut at an '='
        let cut = missing.iter().any(|m| {
            let m = reference_record(m).unwrap_or_default();
            m.matches('=').count() >= 2 && extra.iter().any(|e| reference_record(e).map(|e| m.starts_with(&e) && m[e.len()..].starts_with('=')).unwrap_or(false))
        });
        return Some(Outcome::violation(if cut { CUT } else { "C31:addresses-not-preserved" }, format!("route {route}: published addresses not resolved: {missing:?}; resolved but never published: {extra:?}")));
    }
    if got.addrs().count() != got_addrs.len() {
        return Some(Outcome::violation("C31:duplicate-addresses", format!("route {route}: resolved address list has duplicates: {:?}", got.addrs().collect::<Vec<_>>())));
    }
    if got.user_data() != exp.info.user_data() {
        let cut = match (exp.info.user_data(), got.user_data()) {
            (Some(e), Some(g)) => e.as_ref().len() > g.as_ref().len() && e.as_ref().starts_with(g.as_ref()) && e.as_ref()[g.as_ref().len()..].starts_with('='),
            _ => false,
        };
        return Some(Outcome::violation(if cut { CUT } else { "C31:user-data-not-preserved" }, format!("route {route}: user data {:?} resolved as {:?}", exp.info.user_data(), got.user_data())));
    }
    // the accessors agree with the address list
    let relays: BTreeSet<_> = got.relay_urls().cloned().map(TransportAddr::Relay).collect();
    let ips: BTreeSet<_> = got.ip_addrs().cloned().map(TransportAddr::Ip).collect();
    let exp_relays: BTreeSet<_> = exp.addrs.iter().filter(|a| a.is_relay()).cloned().collect();
    let exp_ips: BTreeSet<_> = exp.addrs.iter().filter(|a| a.is_ip()).cloned().collect();
    if relays != exp_relays || ips != exp_ips {
        return Some(Outcome::violation("C31:accessors", format!("route {route}: relay_urls/ip_addrs disagree with the published set")));
    }
    None
}

const ORIGINS: [&str; 5] = ["dns.iroh.link.", "staging-dns.iroh.link.", "example.org", "", "a.b.c.d.e."];

fn oracle(c: &Case) -> Outcome {
    let sk = SecretKey::from_bytes(&c.sk);
    let id = sk.public();
    let addrs: Vec<TransportAddr> = c.addrs.iter().filter_map(build_addr).collect();
    let mut data = EndpointData::new(addrs.clone());
    let user_data = match &c.user_data {
        None => None,
        Some(s) => match UserData::try_from(s.clone()) {
            Ok(u) => Some(u),
            Err(_) => return Outcome::Excluded("user data longer than the limit"),
        },
    };
    data.set_user_data(user_data);
    let info = EndpointInfo::from_parts(id, data);
    let addr_set: BTreeSet<TransportAddr> = addrs.iter().cloned().collect();
    check!(info.addrs().cloned().collect::<BTreeSet<_>>() == addr_set, "C31:build", "EndpointData::new lost addresses");

    // ---- record text ----
    let records = info.to_txt_strings();
    let mut want: Vec<String> = addr_set.iter().filter_map(reference_record).collect();
    if let Some(u) = &c.user_data {
        want.push(format!("user-data={u}"));
    }
    let mut got_sorted = records.clone();
    got_sorted.sort();
    want.sort();
    check!(got_sorted == want, "C31:record-format", "to_txt_strings {got_sorted:?} differs from the documented format {want:?}");
    let exp = Expected { info: &info, addrs: addr_set.clone(), eq_in_value: has_eq_value(&records) };

    let mut classes = vec![];
    let kinds = [addr_set.iter().any(|a| a.is_relay()), addr_set.iter().any(|a| matches!(a, TransportAddr::Ip(SocketAddr::V4(_)))), addr_set.iter().any(|a| matches!(a, TransportAddr::Ip(SocketAddr::V6(_)))), addr_set.iter().any(|a| a.is_custom())];
    let n_kinds = kinds.iter().filter(|k| **k).count();
    if exp.eq_in_value {
        classes.push("value-contains-equals");
    }
    if n_kinds >= 3 {
        classes.push("three-or-more-address-kinds");
    }
    if c.user_data.as_ref().map(|u| u.len() >= 240).unwrap_or(false) {
        classes.push("user-data-at-limit");
    }
    if c.user_data.as_ref().map(|u| !u.is_ascii()).unwrap_or(false) {
        classes.push("user-data-non-ascii");
    }
    if addr_set.len() < addrs.len() {
        classes.push("duplicate-addresses-in-input");
    }

    // ---- route 1: TXT records under _iroh.<z32>.<origin> ----
    let z32 = gens::b32_encode(gens::ZBASE32, id.as_bytes());
    let origin = ORIGINS[c.origin as usize % ORIGINS.len()];
    let name = if origin.is_empty() { format!("_iroh.{z32}") } else { format!("_iroh.{z32}.{origin}") };
    let txt_ok = records.iter().all(|r| r.len() <= 255);
    if txt_ok {
        match EndpointInfo::from_txt_lookup(name.clone(), records.iter()) {
            Ok(got) => {
                if let Some(v) = compare("txt-strings", &exp, &got) {
                    return v;
                }
            }
            Err(e) => return Outcome::violation("C31:own-records-rejected", format!("from_txt_lookup({name:?}, {records:?}) failed: {e:?}")),
        }
        // as a resolver hands them over: one character string per record
        let rdata: Vec<TxtRecordData> = records.iter().map(|r| TxtRecordData::from(vec![r.clone().into_bytes().into_boxed_slice()])).collect();
        match EndpointInfo::from_txt_lookup(name.clone(), rdata.into_iter()) {
            Ok(got) => {
                if let Some(v) = compare("txt-record-data", &exp, &got) {
                    return v;
                }
            }
            Err(e) => return Outcome::violation("C31:own-records-rejected", format!("from_txt_lookup over TxtRecordData failed: {e:?}")),
        }
        // the record name decides whose records these are
        let bad = format!("iroh.{z32}.{origin}");
        check!(EndpointInfo::from_txt_lookup(bad.clone(), records.iter()).is_err(), "C31:name-not-checked", "lookup name {bad:?} without the _iroh label accepted");
        classes.push("route-txt");
    } else {
        classes.push("txt-record-over-255-bytes");
    }

    // ---- route 2: signed packet over the wire ----
    let mut pkarr_ok = false;
    match info.to_pkarr_signed_packet(&sk, c.ttl) {
        Err(e) => {
            let _ = format!("{e} {e:?}");
            classes.push("packet-does-not-encode");
        }
        Ok(packet) => {
            pkarr_ok = true;
            classes.push("route-signed-packet");
            check!(packet.as_bytes().len() <= SignedPacket::MAX_BYTES, "C31:packet-size", "encoded packet of {} bytes", packet.as_bytes().len());
            let mut in_packet = packet.txt_records("_iroh");
            in_packet.sort();
            check!(in_packet == got_sorted, "C31:packet-records", "packet holds {in_packet:?}, published {got_sorted:?}");
            let wire = packet.as_bytes().to_vec();
            let resolved = match SignedPacket::from_bytes(&wire) {
                Ok(p) => p,
                Err(e) => return Outcome::violation("C31:own-packet-rejected", format!("from_bytes rejected a freshly signed packet: {e:?}")),
            };
            check!(resolved.public_key() == id, "C31:endpoint-id-not-preserved", "packet key");
            match EndpointInfo::from_pkarr_signed_packet(&resolved) {
                Ok(got) => {
                    if let Some(v) = compare("signed-packet", &exp, &got) {
                        return v;
                    }
                }
                Err(e) => return Outcome::violation("C31:own-packet-rejected", format!("from_pkarr_signed_packet failed on records {records:?}: {e:?}")),
            }
            match SignedPacket::from_relay_payload(&id, &packet.to_relay_payload()).map(|p| EndpointInfo::from_pkarr_signed_packet(&p)) {
                Ok(Ok(got)) => {
                    if let Some(v) = compare("relay-payload", &exp, &got) {
                        return v;
                    }
                }
                other => return Outcome::violation("C31:own-packet-rejected", format!("relay payload route failed: {:?}", other.map(|r| r.map(|_| ())))),
            }
        }
    }
    if !txt_ok && !pkarr_ok {
        return Outcome::Excluded("value does not encode on any route");
    }
    Outcome::pass_with(exp.eq_in_value || n_kinds >= 3, classes)
}

/// Fuzz entry (parse side, totality + re-encode stability): the bytes are TXT strings separated
/// by newlines; they are offered to `from_txt_lookup` under a valid lookup name.  Whatever
/// parses must be inspectable and must survive a publish/resolve round trip unchanged.
pub fn fuzz_txt(data: &[u8]) -> Outcome {
    use iroh_dns::endpoint_info::EndpointInfo;
    let Ok(text) = std::str::from_utf8(data) else { return Outcome::pass(false) };
    let id = iroh_base::SecretKey::from_bytes(&[9u8; 32]).public();
    let name = format!("_iroh.{}.dns.example.", id.to_z32());
    let lines: Vec<&str> = text.split('\n').collect();
    match EndpointInfo::from_txt_lookup(name.clone(), lines.iter()) {
        Err(e) => { let _ = format!("{e} {e:?}"); Outcome::pass(false) }
        Ok(info) => {
            let _ = format!("{info:?}");
            check!(info.endpoint_id == id, "C31:wrong-id", "from_txt_lookup yields another endpoint id");
            // re-publish what was resolved and resolve again: must be a fixed point
            let strings = info.to_txt_strings();
            match EndpointInfo::from_txt_lookup(name, strings.iter()) {
                Ok(again) => {
                    check!(again == info, "C31:republish-changes-info", "resolved info {info:?} re-published and resolved again gives {again:?}");
                    Outcome::pass(true)
                }
                Err(e) => Outcome::violation("C31:republish-rejected", format!("own TXT strings {strings:?} rejected: {e:?}")),
            }
        }
    }
}

pub fn fuzz_txt_seeds() -> Vec<Vec<u8>> {
    vec![
        b"relay=https://relay.example./?a=b\naddr=1.2.3.4:5 [::1]:7\nuser-data=x=y=z".to_vec(),
        b"addr=10.0.0.1:1\naddr=10.0.0.2:2".to_vec(),
        b"user-data=\nrelay=http://r.example:80/p".to_vec(),
    ]
}

pub fn run(ctx: &Ctx) {
    ctx.rule("cases: endpoint id from a generated secret key; 0-8 addresses over {relay URL from a grammar (http/https/wss, host name / IPv4 / [IPv6], port, path with percent escapes and '=', query with '=' and '&', fragment), IPv4 socket address, IPv6 socket address (flow info and scope id 0; mapped/compatible/special forms), custom address (id over u64, 0-64 payload bytes)}; user data none / empty / up to 245 bytes over ASCII, '=', quotes, controls, multi-byte and arbitrary chars, dense at the limit; TTL; origin of the lookup name; non-trivial = some record value contains '=' or the info has >= 3 address kinds");
    ctx.assume("relay URL candidates that the url crate rejects are dropped from the case; values none of whose routes encode (record > 255 bytes and packet > 1000 bytes) are excluded, not passed");
    let k = ctx.tier.pick(1, 10);
    ctx.explore("roundtrip", ExploreOpts::new(60_000 * k), case_strategy, oracle);
    ctx.fuzz_campaign("c31_txt", ctx.tier.pick(0, 1_500_000), 400, fuzz_txt_seeds(), &fuzz_txt);
}
