//! C43 — relay maps behave as maps and never deadlock.
//!
//! Part `history`: a generated operation sequence over a pool of `RelayMap` handles (some of
//! them clones sharing storage) is executed on a worker thread; the harness keeps a reference
//! model (handle -> storage id -> BTreeMap<url, config>) and compares every return value and,
//! after every operation, the full contents visible through every handle.  An operation that
//! does not return is reported as "blocks forever".
//!
//! Part `threads`: 2..8 OS threads run generated operation lists on clones of 2..3 shared maps
//! from a barrier; the oracle is schedule independent (completion, no panic, clones agree,
//! every final value is one that some operation could have put there, no lost keys when
//! nothing removes).

use std::{
    collections::{BTreeMap, BTreeSet},
    str::FromStr,
    sync::{Arc, Barrier, mpsc},
    time::Duration,
};

use iroh_base::RelayUrl;
use iroh_relay::{RelayConfig, RelayMap, RelayQuicConfig};
use proptest::prelude::*;
use serde::{Deserialize, Serialize};

use crate::{
    check,
    engine::{Ctx, ExploreOpts, Outcome},
    support::gens::pick,
};

const URLS: [&str; 4] = [
    "https://relay-a.example.org/",
    "https://relay-b.example.org:8443/",
    "http://relay-c.example.org/base",
    "https://relay-d.example.org./",
];
const INVALID_URL: &str = "not a url";
const TOKENS: [&str; 3] = ["", "t1", "tök en="];
const MAX_HANDLES: usize = 8;
/// Detector bound for "does not return" (an operation takes microseconds).
const BLOCK_WAIT: Duration = Duration::from_secs(10);

fn url(i: u8) -> RelayUrl {
    RelayUrl::from_str(URLS[i as usize % 4]).expect("valid url")
}

fn url_index(u: &RelayUrl) -> u8 {
    URLS.iter().position(|s| *s == u.as_str()).map(|p| p as u8).unwrap_or(255)
}

#[derive(Debug, Clone, Copy, PartialEq, Eq, Serialize, Deserialize)]
enum Quic {
    None,
    Default,
    Port(u16),
}

/// A configuration as generated (compact).
#[derive(Debug, Clone, PartialEq, Eq, Serialize, Deserialize)]
struct CfgSpec {
    url: u8,
    quic: Quic,
    token: Option<u8>,
}

/// A configuration as the model sees it.
#[derive(Debug, Clone, PartialEq, Eq, PartialOrd, Ord)]
struct MCfg {
    url: u8,
    quic: Option<u16>,
    token: Option<String>,
}

impl CfgSpec {
    fn model(&self) -> MCfg {
        MCfg {
            url: self.url % 4,
            quic: match self.quic {
                Quic::None => None,
                Quic::Default => Some(RelayQuicConfig::default().port),
                Quic::Port(p) => Some(p),
            },
            token: self.token.map(|t| TOKENS[t as usize % 3].to_string()),
        }
    }
    fn real(&self) -> RelayConfig {
        let quic = match self.quic {
            Quic::None => None,
            Quic::Default => Some(RelayQuicConfig::default()),
            Quic::Port(p) => Some(RelayQuicConfig::new(p)),
        };
        let c = RelayConfig::new(url(self.url), quic);
        match self.token {
            Some(t) => c.with_auth_token(TOKENS[t as usize % 3]),
            None => c,
        }
    }
}

fn observe_cfg(c: &RelayConfig) -> MCfg {
    MCfg { url: url_index(&c.url), quic: c.quic.as_ref().map(|q| q.port), token: c.auth_token.clone() }
}

fn default_cfg(u: u8) -> MCfg {
    MCfg { url: u % 4, quic: Some(RelayQuicConfig::default().port), token: None }
}

/// Second argument of a two-argument operation.
#[derive(Debug, Clone, Copy, Serialize, Deserialize)]
enum Src {
    /// another handle from the pool (may or may not share storage)
    Handle(u16),
    /// the very same handle (`m.extend(&m)`)
    Same,
    /// a temporary clone of the first argument (`m.extend(&m.clone())`)
    TempClone,
}

#[derive(Debug, Clone, Serialize, Deserialize)]
enum Op {
    NewEmpty,
    /// `FromIterator<RelayUrl>`
    NewFromUrls(Vec<u8>),
    /// `FromIterator<RelayConfig>` / `FromIterator<Arc<RelayConfig>>`
    NewFromConfigs(Vec<CfgSpec>, bool),
    /// `try_from_iter` over strings; index 4 is not a URL
    NewTryFromIter(Vec<u8>),
    /// `From<RelayUrl>`
    NewFromUrl(u8),
    /// `From<RelayConfig>`
    NewFromConfig(CfgSpec),
    Clone(u16),
    Drop(u16),
    Insert { h: u16, key: u8, cfg: CfgSpec },
    Remove { h: u16, key: u8 },
    Extend { dst: u16, src: Src },
    WithAuthToken { h: u16, token: u8 },
    Eq { a: u16, b: Src },
    Get { h: u16, key: u8 },
    Contains { h: u16, key: u8 },
    Len(u16),
    IsEmpty(u16),
    Urls(u16),
    Relays(u16),
    Format(u16),
}

#[derive(Debug, Clone, Serialize, Deserialize)]
struct Case {
    ops: Vec<Op>,
}

fn cfg_spec() -> impl Strategy<Value = CfgSpec> + Clone {
    (0u8..4, prop_oneof![Just(Quic::None), Just(Quic::Default), (1u16..4).prop_map(Quic::Port)], proptest::option::of(0u8..3))
        .prop_map(|(url, quic, token)| CfgSpec { url, quic, token })
}

fn src() -> impl Strategy<Value = Src> + Clone {
    prop_oneof![4 => any::<u16>().prop_map(Src::Handle), 1 => Just(Src::Same), 1 => Just(Src::TempClone)]
}

fn op() -> impl Strategy<Value = Op> + Clone {
    let h = || any::<u16>();
    let key = || 0u8..4;
    prop_oneof![
        1 => Just(Op::NewEmpty),
        1 => proptest::collection::vec(0u8..4, 0..5).prop_map(Op::NewFromUrls),
        1 => (proptest::collection::vec(cfg_spec(), 0..5), any::<bool>()).prop_map(|(c, a)| Op::NewFromConfigs(c, a)),
        1 => proptest::collection::vec(prop_oneof![9 => 0u8..4, 1 => Just(4u8)], 0..5).prop_map(Op::NewTryFromIter),
        1 => key().prop_map(Op::NewFromUrl),
        1 => cfg_spec().prop_map(Op::NewFromConfig),
        5 => h().prop_map(Op::Clone),
        1 => h().prop_map(Op::Drop),
        8 => (h(), key(), cfg_spec()).prop_map(|(h, key, cfg)| Op::Insert { h, key, cfg }),
        4 => (h(), key()).prop_map(|(h, key)| Op::Remove { h, key }),
        8 => (h(), src()).prop_map(|(dst, src)| Op::Extend { dst, src }),
        3 => (h(), 0u8..3).prop_map(|(h, token)| Op::WithAuthToken { h, token }),
        4 => (h(), src()).prop_map(|(a, b)| Op::Eq { a, b }),
        2 => (h(), key()).prop_map(|(h, key)| Op::Get { h, key }),
        1 => (h(), key()).prop_map(|(h, key)| Op::Contains { h, key }),
        1 => h().prop_map(Op::Len),
        1 => h().prop_map(Op::IsEmpty),
        1 => h().prop_map(Op::Urls),
        1 => h().prop_map(Op::Relays),
        1 => h().prop_map(Op::Format),
    ]
}

fn strategy() -> impl Strategy<Value = Case> + Clone {
    proptest::collection::vec(op(), 1..40).prop_map(|ops| Case { ops })
}

/// What an operation returned, in model terms.
#[derive(Debug, Clone, PartialEq, Eq)]
enum Obs {
    Unit,
    Skipped,
    Bool(bool),
    Len(usize),
    Cfg(Option<MCfg>),
    Keys(Vec<u8>),
    Cfgs(Vec<MCfg>),
    CreateFailed,
    Panicked(String),
}

type Contents = BTreeMap<u8, MCfg>;

/// Everything visible through one handle, read through the public accessors.
#[derive(Debug, Clone, PartialEq, Eq)]
struct View {
    contents: Contents,
    /// problems found while reading (accessors disagreeing with each other)
    inconsistent: Option<String>,
}

fn view(m: &RelayMap) -> View {
    let keys: Vec<RelayUrl> = m.urls();
    let mut contents = Contents::new();
    let mut inconsistent = None;
    let mut note = |s: String| {
        if inconsistent.is_none() {
            inconsistent = Some(s);
        }
    };
    for k in &keys {
        match m.get(k) {
            Some(c) => {
                if contents.insert(url_index(k), observe_cfg(&c)).is_some() {
                    note(format!("urls() lists {k} twice"));
                }
            }
            None => note(format!("urls() lists {k} but get() returns None")),
        }
        if !m.contains(k) {
            note(format!("urls() lists {k} but contains() is false"));
        }
    }
    if m.len() != keys.len() {
        note(format!("len() = {} but urls() has {} entries", m.len(), keys.len()));
    }
    if m.is_empty() != keys.is_empty() {
        note(format!("is_empty() = {} with {} urls", m.is_empty(), keys.len()));
    }
    let mut vals: Vec<MCfg> = m.relays::<Vec<Arc<RelayConfig>>>().iter().map(|c| observe_cfg(c)).collect();
    vals.sort();
    let mut expect: Vec<MCfg> = contents.values().cloned().collect();
    expect.sort();
    if vals != expect {
        note(format!("relays() = {vals:?} differs from the values reachable through get(): {expect:?}"));
    }
    for i in 0..4u8 {
        if !contents.contains_key(&i) && (m.contains(&url(i)) || m.get(&url(i)).is_some()) {
            note(format!("{} is not listed by urls() but contains()/get() find it", URLS[i as usize]));
        }
    }
    View { contents, inconsistent }
}

struct Step {
    obs: Obs,
    views: Vec<View>,
}

fn resolve(src: Src, first: usize, len: usize) -> Option<usize> {
    match src {
        Src::Handle(i) => Some(pick(i, len)),
        Src::Same => Some(first),
        Src::TempClone => None,
    }
}

/// Executes histories on real maps, reporting after every operation.  One worker thread
/// serves all cases of an exploring thread (every job starts from a fresh pool of maps); it is
/// abandoned, and replaced, only when an operation does not return.
fn worker(jobs: mpsc::Receiver<(u64, Vec<Op>)>, tx: mpsc::Sender<(u64, Step)>) {
    while let Ok((job, ops)) = jobs.recv() {
        let mut pool: Vec<RelayMap> = vec![RelayMap::empty()];
        for op in ops {
            let res = std::panic::catch_unwind(std::panic::AssertUnwindSafe(|| exec(&mut pool, &op)));
            let obs = match res {
                Ok(o) => o,
                Err(p) => Obs::Panicked(
                    p.downcast_ref::<&str>().map(|s| s.to_string()).or_else(|| p.downcast_ref::<String>().cloned()).unwrap_or_default(),
                ),
            };
            let dead = matches!(obs, Obs::Panicked(_));
            let views = if dead { vec![] } else { pool.iter().map(view).collect() };
            if tx.send((job, Step { obs, views })).is_err() {
                return;
            }
            if dead {
                break;
            }
        }
    }
}

struct WorkerHandle {
    jobs: mpsc::Sender<(u64, Vec<Op>)>,
    steps: mpsc::Receiver<(u64, Step)>,
    job: u64,
}

impl WorkerHandle {
    fn spawn() -> Self {
        let (jobs, jobs_rx) = mpsc::channel();
        let (tx, steps) = mpsc::channel();
        std::thread::Builder::new().name("c43-history".into()).spawn(move || worker(jobs_rx, tx)).expect("spawn");
        Self { jobs, steps, job: 0 }
    }
    /// Next step of the current job (steps of earlier, abandoned jobs are skipped).
    fn recv(&self, wait: Duration) -> Result<Step, mpsc::RecvTimeoutError> {
        let deadline = std::time::Instant::now() + wait;
        loop {
            let (job, step) = self.steps.recv_timeout(deadline.saturating_duration_since(std::time::Instant::now()))?;
            if job == self.job {
                return Ok(step);
            }
        }
    }
}

thread_local! {
    static WORKER: std::cell::RefCell<Option<WorkerHandle>> = const { std::cell::RefCell::new(None) };
}

/// Holds the thread's worker for one case; gives it back on drop unless it is stuck.
struct Lease {
    w: Option<WorkerHandle>,
    stuck: bool,
}

impl Lease {
    fn start(ops: Vec<Op>) -> Self {
        let mut w = WORKER.with(|c| c.borrow_mut().take()).unwrap_or_else(WorkerHandle::spawn);
        w.job += 1;
        if w.jobs.send((w.job, ops.clone())).is_err() {
            w = WorkerHandle::spawn();
            w.job = 1;
            w.jobs.send((1, ops)).expect("fresh worker");
        }
        Self { w: Some(w), stuck: false }
    }
    fn recv(&self, wait: Duration) -> Result<Step, mpsc::RecvTimeoutError> {
        self.w.as_ref().unwrap().recv(wait)
    }
}

impl Drop for Lease {
    fn drop(&mut self) {
        if !self.stuck {
            let w = self.w.take();
            WORKER.with(|c| *c.borrow_mut() = w);
        }
    }
}

fn exec(pool: &mut Vec<RelayMap>, op: &Op) -> Obs {
    let n = pool.len();
    let creating = matches!(op, Op::NewEmpty | Op::NewFromUrls(_) | Op::NewFromConfigs(..) | Op::NewTryFromIter(_) | Op::NewFromUrl(_) | Op::NewFromConfig(_) | Op::Clone(_));
    if creating && n >= MAX_HANDLES {
        return Obs::Skipped;
    }
    match op {
        Op::NewEmpty => pool.push(RelayMap::empty()),
        Op::NewFromUrls(us) => pool.push(us.iter().map(|u| url(*u)).collect::<RelayMap>()),
        Op::NewFromConfigs(cs, arc) => {
            if *arc {
                pool.push(cs.iter().map(|c| Arc::new(c.real())).collect::<RelayMap>())
            } else {
                pool.push(cs.iter().map(|c| c.real()).collect::<RelayMap>())
            }
        }
        Op::NewTryFromIter(us) => {
            let strs: Vec<&str> = us.iter().map(|u| if *u >= 4 { INVALID_URL } else { URLS[*u as usize] }).collect();
            match RelayMap::try_from_iter(strs) {
                Ok(m) => pool.push(m),
                Err(e) => {
                    let _ = format!("{e} {e:?}");
                    return Obs::CreateFailed;
                }
            }
        }
        Op::NewFromUrl(u) => pool.push(RelayMap::from(url(*u))),
        Op::NewFromConfig(c) => pool.push(RelayMap::from(c.real())),
        Op::Clone(h) => {
            let c = pool[pick(*h, n)].clone();
            pool.push(c);
        }
        Op::Drop(h) => {
            if n <= 1 {
                return Obs::Skipped;
            }
            drop(pool.remove(pick(*h, n)));
        }
        Op::Insert { h, key, cfg } => {
            let prev = pool[pick(*h, n)].insert(url(*key), Arc::new(cfg.real()));
            return Obs::Cfg(prev.map(|c| observe_cfg(&c)));
        }
        Op::Remove { h, key } => {
            let prev = pool[pick(*h, n)].remove(&url(*key));
            return Obs::Cfg(prev.map(|c| observe_cfg(&c)));
        }
        Op::Extend { dst, src } => {
            let d = pick(*dst, n);
            match resolve(*src, d, n) {
                Some(s) => pool[d].extend(&pool[s]),
                None => pool[d].extend(&pool[d].clone()),
            }
        }
        Op::WithAuthToken { h, token } => {
            let i = pick(*h, n);
            let m = std::mem::replace(&mut pool[i], RelayMap::empty());
            pool[i] = m.with_auth_token(TOKENS[*token as usize % 3]);
        }
        Op::Eq { a, b } => {
            let i = pick(*a, n);
            #[allow(clippy::eq_op)]
            let r = match resolve(*b, i, n) {
                Some(j) => {
                    let r = pool[i] == pool[j];
                    let back = pool[j] == pool[i];
                    if r != back {
                        return Obs::Panicked(format!("== is not symmetric: {r} vs {back}"));
                    }
                    r
                }
                None => pool[i] == pool[i].clone(),
            };
            return Obs::Bool(r);
        }
        Op::Get { h, key } => return Obs::Cfg(pool[pick(*h, n)].get(&url(*key)).map(|c| observe_cfg(&c))),
        Op::Contains { h, key } => return Obs::Bool(pool[pick(*h, n)].contains(&url(*key))),
        Op::Len(h) => return Obs::Len(pool[pick(*h, n)].len()),
        Op::IsEmpty(h) => return Obs::Bool(pool[pick(*h, n)].is_empty()),
        Op::Urls(h) => {
            let v: BTreeSet<RelayUrl> = pool[pick(*h, n)].urls();
            let l: Vec<RelayUrl> = pool[pick(*h, n)].urls();
            if l.len() != v.len() {
                return Obs::Panicked("urls() returns duplicates".into());
            }
            return Obs::Keys(v.iter().map(url_index).collect::<BTreeSet<u8>>().into_iter().collect());
        }
        Op::Relays(h) => {
            let mut v: Vec<MCfg> = pool[pick(*h, n)].relays::<Vec<Arc<RelayConfig>>>().iter().map(|c| observe_cfg(c)).collect();
            v.sort();
            return Obs::Cfgs(v);
        }
        Op::Format(h) => {
            let m = &pool[pick(*h, n)];
            let _ = format!("{m} {m:?} {m:#?}");
        }
    }
    Obs::Unit
}

/// The reference model.
struct Model {
    /// handle -> storage id
    handles: Vec<usize>,
    storages: Vec<Contents>,
}

impl Model {
    fn new_storage(&mut self, c: Contents) {
        self.storages.push(c);
        self.handles.push(self.storages.len() - 1);
    }
    fn map(&mut self, h: usize) -> &mut Contents {
        let s = self.handles[h];
        &mut self.storages[s]
    }
}

fn run_case(c: &Case) -> Outcome {
    let mut lease = Lease::start(c.ops.clone());
    let mut m = Model { handles: vec![], storages: vec![] };
    m.new_storage(Contents::new());
    let mut classes: Vec<&'static str> = vec![];
    let mut class = |c: &'static str| {
        if !classes.contains(&c) {
            classes.push(c);
        }
    };
    let mut shared_two_arg = false;

    for (i, op) in c.ops.iter().enumerate() {
        let n = m.handles.len();
        // Model step first: what must happen.
        let creating = matches!(op, Op::NewEmpty | Op::NewFromUrls(_) | Op::NewFromConfigs(..) | Op::NewTryFromIter(_) | Op::NewFromUrl(_) | Op::NewFromConfig(_) | Op::Clone(_));
        let mut shares = false; // a two-argument operation whose arguments share storage
        // candidates for keys given more than once to FromIterator (which one wins is not specified)
        let mut ambiguous: BTreeMap<u8, Vec<MCfg>> = BTreeMap::new();
        let expect: Obs = if creating && n >= MAX_HANDLES {
            Obs::Skipped
        } else {
            match op {
                Op::NewEmpty => {
                    m.new_storage(Contents::new());
                    Obs::Unit
                }
                Op::NewFromUrls(us) => {
                    m.new_storage(us.iter().map(|u| (*u % 4, default_cfg(*u))).collect());
                    Obs::Unit
                }
                Op::NewFromConfigs(cs, _) => {
                    let mut c = Contents::new();
                    for spec in cs {
                        let mc = spec.model();
                        ambiguous.entry(mc.url).or_default().push(mc.clone());
                        c.insert(mc.url, mc);
                    }
                    ambiguous.retain(|_, v| v.len() > 1);
                    m.new_storage(c);
                    Obs::Unit
                }
                Op::NewTryFromIter(us) => {
                    if us.iter().any(|u| *u >= 4) {
                        class("try-from-iter-invalid");
                        Obs::CreateFailed
                    } else {
                        m.new_storage(us.iter().map(|u| (*u, default_cfg(*u))).collect());
                        Obs::Unit
                    }
                }
                Op::NewFromUrl(u) => {
                    m.new_storage([(*u % 4, default_cfg(*u))].into());
                    Obs::Unit
                }
                Op::NewFromConfig(spec) => {
                    let mc = spec.model();
                    m.new_storage([(mc.url, mc)].into());
                    Obs::Unit
                }
                Op::Clone(h) => {
                    let s = m.handles[pick(*h, n)];
                    m.handles.push(s);
                    Obs::Unit
                }
                Op::Drop(h) => {
                    if n <= 1 {
                        Obs::Skipped
                    } else {
                        m.handles.remove(pick(*h, n));
                        Obs::Unit
                    }
                }
                Op::Insert { h, key, cfg } => {
                    if cfg.url % 4 != *key {
                        class("insert-key-differs-from-config-url");
                    }
                    Obs::Cfg(m.map(pick(*h, n)).insert(*key, cfg.model()))
                }
                Op::Remove { h, key } => Obs::Cfg(m.map(pick(*h, n)).remove(key)),
                Op::Extend { dst, src } => {
                    let d = pick(*dst, n);
                    let s = resolve(*src, d, n).unwrap_or(d);
                    shares = m.handles[d] == m.handles[s];
                    let add = m.storages[m.handles[s]].clone();
                    let overlap = add.iter().any(|(k, v)| m.storages[m.handles[d]].get(k).is_some_and(|o| o != v));
                    if overlap {
                        class("extend-overwrites");
                    }
                    m.map(d).extend(add);
                    class(if shares { "extend-shared-storage" } else { "extend-independent" });
                    Obs::Unit
                }
                Op::WithAuthToken { h, token } => {
                    let t = TOKENS[*token as usize % 3].to_string();
                    let h = pick(*h, n);
                    if m.handles.iter().filter(|s| **s == m.handles[h]).count() > 1 {
                        class("token-through-shared-storage");
                    }
                    for v in m.map(h).values_mut() {
                        v.token = Some(t.clone());
                    }
                    Obs::Unit
                }
                Op::Eq { a, b } => {
                    let i = pick(*a, n);
                    let j = resolve(*b, i, n).unwrap_or(i);
                    shares = m.handles[i] == m.handles[j];
                    class(if shares { "eq-shared-storage" } else { "eq-independent" });
                    Obs::Bool(m.storages[m.handles[i]] == m.storages[m.handles[j]])
                }
                Op::Get { h, key } => Obs::Cfg(m.map(pick(*h, n)).get(key).cloned()),
                Op::Contains { h, key } => Obs::Bool(m.map(pick(*h, n)).contains_key(key)),
                Op::Len(h) => Obs::Len(m.map(pick(*h, n)).len()),
                Op::IsEmpty(h) => Obs::Bool(m.map(pick(*h, n)).is_empty()),
                Op::Urls(h) => Obs::Keys(m.map(pick(*h, n)).keys().copied().collect()),
                Op::Relays(h) => {
                    let mut v: Vec<MCfg> = m.map(pick(*h, n)).values().cloned().collect();
                    v.sort();
                    Obs::Cfgs(v)
                }
                Op::Format(_) => Obs::Unit,
            }
        };
        shared_two_arg |= shares;

        // Real step: wait for the worker.
        let step = match lease.recv(BLOCK_WAIT) {
            Ok(s) => s,
            Err(mpsc::RecvTimeoutError::Timeout) if shares => {
                // The worker thread stays blocked; it holds no resources other than its maps.
                lease.stuck = true;
                return Outcome::violation(
                    "C43:blocks-forever-shared-storage",
                    format!("step {i} ({op:?}) did not return within {BLOCK_WAIT:?}; its two arguments share the same storage"),
                );
            }
            Err(mpsc::RecvTimeoutError::Timeout) => match lease.recv(BLOCK_WAIT * 3) {
                Ok(s) => s,
                Err(_) => {
                    lease.stuck = true;
                    return Outcome::violation(
                        "C43:blocks-forever",
                        format!("step {i} ({op:?}) did not return within {:?} although no other thread uses these maps", BLOCK_WAIT * 4),
                    );
                }
            },
            Err(mpsc::RecvTimeoutError::Disconnected) => {
                lease.stuck = true;
                return Outcome::violation("C43:worker-died", format!("worker thread ended before step {i} ({op:?})"));
            }
        };
        if let Obs::Panicked(msg) = &step.obs {
            return Outcome::violation("C43:panic", format!("step {i} ({op:?}) panicked: {msg}"));
        }
        check!(step.obs == expect, "C43:return-value", "step {i} ({op:?}) returned {:?}, the model expects {expect:?}", step.obs);
        check!(step.views.len() == m.handles.len(), "C43:harness-desync", "step {i}: {} real handles, {} model handles", step.views.len(), m.handles.len());
        if !ambiguous.is_empty() {
            // adopt whichever of the duplicate entries the collection kept, if it is one of them
            let s = *m.handles.last().unwrap();
            for (k, cands) in &ambiguous {
                match step.views.last().unwrap().contents.get(k) {
                    Some(v) if cands.contains(v) => {
                        m.storages[s].insert(*k, v.clone());
                    }
                    other => {
                        return Outcome::violation("C43:from-iter-duplicates", format!("step {i} ({op:?}): key {k} maps to {other:?}, none of the given entries {cands:?}"));
                    }
                }
            }
            class("from-iter-duplicate-keys");
        }
        for (h, v) in step.views.iter().enumerate() {
            if let Some(p) = &v.inconsistent {
                return Outcome::violation("C43:accessors-disagree", format!("after step {i} ({op:?}), handle {h}: {p}"));
            }
            let want = &m.storages[m.handles[h]];
            check!(&v.contents == want, "C43:contents", "after step {i} ({op:?}) handle {h} (storage {}) shows {:?}, the model has {want:?}", m.handles[h], v.contents);
        }
    }
    Outcome::pass_with(shared_two_arg, classes)
}

// ---------------------------------------------------------------------------------------------
// concurrent part

#[derive(Debug, Clone, Serialize, Deserialize)]
enum TOp {
    Insert { s: u8, key: u8, cfg: CfgSpec },
    Remove { s: u8, key: u8 },
    /// `maps[dst].extend(&maps[src])`; dst == src means a clone of the same storage
    Extend { dst: u8, src: u8 },
    ExtendTempClone { s: u8 },
    Token { s: u8, token: u8 },
    /// `m == m.clone()`
    EqShared { s: u8 },
    /// `==` between two storages, always issued as (lower, higher)
    EqOrdered { a: u8, b: u8 },
    Read { s: u8 },
}

#[derive(Debug, Clone, Serialize, Deserialize)]
struct TCase {
    initial: Vec<Vec<CfgSpec>>,
    threads: Vec<Vec<TOp>>,
}

fn top(removes: bool) -> impl Strategy<Value = TOp> + Clone {
    let s = || 0u8..3;
    prop_oneof![
        6 => (s(), 0u8..4, cfg_spec()).prop_map(|(s, key, cfg)| TOp::Insert { s, key, cfg }),
        (if removes { 3 } else { 0 }) => (s(), 0u8..4).prop_map(|(s, key)| TOp::Remove { s, key }),
        6 => (s(), s()).prop_map(|(dst, src)| TOp::Extend { dst, src }),
        2 => s().prop_map(|s| TOp::ExtendTempClone { s }),
        2 => (s(), 0u8..3).prop_map(|(s, token)| TOp::Token { s, token }),
        2 => s().prop_map(|s| TOp::EqShared { s }),
        1 => (s(), s()).prop_map(|(a, b)| TOp::EqOrdered { a, b }),
        3 => s().prop_map(|s| TOp::Read { s }),
    ]
}

fn tstrategy() -> impl Strategy<Value = TCase> + Clone {
    (any::<bool>(), 2usize..4).prop_flat_map(|(removes, ns)| {
        (
            proptest::collection::vec(proptest::collection::vec(cfg_spec(), 0..4), ns..=ns),
            proptest::collection::vec(proptest::collection::vec(top(removes), 1..25), 2..=8),
        )
            .prop_map(|(initial, threads)| TCase { initial, threads })
    })
}

fn run_threads(c: &TCase) -> Outcome {
    let ns = c.initial.len();
    let sid = |s: u8| s as usize % ns;
    let base: Vec<RelayMap> = c.initial.iter().map(|cs| RelayMap::from_iter(cs.iter().map(|c| c.real()))).collect();
    let initial: Vec<Contents> = base.iter().map(|m| view(m).contents).collect();
    let nthreads = c.threads.len();
    let barrier = Arc::new(Barrier::new(nthreads));
    let (tx, rx) = mpsc::channel::<(usize, Result<Option<String>, String>)>();
    let progress: Arc<Vec<std::sync::atomic::AtomicUsize>> = Arc::new((0..nthreads).map(|_| Default::default()).collect());
    let mut joins = vec![];
    for (t, ops) in c.threads.iter().enumerate() {
        let mut maps: Vec<RelayMap> = base.clone();
        let ops = ops.clone();
        let tx = tx.clone();
        let barrier = barrier.clone();
        let progress = progress.clone();
        joins.push(
            std::thread::Builder::new()
                .name(format!("c43-t{t}"))
                .spawn(move || {
                    barrier.wait();
                    let res = std::panic::catch_unwind(std::panic::AssertUnwindSafe(|| {
                        let mut problem = None;
                        for (i, op) in ops.iter().enumerate() {
                            progress[t].store(i, std::sync::atomic::Ordering::Relaxed);
                            let ns = maps.len();
                            let sid = |s: u8| s as usize % ns;
                            match op {
                                TOp::Insert { s, key, cfg } => {
                                    maps[sid(*s)].insert(url(*key), Arc::new(cfg.real()));
                                }
                                TOp::Remove { s, key } => {
                                    maps[sid(*s)].remove(&url(*key));
                                }
                                TOp::Extend { dst, src } => {
                                    let other = maps[sid(*src)].clone();
                                    maps[sid(*dst)].extend(&other);
                                }
                                TOp::ExtendTempClone { s } => maps[sid(*s)].extend(&maps[sid(*s)].clone()),
                                TOp::Token { s, token } => {
                                    let m = std::mem::replace(&mut maps[sid(*s)], RelayMap::empty());
                                    maps[sid(*s)] = m.with_auth_token(TOKENS[*token as usize % 3]);
                                }
                                TOp::EqShared { s } => {
                                    let _ = maps[sid(*s)] == maps[sid(*s)].clone();
                                }
                                TOp::EqOrdered { a, b } => {
                                    let (a, b) = (sid(*a).min(sid(*b)), sid(*a).max(sid(*b)));
                                    let _ = maps[a] == maps[b];
                                }
                                TOp::Read { s } => {
                                    let m = &maps[sid(*s)];
                                    let keys: Vec<RelayUrl> = m.urls();
                                    let set: BTreeSet<&RelayUrl> = keys.iter().collect();
                                    if set.len() != keys.len() || keys.iter().any(|k| url_index(k) == 255) {
                                        problem = Some(format!("thread {t} step {i}: urls() = {keys:?}"));
                                    }
                                    let _ = (m.len(), m.is_empty(), m.get(&url(0)), m.contains(&url(1)), m.relays::<Vec<_>>(), format!("{m:?}"));
                                }
                            }
                        }
                        progress[t].store(usize::MAX, std::sync::atomic::Ordering::Relaxed);
                        problem
                    }));
                    let _ = tx.send((
                        t,
                        res.map_err(|p| p.downcast_ref::<&str>().map(|s| s.to_string()).or_else(|| p.downcast_ref::<String>().cloned()).unwrap_or_default()),
                    ));
                })
                .expect("spawn"),
        );
    }
    drop(tx);
    let deadline = std::time::Instant::now() + BLOCK_WAIT * 2;
    let mut done = 0;
    while done < nthreads {
        let left = deadline.saturating_duration_since(std::time::Instant::now());
        match rx.recv_timeout(left) {
            Ok((_, Ok(None))) => done += 1,
            Ok((_, Ok(Some(problem)))) => return Outcome::violation("C43:concurrent-read", problem),
            Ok((t, Err(msg))) => return Outcome::violation("C43:concurrent-panic", format!("thread {t} panicked: {msg}")),
            Err(_) => {
                let stuck: Vec<String> = (0..nthreads)
                    .filter_map(|t| {
                        let p = progress[t].load(std::sync::atomic::Ordering::Relaxed);
                        (p != usize::MAX).then(|| format!("thread {t} in step {p} ({:?})", c.threads[t].get(p)))
                    })
                    .collect();
                return Outcome::violation("C43:concurrent-blocks-forever", format!("threads did not finish within {:?}: {}", BLOCK_WAIT * 2, stuck.join("; ")));
            }
        }
    }
    for j in joins {
        let _ = j.join();
    }
    // Final audit.
    let finals: Vec<View> = base.iter().map(view).collect();
    let mut candidates: BTreeMap<u8, BTreeSet<(u8, Option<u16>)>> = BTreeMap::new();
    let mut tokens: BTreeSet<Option<String>> = BTreeSet::new();
    for c0 in &initial {
        for (k, v) in c0 {
            candidates.entry(*k).or_default().insert((v.url, v.quic));
            tokens.insert(v.token.clone());
        }
    }
    let mut any_remove = false;
    let mut must_have: Vec<BTreeSet<u8>> = initial.iter().map(|c| c.keys().copied().collect()).collect();
    for ops in &c.threads {
        for op in ops {
            match op {
                TOp::Insert { s, key, cfg } => {
                    let mc = cfg.model();
                    candidates.entry(*key).or_default().insert((mc.url, mc.quic));
                    tokens.insert(mc.token);
                    must_have[sid(*s)].insert(*key);
                }
                TOp::Remove { .. } => any_remove = true,
                TOp::Token { token, .. } => {
                    tokens.insert(Some(TOKENS[*token as usize % 3].to_string()));
                }
                TOp::Extend { dst, src } => {
                    let add: Vec<u8> = initial[sid(*src)].keys().copied().collect();
                    must_have[sid(*dst)].extend(add);
                }
                _ => {}
            }
        }
    }
    for (s, v) in finals.iter().enumerate() {
        if let Some(p) = &v.inconsistent {
            return Outcome::violation("C43:accessors-disagree", format!("after all threads finished, storage {s}: {p}"));
        }
        for (k, cfg) in &v.contents {
            let ok = *k < 4 && candidates.get(k).is_some_and(|c| c.contains(&(cfg.url, cfg.quic))) && tokens.contains(&cfg.token);
            check!(ok, "C43:concurrent-foreign-value", "storage {s}: key {k} maps to {cfg:?}, which no operation could have stored");
        }
        if !any_remove {
            for k in &must_have[s] {
                check!(v.contents.contains_key(k), "C43:concurrent-lost-key", "storage {s}: key {k} was present or inserted and never removed, but is missing at the end: {:?}", v.contents);
            }
        }
    }
    let sharing = c.threads.iter().flatten().any(|o| matches!(o, TOp::ExtendTempClone { .. } | TOp::EqShared { .. }) || matches!(o, TOp::Extend { dst, src } if sid(*dst) == sid(*src)));
    let mut classes = vec![];
    if sharing {
        classes.push("threads-shared-two-arg");
    }
    if !any_remove {
        classes.push("threads-no-remove(lost-key-check)");
    }
    if c.threads.iter().flatten().any(|o| matches!(o, TOp::Extend { dst, src } if sid(*dst) != sid(*src))) {
        classes.push("threads-cross-extend");
    }
    Outcome::pass_with(sharing, classes)
}

// ---------------------------------------------------------------------------------------------
// `==` / extend on clones sharing storage while other threads write (fixed schedules of work,
// free-running threads)

#[derive(Debug, Clone, Serialize, Deserialize)]
struct StressCase {
    comparers: u8,
    extenders: u8,
    writers: u8,
    iterations: u32,
}

fn stress_cases(iterations: u32) -> Vec<StressCase> {
    [(1u8, 0u8, 1u8), (2, 0, 1), (1, 0, 2), (1, 1, 1), (0, 2, 1), (2, 1, 2)]
        .into_iter()
        .map(|(comparers, extenders, writers)| StressCase { comparers, extenders, writers, iterations })
        .collect()
}

fn stress_case(c: &StressCase) -> Outcome {
    use std::sync::atomic::{AtomicU64, Ordering};
    let m = RelayMap::from(url(0));
    let n = (c.comparers + c.extenders + c.writers) as usize;
    let barrier = Arc::new(Barrier::new(n));
    let progress: Arc<Vec<AtomicU64>> = Arc::new((0..n).map(|_| AtomicU64::new(0)).collect());
    let (tx, rx) = mpsc::channel::<(usize, Result<Option<String>, String>)>();
    let mut roles = vec![];
    for t in 0..n {
        let role = if t < c.comparers as usize { 0 } else if t < (c.comparers + c.extenders) as usize { 1 } else { 2 };
        roles.push(["m == m.clone()", "m.extend(&m.clone())", "insert/remove"][role]);
        let (m, barrier, progress, tx, iterations) = (m.clone(), barrier.clone(), progress.clone(), tx.clone(), c.iterations as u64);
        std::thread::Builder::new()
            .name(format!("c43-s{t}"))
            .spawn(move || {
                barrier.wait();
                let res = std::panic::catch_unwind(std::panic::AssertUnwindSafe(|| {
                    let mut problem = None;
                    for i in 0..iterations {
                        match role {
                            0 => {
                                #[allow(clippy::eq_op)]
                                if !(m == m.clone()) {
                                    problem = Some(format!("iteration {i}: a map compared unequal to its own clone"));
                                }
                            }
                            1 => m.extend(&m.clone()),
                            _ => {
                                let k = 1 + (i % 3) as u8;
                                if i % 2 == 0 {
                                    m.insert(url(k), Arc::new(RelayConfig::from(url(k))));
                                } else {
                                    m.remove(&url(k));
                                }
                            }
                        }
                        progress[t].store(i + 1, Ordering::Relaxed);
                    }
                    problem
                }));
                let _ = tx.send((t, res.map_err(|p| p.downcast_ref::<&str>().map(|s| s.to_string()).or_else(|| p.downcast_ref::<String>().cloned()).unwrap_or_default())));
            })
            .expect("spawn");
    }
    drop(tx);
    let deadline = std::time::Instant::now() + BLOCK_WAIT * 2;
    let mut done = 0;
    while done < n {
        match rx.recv_timeout(deadline.saturating_duration_since(std::time::Instant::now())) {
            Ok((_, Ok(None))) => done += 1,
            Ok((t, Ok(Some(p)))) => return Outcome::violation("C43:eq-shared-storage", format!("thread {t} ({}): {p}", roles[t])),
            Ok((t, Err(msg))) => return Outcome::violation("C43:concurrent-panic", format!("thread {t} ({}) panicked: {msg}", roles[t])),
            Err(_) => {
                let stuck: Vec<String> = (0..n).filter(|t| progress[*t].load(Ordering::Relaxed) < c.iterations as u64).map(|t| format!("thread {t} ({}) after {} of {} iterations", roles[t], progress[t].load(Ordering::Relaxed), c.iterations)).collect();
                return Outcome::violation("C43:blocks-forever-shared-storage-concurrent", format!("no progress for {:?}: {}", BLOCK_WAIT * 2, stuck.join("; ")));
            }
        }
    }
    check!(m.contains(&url(0)) && m.len() <= 4, "C43:contents", "after the stress the map holds {:?}", view(&m).contents);
    Outcome::pass_with(true, vec!["shared-storage-under-concurrent-writes"])
}

pub fn run(ctx: &Ctx) {
    ctx.rule("history: 1..40 operations over 4 URLs and a pool of up to 8 handles (constructors: empty, from URLs/configs/Arc configs with duplicate keys, try_from_iter incl. an invalid string, From<RelayUrl>/From<RelayConfig>; clone, drop, insert incl. key != config.url, remove, extend, with_auth_token, ==, get/contains/len/is_empty/urls/relays/Display) where the second argument of extend/== is another handle, the same handle, or a temporary clone; after every operation the return value and the contents seen through every handle are compared with a reference model; non-trivial = a two-argument operation whose arguments share storage");
    ctx.rule("shared_storage_stress: six fixed thread mixes (threads doing m == m.clone() or m.extend(&m.clone()) against threads inserting/removing on the same storage), 40k iterations each; all must finish and a map must always equal its clone");
    ctx.rule("threads: 2..8 threads run 1..25 operations each on clones of 2..3 shared maps from a barrier; non-trivial = contains extend/== on clones sharing storage");
    ctx.assume("extend is a union in which the argument's entries replace the receiver's (the convention of Extend for maps)");
    ctx.assume("which of several entries with the same URL FromIterator keeps is not specified: any of the given ones is accepted");
    ctx.assume("an operation that has not returned after 10 s (40 s when its arguments do not share storage) on maps no other thread touches is taken as blocked forever; operations take microseconds");
    ctx.assume("threads part: == between maps with different storage is issued with a fixed argument order (read-lock order inversion with queued writers is outside the statement's sequence quantifier)");
    let k = ctx.tier.pick(1, 10);
    ctx.explore("history", ExploreOpts::new(30_000 * k).shrink(20), strategy, run_case);
    ctx.enumerate("shared_storage_stress", stress_cases(ctx.tier.pick(40_000, 400_000)), stress_case);
    ctx.explore("threads", ExploreOpts::new(400 * k).workers(4).shrink(8), tstrategy, run_threads);
}
