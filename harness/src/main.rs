//! `vcheck <ID> [--tier quick|thorough] [--seed N] [--replay FILE] [--strict]`
#![allow(clippy::type_complexity)]

use iroh_verif::{
    engine::{self, Ctx, Tier},
    props,
};

fn main() {
    let args: Vec<String> = std::env::args().skip(1).collect();
    if args.is_empty() {
        eprintln!("usage: vcheck <ID>|list [--tier quick|thorough] [--seed N] [--replay FILE] [--strict]");
        std::process::exit(2);
    }
    if args[0] == "list" {
        for p in props::REGISTRY {
            println!("{} {}", p.id, p.level);
        }
        return;
    }
    let id = args[0].to_uppercase();
    let mut tier = match std::env::var("VERIF_TIER").ok().as_deref() {
        Some("thorough") => Tier::Thorough,
        _ => Tier::Quick,
    };
    let mut seed: u64 = std::env::var("VERIF_SEED")
        .ok()
        .and_then(|s| s.trim().parse::<i128>().ok())
        .map(|v| v as u64)
        .unwrap_or(1);
    let mut replay = None;
    let mut strict = false;
    let mut i = 1;
    while i < args.len() {
        match args[i].as_str() {
            "--tier" => {
                i += 1;
                tier = match args.get(i).map(|s| s.as_str()) {
                    Some("quick") => Tier::Quick,
                    Some("thorough") => Tier::Thorough,
                    other => {
                        eprintln!("bad tier {other:?}");
                        std::process::exit(2)
                    }
                };
            }
            "--seed" => {
                i += 1;
                seed = args
                    .get(i)
                    .and_then(|s| s.parse::<i128>().ok())
                    .map(|v| v as u64)
                    .unwrap_or_else(|| {
                        eprintln!("bad seed");
                        std::process::exit(2)
                    });
            }
            "--replay" => {
                i += 1;
                replay = args.get(i).map(std::path::PathBuf::from);
            }
            "--strict" => strict = true,
            other => {
                eprintln!("unknown argument {other}");
                std::process::exit(2);
            }
        }
        i += 1;
    }
    let Some(p) = props::REGISTRY.iter().find(|p| p.id == id) else {
        eprintln!("unknown property {id}");
        std::process::exit(2);
    };
    engine::install_quiet_panic_hook();
    let budget = match tier {
        Tier::Quick => p.watchdog_quick_s,
        // thorough tiers may include a cold build of the fuzz targets
        Tier::Thorough => p.watchdog_thorough_s.max(4 * 3600),
    };
    engine::watchdog(budget, p.id);
    let ctx = Ctx::new(p.id, p.level, tier, seed, replay, strict);
    (p.run)(&ctx);
    let code = ctx.finish();
    // background runtimes/threads may still be alive; exit explicitly
    std::process::exit(code);
}
