//! iroh-verif: property-based testing and fuzzing harness for the iroh properties.
#![allow(clippy::type_complexity)]

pub mod engine;
pub mod props;
pub mod support;
