//! Controlled schedules over OS threads and `iroh_base::verif_hooks` pause points.
//!
//! Every actor is an OS thread running a closure.  An actor stops before its first
//! instruction and at every pause point whose name the run was told to stop at; the driver
//! lets exactly one actor continue per step and waits until that actor has reached its next
//! stop, has finished, or is *blocked* — asleep in the kernel (state `S` in
//! `/proc/self/task/<tid>/stat`) without having reached a stop, which for the lock-based code
//! driven here means it waits for a lock held by a stopped actor.  The blocked test is a causal
//! observation, not a timeout: a runnable but descheduled thread is in state `R`.  A wrong
//! "blocked" verdict only makes two actors overlap for a moment, which is still a real
//! execution of the real code; oracles must therefore depend only on per-actor program order
//! and observed values, never on the driver's idea of the interleaving.
//!
//! The hook handler is process-global but dispatches on a thread-local, so several runs can
//! be active on different worker threads at the same time.

use std::{
    cell::RefCell,
    sync::{Arc, Condvar, Mutex, Once},
    thread::JoinHandle,
    time::{Duration, Instant},
};

#[derive(Debug, Clone, PartialEq, Eq)]
pub enum Status {
    /// stopped before the first instruction or at the named pause point
    Stopped(String),
    /// released and neither stopped again nor finished
    Running,
    Done,
}

#[derive(Debug, Clone, Copy, PartialEq, Eq)]
pub enum StepResult {
    /// the actor reached its next stop
    Stopped,
    Done,
    /// the actor sleeps in the kernel without having reached a stop (waits for a lock)
    Blocked,
    /// the actor was not stopped, so there was nothing to release
    NotEnabled,
}

struct Actor {
    status: Status,
    granted: bool,
    tid: Option<u32>,
    panicked: Option<String>,
}

struct Inner {
    actors: Vec<Actor>,
    release_all: bool,
}

pub struct Controller {
    inner: Mutex<Inner>,
    cv: Condvar,
    stop_at: Vec<String>,
}

thread_local! {
    static CURRENT: RefCell<Option<(Arc<Controller>, usize)>> = const { RefCell::new(None) };
}

static INSTALL: Once = Once::new();

/// Installs the process-global pause point handler (idempotent).
pub fn install_handler() {
    INSTALL.call_once(|| {
        iroh_base::verif_hooks::set_sync_handler(Some(Arc::new(|name: &str, _detail: &str| {
            let cur = CURRENT.with(|c| c.borrow().clone());
            if let Some((ctl, idx)) = cur {
                if ctl.stop_at.iter().any(|p| p == name) {
                    ctl.stop(idx, name);
                }
            } else {
                free_delay();
            }
        })));
    });
}

/// A stop placed by the harness itself (between two operations of an actor).  No-op on
/// threads that are not actors of a controlled run.
pub fn harness_point(name: &str) {
    let cur = CURRENT.with(|c| c.borrow().clone());
    if let Some((ctl, idx)) = cur {
        ctl.stop(idx, name);
    }
}

thread_local! {
    /// Free-running mode: spin counts consumed one per pause point hit on this thread.
    static FREE_DELAYS: RefCell<Option<std::collections::VecDeque<u32>>> = const { RefCell::new(None) };
}

/// For free-running (stress) threads: at the next pause points hit by this thread, spin for
/// the given number of iterations (`u32::MAX` = yield the time slice instead).
pub fn set_free_delays(delays: Option<Vec<u32>>) {
    install_handler();
    FREE_DELAYS.with(|d| *d.borrow_mut() = delays.map(|v| v.into_iter().collect()));
}

fn free_delay() {
    let n = FREE_DELAYS.with(|d| d.borrow_mut().as_mut().and_then(|q| q.pop_front()));
    match n {
        None | Some(0) => {}
        Some(u32::MAX) => std::thread::yield_now(),
        Some(n) => {
            for _ in 0..n {
                std::hint::spin_loop();
            }
        }
    }
}

fn own_tid() -> Option<u32> {
    let link = std::fs::read_link("/proc/thread-self").ok()?;
    link.file_name()?.to_str()?.parse().ok()
}

/// Kernel scheduling state letter of a thread of this process.
fn thread_state(tid: u32) -> Option<char> {
    let s = std::fs::read_to_string(format!("/proc/self/task/{tid}/stat")).ok()?;
    let rest = &s[s.rfind(')')? + 1..];
    rest.trim_start().chars().next()
}

fn proc_readable() -> bool {
    own_tid().and_then(thread_state).is_some()
}

impl Controller {
    fn stop(&self, idx: usize, name: &str) {
        let mut g = self.inner.lock().unwrap();
        if g.release_all {
            return;
        }
        g.actors[idx].status = Status::Stopped(name.to_string());
        self.cv.notify_all();
        while !g.actors[idx].granted && !g.release_all {
            g = self.cv.wait(g).unwrap();
        }
        g.actors[idx].granted = false;
        g.actors[idx].status = Status::Running;
    }
}

pub struct Run {
    ctl: Arc<Controller>,
    handles: Vec<Option<JoinHandle<()>>>,
}

pub type ActorFn = Box<dyn FnOnce() + Send + 'static>;

impl Run {
    /// Spawns the actors; each is stopped at "start" when this returns.
    pub fn start(actors: Vec<ActorFn>, stop_at: &[&str]) -> Run {
        install_handler();
        let n = actors.len();
        let ctl = Arc::new(Controller {
            inner: Mutex::new(Inner {
                actors: (0..n)
                    .map(|_| Actor { status: Status::Running, granted: false, tid: None, panicked: None })
                    .collect(),
                release_all: false,
            }),
            cv: Condvar::new(),
            stop_at: stop_at.iter().map(|s| s.to_string()).collect(),
        });
        let mut handles = vec![];
        for (idx, f) in actors.into_iter().enumerate() {
            let ctl2 = ctl.clone();
            let h = std::thread::Builder::new()
                .name(format!("actor-{idx}"))
                .spawn(move || {
                    {
                        let mut g = ctl2.inner.lock().unwrap();
                        g.actors[idx].tid = own_tid();
                    }
                    CURRENT.with(|c| *c.borrow_mut() = Some((ctl2.clone(), idx)));
                    ctl2.stop(idx, "start");
                    let res = std::panic::catch_unwind(std::panic::AssertUnwindSafe(f));
                    CURRENT.with(|c| *c.borrow_mut() = None);
                    let mut g = ctl2.inner.lock().unwrap();
                    if let Err(p) = res {
                        let msg = p
                            .downcast_ref::<&str>()
                            .map(|s| s.to_string())
                            .or_else(|| p.downcast_ref::<String>().cloned())
                            .unwrap_or_else(|| "panic".into());
                        g.actors[idx].panicked = Some(msg);
                    }
                    g.actors[idx].status = Status::Done;
                    ctl2.cv.notify_all();
                })
                .expect("spawn actor");
            handles.push(Some(h));
        }
        let run = Run { ctl, handles };
        // wait until every actor is stopped at "start"
        let mut g = run.ctl.inner.lock().unwrap();
        while !g.actors.iter().all(|a| matches!(a.status, Status::Stopped(_))) {
            g = run.ctl.cv.wait(g).unwrap();
        }
        drop(g);
        run
    }

    pub fn len(&self) -> usize {
        self.handles.len()
    }

    pub fn status(&self, idx: usize) -> Status {
        self.ctl.inner.lock().unwrap().actors[idx].status.clone()
    }

    /// Actors that are stopped (and can be released by `step`).
    pub fn enabled(&self) -> Vec<usize> {
        let g = self.ctl.inner.lock().unwrap();
        (0..g.actors.len()).filter(|i| matches!(g.actors[*i].status, Status::Stopped(_))).collect()
    }

    pub fn all_done(&self) -> bool {
        let g = self.ctl.inner.lock().unwrap();
        g.actors.iter().all(|a| a.status == Status::Done)
    }

    /// Waits until no actor is running freely: each is stopped, done, or blocked in the
    /// kernel.  Returns the indices of the blocked ones.
    pub fn settle(&self) -> Vec<usize> {
        let t0 = Instant::now();
        let mut asleep_polls = 0u32;
        loop {
            let running: Vec<(usize, Option<u32>)> = {
                let g = self.ctl.inner.lock().unwrap();
                (0..g.actors.len())
                    .filter(|i| g.actors[*i].status == Status::Running)
                    .map(|i| (i, g.actors[i].tid))
                    .collect()
            };
            if running.is_empty() {
                return vec![];
            }
            // lock not held here: a woken actor can take it
            let all_asleep = running.iter().all(|(_, tid)| match tid.and_then(thread_state) {
                Some('S') | Some('D') => true,
                Some(_) => false,
                // the thread may have finished and exited since the status snapshot
                None => false,
            });
            if !all_asleep {
                let g = self.ctl.inner.lock().unwrap();
                for (i, tid) in &running {
                    if g.actors[*i].status == Status::Running && (tid.is_none() || !proc_readable()) {
                        eprintln!("sched: cannot read thread state from /proc; inconclusive");
                        std::process::exit(2)
                    }
                }
            }
            if all_asleep {
                asleep_polls += 1;
                if asleep_polls >= 4 {
                    // re-check under the lock that none of them moved meanwhile
                    let g = self.ctl.inner.lock().unwrap();
                    if running.iter().all(|(i, _)| g.actors[*i].status == Status::Running) {
                        return running.iter().map(|(i, _)| *i).collect();
                    }
                    asleep_polls = 0;
                }
                std::thread::sleep(Duration::from_micros(150));
            } else {
                asleep_polls = 0;
                std::thread::yield_now();
            }
            if t0.elapsed() > Duration::from_secs(120) {
                eprintln!("sched: an actor kept running for 120 s without reaching a stop; inconclusive");
                std::process::exit(2);
            }
        }
    }

    /// Releases actor `idx` from its stop and waits until the system has settled.
    pub fn step(&self, idx: usize) -> StepResult {
        {
            let mut g = self.ctl.inner.lock().unwrap();
            if !matches!(g.actors[idx].status, Status::Stopped(_)) {
                return StepResult::NotEnabled;
            }
            g.actors[idx].granted = true;
            g.actors[idx].status = Status::Running;
            self.ctl.cv.notify_all();
        }
        let blocked = self.settle();
        if blocked.contains(&idx) {
            return StepResult::Blocked;
        }
        match self.status(idx) {
            Status::Done => StepResult::Done,
            Status::Stopped(_) => StepResult::Stopped,
            Status::Running => StepResult::Blocked,
        }
    }

    /// Releases everything, joins all actors and returns the panic messages, if any.
    pub fn finish(mut self) -> Vec<(usize, String)> {
        {
            let mut g = self.ctl.inner.lock().unwrap();
            g.release_all = true;
            self.ctl.cv.notify_all();
        }
        let t0 = Instant::now();
        loop {
            let g = self.ctl.inner.lock().unwrap();
            if g.actors.iter().all(|a| a.status == Status::Done) {
                break;
            }
            let (_g, _) = self.ctl.cv.wait_timeout(g, Duration::from_millis(50)).unwrap();
            if t0.elapsed() > Duration::from_secs(120) {
                eprintln!("sched: actors did not finish within 120 s after release (deadlock?); inconclusive");
                std::process::exit(2);
            }
        }
        for h in self.handles.iter_mut() {
            if let Some(h) = h.take() {
                let _ = h.join();
            }
        }
        let g = self.ctl.inner.lock().unwrap();
        g.actors.iter().enumerate().filter_map(|(i, a)| a.panicked.clone().map(|m| (i, m))).collect()
    }
}

impl Drop for Run {
    fn drop(&mut self) {
        // never leave threads behind a case
        {
            let mut g = self.ctl.inner.lock().unwrap_or_else(|e| e.into_inner());
            g.release_all = true;
            self.ctl.cv.notify_all();
        }
        for h in self.handles.iter_mut() {
            if let Some(h) = h.take() {
                let _ = h.join();
            }
        }
    }
}

/// All distinct orderings of a multiset of actor indices: `counts[i]` steps of actor `i`.
pub fn interleavings(counts: &[usize]) -> Vec<Vec<u8>> {
    fn rec(counts: &mut [usize], cur: &mut Vec<u8>, out: &mut Vec<Vec<u8>>) {
        if counts.iter().all(|c| *c == 0) {
            out.push(cur.clone());
            return;
        }
        for i in 0..counts.len() {
            if counts[i] > 0 {
                counts[i] -= 1;
                cur.push(i as u8);
                rec(counts, cur, out);
                cur.pop();
                counts[i] += 1;
            }
        }
    }
    let mut out = vec![];
    rec(&mut counts.to_vec(), &mut vec![], &mut out);
    out
}
