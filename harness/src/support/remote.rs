//! Helpers shared by the per-remote state checks (C21–C24): synthetic transport addresses.

use std::net::{Ipv4Addr, Ipv6Addr, SocketAddr, SocketAddrV4, SocketAddrV6};

use iroh::verif_remote::Addr;
use iroh_base::{CustomAddr, EndpointId, RelayUrl, SecretKey};

/// Kind of a synthetic address.
#[derive(Debug, Clone, Copy, PartialEq, Eq, Hash, serde::Serialize, serde::Deserialize)]
pub enum Kind {
    Relay,
    V4,
    V6,
    Custom,
}

impl Kind {
    /// Monotone mapping of a selector byte: relay is rare unless asked for.
    pub fn non_relay(sel: u8) -> Kind {
        match sel % 8 {
            0..=3 => Kind::V4,
            4..=6 => Kind::V6,
            _ => Kind::Custom,
        }
    }
}

pub fn endpoint_id(n: u8) -> EndpointId {
    let mut b = [0u8; 32];
    b[0] = n;
    b[31] = 7;
    SecretKey::from_bytes(&b).public()
}

pub fn relay_url(i: usize) -> RelayUrl {
    format!("https://relay{i}.verif.invalid")
        .parse::<RelayUrl>()
        .expect("relay url")
}

/// A transport address of the given kind, distinct for distinct `(kind, i)`.
pub fn addr(kind: Kind, i: usize, remote: EndpointId) -> Addr {
    let port = 1000 + (i % 60000) as u16;
    match kind {
        Kind::Relay => Addr::Relay(relay_url(i), remote),
        Kind::V4 => Addr::Ip(SocketAddr::V4(SocketAddrV4::new(
            Ipv4Addr::new(10, 0, (i / 60000) as u8, 1),
            port,
        ))),
        Kind::V6 => Addr::Ip(SocketAddr::V6(SocketAddrV6::new(
            Ipv6Addr::new(0xfd00, 0, 0, 0, 0, 0, (i / 60000) as u16, 1),
            port,
            0,
            0,
        ))),
        Kind::Custom => Addr::Custom(CustomAddr::from_parts(
            7 + (i % 2) as u64,
            &(i as u32).to_be_bytes(),
        )),
    }
}

pub fn is_relay(a: &Addr) -> bool {
    matches!(a, Addr::Relay(..))
}
