//! In-memory relay harness: a `BytesStreamSink` over channels with a fault plan and scripted
//! TLS keying material, plus an independent implementation of the relay wire format.

use std::{
    pin::Pin,
    sync::{
        Arc, Mutex,
        atomic::{AtomicBool, AtomicU64, Ordering},
    },
    task::{Context, Poll},
};

use bytes::Bytes;
use iroh_base::{PublicKey, SecretKey};
use iroh_relay::{
    ExportKeyingMaterial, KeyCache,
    http::ProtocolVersion,
    server::{
        Metrics, OnDisconnectGuard,
        client::Config,
        clients::Clients,
        streams::RelayedStream,
    },
};
use n0_error::AnyError;
use n0_future::{Sink, Stream};
use serde::{Deserialize, Serialize};
use tokio::sync::mpsc;

use super::gens::Payload;

// ---------------------------------------------------------------------------------------
// wire format, written from the protocol description (independent of iroh-relay's codec)
// ---------------------------------------------------------------------------------------

pub const T_SERVER_CHALLENGE: u8 = 0;
pub const T_CLIENT_AUTH: u8 = 1;
pub const T_SERVER_CONFIRMS: u8 = 2;
pub const T_SERVER_DENIES: u8 = 3;
pub const T_C2R_DATAGRAM: u8 = 4;
pub const T_C2R_BATCH: u8 = 5;
pub const T_R2C_DATAGRAM: u8 = 6;
pub const T_R2C_BATCH: u8 = 7;
pub const T_ENDPOINT_GONE: u8 = 8;
pub const T_PING: u8 = 9;
pub const T_PONG: u8 = 10;
pub const T_HEALTH: u8 = 11;
pub const T_RESTARTING: u8 = 12;
pub const T_STATUS: u8 = 13;

/// Decoded datagram batch at the semantic level (ecn bits, optional segment size, contents).
#[derive(Debug, Clone, PartialEq, Eq, Hash, Serialize, Deserialize)]
pub struct Dgram {
    pub ecn: u8,
    pub seg: Option<u16>,
    pub contents: Payload,
}

/// A datagram as observed on the wire (contents kept as bytes).
#[derive(Debug, Clone, PartialEq, Eq)]
pub struct WireDgram {
    /// ecn codepoint as the 2-bit value, 0 = none
    pub ecn: u8,
    pub seg: Option<u16>,
    pub contents: Bytes,
}

impl Dgram {
    pub fn wire(&self) -> WireDgram {
        WireDgram {
            ecn: self.ecn & 3,
            // a zero segment size on the wire decodes as "no segment size"
            seg: self.seg.filter(|s| *s != 0),
            contents: Bytes::from(self.contents.bytes()),
        }
    }
}

/// What a client can read from the relay.
#[derive(Debug, Clone, PartialEq, Eq)]
pub enum FromRelay {
    Datagrams { src: [u8; 32], d: WireDgram },
    EndpointGone([u8; 32]),
    Ping([u8; 8]),
    Pong([u8; 8]),
    Health(String),
    Restarting(u32, u32),
    Status(u8),
    /// handshake frames
    Challenge([u8; 16]),
    Confirms,
    Denies(String),
    Undecodable(Vec<u8>),
}

pub fn encode_c2r_datagram(dst: &[u8; 32], d: &Dgram, force_batch_flag: Option<bool>) -> Bytes {
    let batch = force_batch_flag.unwrap_or(d.seg.is_some());
    let mut v = Vec::with_capacity(36 + d.contents.len);
    v.push(if batch { T_C2R_BATCH } else { T_C2R_DATAGRAM });
    v.extend_from_slice(dst);
    v.push(d.ecn);
    if batch {
        v.extend_from_slice(&d.seg.unwrap_or(0).to_be_bytes());
    }
    v.extend_from_slice(&d.contents.bytes());
    Bytes::from(v)
}

pub fn encode_ping(data: [u8; 8]) -> Bytes {
    let mut v = vec![T_PING];
    v.extend_from_slice(&data);
    Bytes::from(v)
}

pub fn encode_pong(data: [u8; 8]) -> Bytes {
    let mut v = vec![T_PONG];
    v.extend_from_slice(&data);
    Bytes::from(v)
}

fn read_varint(b: &[u8]) -> Option<(u64, usize)> {
    let first = *b.first()?;
    let len = 1usize << (first >> 6);
    if b.len() < len {
        return None;
    }
    let mut v = (first & 0x3f) as u64;
    for x in &b[1..len] {
        v = (v << 8) | *x as u64;
    }
    Some((v, len))
}

fn postcard_len(b: &[u8]) -> Option<(usize, usize)> {
    // LEB128
    let mut v: usize = 0;
    for (i, x) in b.iter().enumerate().take(5) {
        v |= ((x & 0x7f) as usize) << (7 * i);
        if x & 0x80 == 0 {
            return Some((v, i + 1));
        }
    }
    None
}

pub fn decode_from_relay(frame: &[u8]) -> FromRelay {
    let und = || FromRelay::Undecodable(frame.to_vec());
    let Some((tag, n)) = read_varint(frame) else {
        return und();
    };
    let body = &frame[n..];
    let arr32 = |b: &[u8]| -> Option<[u8; 32]> { b.get(..32)?.try_into().ok() };
    match tag as u8 {
        _ if tag > 255 => und(),
        T_R2C_DATAGRAM | T_R2C_BATCH => {
            let batch = tag as u8 == T_R2C_BATCH;
            let Some(src) = arr32(body) else { return und() };
            let rest = &body[32..];
            let hdr = if batch { 3 } else { 1 };
            if rest.len() < hdr {
                return und();
            }
            let ecn = rest[0] & 3;
            let seg = if batch {
                Some(u16::from_be_bytes([rest[1], rest[2]])).filter(|s| *s != 0)
            } else {
                None
            };
            FromRelay::Datagrams {
                src,
                d: WireDgram {
                    ecn,
                    seg,
                    contents: Bytes::copy_from_slice(&rest[hdr..]),
                },
            }
        }
        T_ENDPOINT_GONE if body.len() == 32 => FromRelay::EndpointGone(arr32(body).unwrap()),
        T_PING if body.len() == 8 => FromRelay::Ping(body.try_into().unwrap()),
        T_PONG if body.len() == 8 => FromRelay::Pong(body.try_into().unwrap()),
        T_HEALTH => match std::str::from_utf8(body) {
            Ok(s) => FromRelay::Health(s.to_string()),
            Err(_) => und(),
        },
        T_RESTARTING if body.len() == 8 => FromRelay::Restarting(
            u32::from_be_bytes(body[..4].try_into().unwrap()),
            u32::from_be_bytes(body[4..].try_into().unwrap()),
        ),
        T_STATUS if body.len() == 1 => FromRelay::Status(body[0]),
        T_SERVER_CHALLENGE if body.len() == 16 => FromRelay::Challenge(body.try_into().unwrap()),
        T_SERVER_CONFIRMS if body.is_empty() => FromRelay::Confirms,
        T_SERVER_DENIES => match postcard_len(body) {
            Some((len, n)) if body.len() == n + len => match std::str::from_utf8(&body[n..]) {
                Ok(s) => FromRelay::Denies(s.to_string()),
                Err(_) => und(),
            },
            _ => und(),
        },
        _ => und(),
    }
}

pub const DOMAIN_SEP_CHALLENGE: &str = "iroh-relay handshake v1 challenge signature";
pub const DOMAIN_SEP_TLS_EXPORT_LABEL: &[u8] = b"iroh-relay handshake v1";

/// The bytes a client signs for a server challenge.
pub fn challenge_message(challenge: &[u8; 16]) -> [u8; 32] {
    blake3::derive_key(DOMAIN_SEP_CHALLENGE, challenge)
}

/// `ClientAuth` frame: tag, 32 key bytes, postcard byte string of the 64-byte signature.
pub fn encode_client_auth(public_key: &[u8; 32], signature: &[u8; 64]) -> Bytes {
    let mut v = vec![T_CLIENT_AUTH];
    v.extend_from_slice(public_key);
    v.push(64);
    v.extend_from_slice(signature);
    Bytes::from(v)
}

/// The `KeyMaterialClientAuth` header value (base64url, no padding, of the postcard encoding).
pub fn encode_km_header(public_key: &[u8; 32], signature: &[u8; 64], suffix: &[u8; 16]) -> String {
    let mut v = Vec::new();
    v.extend_from_slice(public_key);
    v.push(64);
    v.extend_from_slice(signature);
    v.extend_from_slice(suffix);
    data_encoding::BASE64URL_NOPAD.encode(&v)
}

/// Scripted TLS exporter: a keyed hash of (label, context) under a session secret.  Two ends
/// "share a TLS session" iff they hold the same secret.
pub fn export_km(secret: &[u8; 32], label: &[u8], context: Option<&[u8]>) -> [u8; 32] {
    let mut h = blake3::Hasher::new_keyed(secret);
    h.update(&(label.len() as u64).to_le_bytes());
    h.update(label);
    match context {
        Some(c) => {
            h.update(&[1]);
            h.update(&(c.len() as u64).to_le_bytes());
            h.update(c);
        }
        None => {
            h.update(&[0]);
        }
    }
    *h.finalize().as_bytes()
}

// ---------------------------------------------------------------------------------------
// MemIo
// ---------------------------------------------------------------------------------------

#[derive(Debug, Clone, Copy, PartialEq, Eq, Hash, Serialize, Deserialize)]
pub enum FaultKind {
    ReadErr,
    ReadEof,
    SendErr,
    FlushErr,
}

/// Fail the `at`-th (0-based) operation of the given class.
#[derive(Debug, Clone, Copy, PartialEq, Eq, Hash, Serialize, Deserialize)]
pub struct Fault {
    pub kind: FaultKind,
    pub at: u32,
}

#[derive(Debug, Default)]
pub struct IoCounters {
    pub reads: AtomicU64,
    pub sends: AtomicU64,
    pub flushes: AtomicU64,
    pub dropped: AtomicBool,
}

/// Server side of an in-memory connection.
#[derive(Debug)]
pub struct MemIo {
    rx: mpsc::UnboundedReceiver<Result<Bytes, String>>,
    tx: mpsc::UnboundedSender<Bytes>,
    km_secret: Option<[u8; 32]>,
    fault: Option<Fault>,
    pub counters: Arc<IoCounters>,
    dead: bool,
    /// when set, poll_ready stays pending (a stalled client socket)
    stalled: Arc<AtomicBool>,
    /// when set, poll_flush stays pending: frames are accepted by the sink but not "on the wire"
    flush_stalled: Arc<AtomicBool>,
    flush_waker: Arc<Mutex<Option<std::task::Waker>>>,
    /// byte-level back-pressure: `usize::MAX` = unlimited; otherwise the number of frames the
    /// sink still accepts before it stays not-ready (a client that does not read)
    credits: Arc<std::sync::atomic::AtomicUsize>,
}

impl Drop for MemIo {
    fn drop(&mut self) {
        self.counters.dropped.store(true, Ordering::SeqCst);
    }
}

/// Client side of an in-memory connection.
#[derive(Debug)]
pub struct ClientEnd {
    pub tx: Option<mpsc::UnboundedSender<Result<Bytes, String>>>,
    pub rx: mpsc::UnboundedReceiver<Bytes>,
    pub counters: Arc<IoCounters>,
    pub stalled: Arc<AtomicBool>,
    pub flush_stalled: Arc<AtomicBool>,
    pub flush_waker: Arc<Mutex<Option<std::task::Waker>>>,
    pub credits: Arc<std::sync::atomic::AtomicUsize>,
}

pub fn mem_pair(km_secret: Option<[u8; 32]>, fault: Option<Fault>) -> (MemIo, ClientEnd) {
    let (ctx, srx) = mpsc::unbounded_channel();
    let (stx, crx) = mpsc::unbounded_channel();
    let counters = Arc::new(IoCounters::default());
    let stalled = Arc::new(AtomicBool::new(false));
    let flush_stalled = Arc::new(AtomicBool::new(false));
    let flush_waker = Arc::new(Mutex::new(None));
    let credits = Arc::new(std::sync::atomic::AtomicUsize::new(usize::MAX));
    (
        MemIo {
            rx: srx,
            tx: stx,
            km_secret,
            fault,
            counters: counters.clone(),
            dead: false,
            stalled: stalled.clone(),
            flush_stalled: flush_stalled.clone(),
            flush_waker: flush_waker.clone(),
            credits: credits.clone(),
        },
        ClientEnd {
            tx: Some(ctx),
            rx: crx,
            counters,
            stalled,
            flush_stalled,
            flush_waker,
            credits,
        },
    )
}

impl ClientEnd {
    pub fn send(&self, frame: Bytes) -> bool {
        match &self.tx {
            Some(tx) => tx.send(Ok(frame)).is_ok(),
            None => false,
        }
    }
    /// Makes the server's next read fail with an I/O error.
    pub fn send_error(&self) {
        if let Some(tx) = &self.tx {
            let _ = tx.send(Err("injected read error".into()));
        }
    }
    /// Half-close: the server reads EOF.
    pub fn close_write(&mut self) {
        self.tx = None;
    }
    /// Everything the relay has written so far (non-blocking).
    pub fn drain(&mut self) -> Vec<FromRelay> {
        let mut out = vec![];
        while let Ok(b) = self.rx.try_recv() {
            out.push(decode_from_relay(&b));
        }
        out
    }
    pub fn drain_raw(&mut self) -> Vec<Bytes> {
        let mut out = vec![];
        while let Ok(b) = self.rx.try_recv() {
            out.push(b);
        }
        out
    }
    /// Stalls / resumes the server's flushes towards this client.
    pub fn set_flush_stalled(&self, on: bool) {
        self.flush_stalled.store(on, Ordering::SeqCst);
        if !on {
            if let Some(w) = self.flush_waker.lock().unwrap().take() {
                w.wake();
            }
        }
    }
    /// Back-pressure: the relay may write `n` more frames to this client, then its writes block.
    pub fn set_credits(&self, n: usize) {
        self.credits.store(n, Ordering::SeqCst);
        let w = self.flush_waker.lock().unwrap().take();
        if let Some(w) = w {
            w.wake();
        }
    }
    pub fn add_credit(&self) {
        let c = self.credits.load(Ordering::SeqCst);
        if c != usize::MAX {
            self.credits.store(c + 1, Ordering::SeqCst);
        }
        let w = self.flush_waker.lock().unwrap().take();
        if let Some(w) = w {
            w.wake();
        }
    }
    /// Has the server dropped its end (connection fully torn down)?
    pub fn server_dropped(&self) -> bool {
        self.counters.dropped.load(Ordering::SeqCst)
    }
    pub async fn recv(&mut self) -> Option<FromRelay> {
        self.rx.recv().await.map(|b| decode_from_relay(&b))
    }
}

impl Stream for MemIo {
    type Item = Result<Bytes, AnyError>;
    fn poll_next(mut self: Pin<&mut Self>, cx: &mut Context<'_>) -> Poll<Option<Self::Item>> {
        if self.dead {
            return Poll::Ready(None);
        }
        match self.rx.poll_recv(cx) {
            Poll::Pending => Poll::Pending,
            Poll::Ready(item) => {
                let n = self.counters.reads.fetch_add(1, Ordering::SeqCst);
                if let Some(f) = self.fault {
                    if f.at as u64 == n {
                        match f.kind {
                            FaultKind::ReadErr => {
                                self.dead = true;
                                return Poll::Ready(Some(Err(n0_error::anyerr!(
                                    "injected read fault"
                                ))));
                            }
                            FaultKind::ReadEof => {
                                self.dead = true;
                                return Poll::Ready(None);
                            }
                            _ => {}
                        }
                    }
                }
                match item {
                    None => Poll::Ready(None),
                    Some(Ok(b)) => Poll::Ready(Some(Ok(b))),
                    Some(Err(e)) => {
                        self.dead = true;
                        Poll::Ready(Some(Err(n0_error::anyerr!("{e}"))))
                    }
                }
            }
        }
    }
}

impl Sink<Bytes> for MemIo {
    type Error = AnyError;
    fn poll_ready(self: Pin<&mut Self>, cx: &mut Context<'_>) -> Poll<Result<(), Self::Error>> {
        if self.stalled.load(Ordering::SeqCst) {
            // a stalled peer: never ready.  The caller's write timeout is the way out.
            let _ = cx;
            return Poll::Pending;
        }
        if self.credits.load(Ordering::SeqCst) == 0 {
            {
                let mut w = self.flush_waker.lock().unwrap();
                *w = Some(cx.waker().clone());
            }
            if self.credits.load(Ordering::SeqCst) == 0 {
                return Poll::Pending;
            }
        }
        Poll::Ready(Ok(()))
    }
    fn start_send(self: Pin<&mut Self>, item: Bytes) -> Result<(), Self::Error> {
        let c = self.credits.load(Ordering::SeqCst);
        if c != usize::MAX && c > 0 {
            self.credits.store(c - 1, Ordering::SeqCst);
        }
        let n = self.counters.sends.fetch_add(1, Ordering::SeqCst);
        if let Some(f) = self.fault {
            if f.kind == FaultKind::SendErr && f.at as u64 == n {
                return Err(n0_error::anyerr!("injected send fault"));
            }
        }
        self.tx
            .send(item)
            .map_err(|_| n0_error::anyerr!("peer closed"))
    }
    fn poll_flush(self: Pin<&mut Self>, cx: &mut Context<'_>) -> Poll<Result<(), Self::Error>> {
        if self.flush_stalled.load(Ordering::SeqCst) {
            *self.flush_waker.lock().unwrap() = Some(cx.waker().clone());
            // re-check after publishing the waker
            if self.flush_stalled.load(Ordering::SeqCst) {
                return Poll::Pending;
            }
        }
        let n = self.counters.flushes.fetch_add(1, Ordering::SeqCst);
        if let Some(f) = self.fault {
            if f.kind == FaultKind::FlushErr && f.at as u64 == n {
                return Poll::Ready(Err(n0_error::anyerr!("injected flush fault")));
            }
        }
        Poll::Ready(Ok(()))
    }
    fn poll_close(self: Pin<&mut Self>, _cx: &mut Context<'_>) -> Poll<Result<(), Self::Error>> {
        Poll::Ready(Ok(()))
    }
}

impl ExportKeyingMaterial for MemIo {
    fn export_keying_material<T: AsMut<[u8]>>(
        &self,
        mut output: T,
        label: &[u8],
        context: Option<&[u8]>,
    ) -> Option<T> {
        let secret = self.km_secret?;
        let out = output.as_mut();
        // expand by counter blocks
        let base = export_km(&secret, label, context);
        for (i, chunk) in out.chunks_mut(32).enumerate() {
            let block = if i == 0 {
                base
            } else {
                *blake3::keyed_hash(&base, &(i as u64).to_le_bytes()).as_bytes()
            };
            chunk.copy_from_slice(&block[..chunk.len()]);
        }
        Some(output)
    }
}

// ---------------------------------------------------------------------------------------
// A relay registry with harness-side client handles
// ---------------------------------------------------------------------------------------

/// Write timeout configured on every harness connection (public `Config::write_timeout`).
pub const HARNESS_WRITE_TIMEOUT: std::time::Duration = std::time::Duration::from_millis(1000);

pub struct Relay {
    pub clients: Clients,
    pub metrics: Arc<Metrics>,
    pub key_cache: KeyCache,
}

impl Default for Relay {
    fn default() -> Self {
        Self::new()
    }
}

impl Relay {
    pub fn new() -> Self {
        Self {
            clients: Clients::default(),
            metrics: Arc::new(Metrics::default()),
            key_cache: KeyCache::new(64),
        }
    }

    /// Registers a connection for `id` directly (no handshake), returning the client end and
    /// the connection id the relay assigned.
    pub fn connect(
        &self,
        id: PublicKey,
        version: ProtocolVersion,
        channel_capacity: Option<usize>,
    ) -> (ClientEnd, iroh_relay::server::ConnectionId) {
        let p = self.prepare(id, version, channel_capacity);
        let (end, conn_id) = (p.end, p.conn_id);
        self.clients.register(p.config, self.metrics.clone());
        (end, conn_id)
    }

    /// Builds a connection (its connection id is assigned now) without registering it yet, so
    /// that the order of id assignment and the order of registration can differ, as they do
    /// when two handshakes overlap.
    pub fn prepare(&self, id: PublicKey, version: ProtocolVersion, channel_capacity: Option<usize>) -> Prepared {
        let (io, end) = mem_pair(None, None);
        let guard = OnDisconnectGuard::empty(id);
        let conn_id = guard.connection_id();
        let stream = RelayedStream::new(io, self.key_cache.clone());
        let mut config = Config::new(guard, stream, version);
        config.write_timeout = HARNESS_WRITE_TIMEOUT;
        if let Some(c) = channel_capacity {
            config.channel_capacity = c;
        }
        Prepared { config, end, conn_id }
    }

    pub fn register(&self, p: Prepared) -> (ClientEnd, iroh_relay::server::ConnectionId) {
        let (end, conn_id) = (p.end, p.conn_id);
        self.clients.register(p.config, self.metrics.clone());
        (end, conn_id)
    }
}

/// A connection that has its id but is not registered yet.
pub struct Prepared {
    config: Config<MemIo>,
    end: ClientEnd,
    pub conn_id: iroh_relay::server::ConnectionId,
}

/// Deterministic key pool.
pub fn pool_key(i: u8) -> SecretKey {
    let mut b = [0u8; 32];
    b[0] = i.wrapping_add(1);
    b[31] = 0x5a;
    SecretKey::from_bytes(&b)
}

/// An id for which no key in the pool exists.
pub fn absent_id() -> PublicKey {
    pool_key(200).public()
}

/// Settle: let every spawned task run until idle (paused clock: advances 1 ms of virtual time).
pub async fn settle() {
    tokio::time::sleep(std::time::Duration::from_millis(1)).await;
}

pub type Shared<T> = Arc<Mutex<T>>;
